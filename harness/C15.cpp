// C15 harness: line editor (sline), readline automaton + history, terminal
// automaton (vterm) of both families (C structs / C++ classes) against the
// Lean model IgrisModel/C15, with an independent reference editor and a VT100
// screen interpreter as oracle.
//
// ops (all stateless: one op = one whole session)
//   consts
//   sl  <c|x> <cap> <op>...                    p<hh> n<hex> b<n> d<n> l r z g e<hex>
//   rl  <c|x> <cap> <depth> <keys-hex>
//   vt  <c|x> <cap> <depth> <echo> <keys-hex>
//   vtx <c|x> <cap> <depth> <alpha> <L> <prefix-hex>   digest over a tree of key sequences
//   lc  <c|x> <cap> <depth> <maxlen> <keys-hex>        keys, then readline_linecpy into exactly maxlen bytes
// (ext) sl tokens: N<int>:<hex> sline_newdata with the int length as given; c igris::sline::clear;
//                  s<len>,<cur> igris::sline::set_size_and_cursor
#include "common/hv.h"
#include "C15/oracle.h"
#include <deque>
#include <memory>
#include <functional>

#include <sys/mman.h>
#include <igris/datastruct/sline.h>
#include <igris/defs/vt100.h>
#include <igris/shell/vterm.h>

static_assert(sizeof(void *) == 8 && (char)-1 < 0, "LP64, char signed");


// ===================================================================== C family
namespace c15
{
    struct sline_c : isline
    {
        hv::exact_buf b;
        struct sline s;
        // (a 0-byte buffer is placed at the very end of a 1-byte allocation: any store through it is seen;
        //  a buffer of 2^24 bytes and more is mapped lazily: only the pages the line touches exist)
        void *big = 0;
        size_t bigsz = 0;
        sline_c(unsigned cap) : b(cap > (1u << 24) ? 1 : (size_t)cap, cap ? 0 : 1)
        {
            if (cap > (1u << 24))
            {
                bigsz = cap;
                big = mmap(0, bigsz, PROT_READ | PROT_WRITE, MAP_PRIVATE | MAP_ANONYMOUS | MAP_NORESERVE, -1, 0);
                if (big == MAP_FAILED) abort();
                sline_init(&s, (char *)big, cap);
            }
            else
                sline_init(&s, (char *)b.p, cap);
        }
        ~sline_c() { if (big) munmap(big, bigsz); }
        int putchar(uint8_t c) override { return sline_putchar(&s, (char)c); }
        int newdata(const std::string &d, bool &has_ret) override
        {
            has_ret = true;
            hv::exact_buf src(std::vector<uint8_t>(d.begin(), d.end()));
            return sline_newdata(&s, (const char *)src.p, (int)d.size());
        }
        int newdata_n(const std::string &d, int n, bool &has_ret) override
        {
            has_ret = true;
            hv::exact_buf src(std::vector<uint8_t>(d.begin(), d.end()));
            return sline_newdata(&s, (const char *)src.p, n);
        }
        bool clear() override { return false; }
        bool set_size_cursor(unsigned, unsigned) override { return false; }
        int backspace(unsigned n) override { return sline_backspace(&s, n); }
        int del(unsigned n) override { return sline_delete(&s, n); }
        int backspace_i(int n) override { return sline_backspace(&s, (unsigned int)n); }
        int del_i(int n) override { return sline_delete(&s, (unsigned int)n); }
        int left() override { return sline_left(&s); }
        int right() override { return sline_right(&s); }
        void reset() override { sline_reset(&s); }
        std::string getline() override
        {
            const char *p = sline_getline(&s);
            return s.cap ? std::string(p) : std::string(); // no buffer: nothing to read
        }
        bool equal(const std::string &str) override
        {
            hv::exact_buf z(std::vector<uint8_t>(str.c_str(), str.c_str() + str.size() + 1));
            return sline_equal(&s, (const char *)z.p);
        }
        unsigned len() override { return s.len; }
        unsigned cursor() override { return s.cursor; }
        std::string text() override { return std::string(s.buf, s.len); }
    };
    isline *make_sline_c(unsigned cap) { return new sline_c(cap); }

    struct readline_c : ireadline
    {
        hv::exact_buf b, h;
        struct readline rl;
        unsigned depth;
        readline_c(unsigned cap, unsigned depth_) : b((size_t)cap, cap ? 0 : 1), h((size_t)cap * depth_, cap ? 0 : 1), depth(depth_)
        {
            readline_init(&rl, (char *)b.p, cap);
            if (depth)
                readline_history_init(&rl, (char *)h.p, (int)depth);
        }
        int putchar(uint8_t c) override { return readline_putchar(&rl, (char)c); }
        void newline_reset() override { readline_newline_reset(&rl); }
        unsigned len() override { return rl.line.len; }
        unsigned cursor() override { return rl.line.cursor; }
        std::string text() override { return std::string(rl.line.buf, rl.line.len); }
        int linecpy(char *dst, size_t maxlen) override { return readline_linecpy(&rl, dst, maxlen); }
        int state() override { return C15_CANON_RSTATE(rl.state); }
        std::string tail() override
        {
            // the ring as the C strings its slots hold (round 3: the bytes behind a slot's terminator are not
            // fixed by the property - a push that clears the slot first is as good)
            std::string slots;
            unsigned cap = rl.line.cap;
            for (unsigned i = 0; i < depth && cap; i++)
            {
                size_t n = strnlen((const char *)h.p + (size_t)i * cap, cap);
                slots += (i ? "." : "") + hex(h.p + (size_t)i * cap, n);
            }
            return " H" + std::to_string(rl.headhist) + "," + std::to_string(rl.curhist) + "," + std::to_string(C15_CANON_RSTATE(rl.state)) +
                   "," + (depth && cap ? slots : std::string("-"));
        }
    };
    ireadline *make_readline_c(unsigned cap, unsigned depth) { return new readline_c(cap, depth); }

    struct vterm_c : ivterm
    {
        hv::exact_buf b, h;
        struct vterm_automate v;
        static void on_write(void *p, const char *d, unsigned n) { ((vterm_c *)p)->echoed.append(d, n); }
        static void on_exec(void *p, const char *d, unsigned n)
        {
            ((vterm_c *)p)->evs.push_back(ev{true, std::string(d, n), d[n] == 0});
        }
        static void on_sig(void *p, int) { ((vterm_c *)p)->evs.push_back(ev{false, "", true}); }
        vterm_c(unsigned cap, unsigned depth, bool echo) : b((size_t)cap), h((size_t)cap * depth)
        {
            vterm_automate_init(&v, (char *)b.p, cap, (char *)h.p, depth);
            v.echo = echo ? 1 : 0;
            vterm_set_write_callback(&v, on_write, this);
            vterm_set_execute_callback(&v, on_exec, this);
            vterm_set_signal_callback(&v, on_sig, this);
        }
        void init_step() override { vterm_automate_init_step(&v); }
        void key(uint8_t c) override { vterm_automate_newdata(&v, (int16_t)c); }
        void key16(int16_t c) override { vterm_automate_newdata(&v, c); }
        std::string pstore;
        void set_prompt(const std::string &p) override { pstore = p; v.prefix_string = pstore.c_str(); } // the C API has no setter
        void set_echo(bool e) override { v.echo = e ? 1 : 0; }
        // internals of struct vterm_automate (round 3b: optional, see iface.h).  `rl.line` with buf / len / cursor
        // and `rl.state` are the state the property's record names; `state` of the terminal itself is not.
        template <class V> static constexpr bool vis = requires(V &x) { x.rl.line.len; x.rl.line.cursor; x.rl.line.buf; };
        template <class V> static int st_of(V &x)
        {
            if constexpr (requires { (int)x.state; }) return (int)x.state;
            else return NOT_VISIBLE;
        }
        template <class V> static int rst_of(V &x)
        {
            if constexpr (requires { (int)x.rl.state; }) return C15_CANON_RSTATE((int)x.rl.state);
            else return NOT_VISIBLE;
        }
        template <class V> static unsigned len_of(V &x) { if constexpr (vis<V>) return x.rl.line.len; else return 0; }
        template <class V> static unsigned cur_of(V &x) { if constexpr (vis<V>) return x.rl.line.cursor; else return 0; }
        template <class V> static std::string text_of(V &x)
        {
            if constexpr (vis<V>) return std::string(x.rl.line.buf, x.rl.line.len);
            else return std::string();
        }
        bool line_visible() override { return vis<struct vterm_automate>; }
        int state() override { return st_of(v); }
        int rlstate() override { return rst_of(v); }
        unsigned len_() override { return len_of(v); }
        unsigned cursor_() override { return cur_of(v); }
        std::string text_() override { return text_of(v); }
    };
    ivterm *make_vterm_c(unsigned cap, unsigned depth, bool echo) { return new vterm_c(cap, depth, echo); }

    std::string consts_c()
    {
        char b1[16], b2[16], b3[16];
        int n1 = vt100_left(b1, 1), n2 = vt100_left(b2, 12), n3 = vt100_left(b3, 1234567890);
        std::string s = hex(std::string(VT100_LEFT)) + " " + hex(std::string(VT100_RIGHT)) + " " +
                        hex(std::string(VT100_ERASE_LINE_AFTER_CURSOR)) + " " + hex(std::string(b1, n1)) + " " +
                        hex(std::string(b2, n2)) + " " + hex(std::string(b3, n3));
        int codes[] = {READLINE_OVERFLOW, READLINE_NOTHING, READLINE_ECHOCHAR, READLINE_NEWLINE, READLINE_BACKSPACE,
                       READLINE_DELETE, READLINE_UPDATELINE, READLINE_LEFT, READLINE_RIGHT};
        for (int c : codes)
            s += " " + std::to_string(c);
        return s;
    }
}

namespace c15
{
    // Constants the model embeds (Drv.lean consts2Line).  Round 3b: the COMPARED result holds only what the public
    // interface fixes - the width of the `int16_t` key parameter, of the `unsigned int` count parameter of
    // sline_backspace / sline_delete and of the `int` length of sline_newdata (read from the function types),
    // VTERM_INIT_STEP, the signedness of char, the bytes vt100_left needs for INT_MAX.  The widths of struct fields
    // and the numbers behind READLINE_STATE_* are not fixed by the property (a widened counter or renumbered state
    // is a harmless change): they are reported as TAGS (w-<field>=<bytes>, 0 = the field cannot be named).
    template <class F> struct arg2;
    template <class R, class A, class B> struct arg2<R (*)(A, B)> { typedef B type; };
    template <class F> struct arg3;
    template <class R, class A, class B, class C> struct arg3<R (*)(A, B, C)> { typedef C type; };
#define C15_FIELD_SIZE(obj, f) ([](auto &o_) -> size_t { if constexpr (requires { sizeof(o_.f); }) return sizeof(o_.f); else return 0; }(obj))
    std::string consts2_c(std::string &tags)
    {
        struct sline sl;
        struct readline rl;
        struct vterm_automate vt;
        char b[16];
        int n = vt100_left(b, 2147483647);
        std::string s;
        s += std::to_string(sizeof(arg2<decltype(&vterm_automate_newdata)>::type)) + " ";
        s += std::to_string(sizeof(arg2<decltype(&sline_backspace)>::type)) + " " + std::to_string(sizeof(arg2<decltype(&sline_delete)>::type)) + " ";
        s += std::to_string(sizeof(arg3<decltype(&sline_newdata)>::type)) + " ";
        s += std::to_string(VTERM_INIT_STEP) + " " + std::to_string((char)-1 < 0 ? 1 : 0) + " " + std::to_string(n);
        auto w = [&](const char *name, size_t x) { tags += std::string(tags.empty() ? "" : ",") + "w-" + name + "=" + std::to_string(x); };
        w("cap", C15_FIELD_SIZE(sl, cap)); w("len", C15_FIELD_SIZE(sl, len)); w("cursor", C15_FIELD_SIZE(sl, cursor));
        w("rl.state", C15_FIELD_SIZE(rl, state)); w("rl.last", C15_FIELD_SIZE(rl, last)); w("rl.lastsize", C15_FIELD_SIZE(rl, lastsize));
        w("history_size", C15_FIELD_SIZE(rl, history_size)); w("headhist", C15_FIELD_SIZE(rl, headhist)); w("curhist", C15_FIELD_SIZE(rl, curhist));
        w("vt.state", C15_FIELD_SIZE(vt, state)); w("vt.echo", C15_FIELD_SIZE(vt, echo));
        tags += ",rstate-numbers=" + std::to_string(READLINE_STATE_NORMAL) + "/" + std::to_string(READLINE_STATE_ESCSEQ) + "/" +
                std::to_string(READLINE_STATE_ESCSEQ_MOVE) + "/" + std::to_string(READLINE_STATE_ESCSEQ_MOVE_WAIT_7E);
        tags += "," + consts2_x();
        (void)sl; (void)rl; (void)vt;
        return s;
    }
}

// (the oracles and the session are in C15/oracle.h, the terminal-level ops in C15/term.cpp)
void run_vt(const std::vector<std::string> &w, out &o);
void run_vtx(const std::vector<std::string> &w, out &o);
void run_vs(const std::vector<std::string> &w, out &o);
void run_vw(const std::vector<std::string> &w, out &o);
void run_tw(const std::vector<std::string> &w, out &o);
void run_vl(const std::vector<std::string> &w, out &o);
void premain_report(std::string &result, std::string &fail);

// ===================================================================== run
// which region of the count parameter an op reached (round 3b: the whole range of the C type)
static void count_tags(out &o, const char *what, unsigned n, size_t cursor, size_t there, bool as_int)
{
    std::string w(what);
    if (n == there) o.tag((w + "-count-exact").c_str());
    if ((size_t)n == there + 1) o.tag((w + "-count-one-more").c_str());
    if (n > 0x7fffffffu) o.tag((w + "-count-gt-INT_MAX").c_str());
    if (n == 0xffffffffu) o.tag((w + "-count-UINT_MAX").c_str());
    if (cursor && (uint64_t)cursor + n > 0xffffffffull) o.tag((w + "-cursor+count-wraps").c_str());
    if (as_int) o.tag((w + ((int)n < 0 ? "-int-negative" : "-int")).c_str());
}

static void run_sl(const std::vector<std::string> &w, out &o)
{
    bool cxx = w[1] == "x";
    unsigned cap = (unsigned)strtoul(w[2].c_str(), 0, 10);
    std::unique_ptr<isline> s(cxx ? make_sline_x(cap) : make_sline_c(cap));
    std::string L, R; // reference zipper
    std::string res;
    for (size_t i = 3; i < w.size(); i++)
    {
        const std::string &t = w[i];
        std::string arg = t.substr(1), ret = "0";
        auto fail = [&](const std::string &why) { o.fail(why + " at op " + std::to_string(i - 3) + " (" + t + ")"); };
        switch (t[0])
        {
        case 'p':
        {
            uint8_t c = hv::unhex(arg)[0];
            int r = s->putchar(c);
            int want = L.size() + R.size() + 1 < cap ? 1 : 0;
            if (want)
                L.push_back((char)c);
            else
                o.tag("putchar-full");
            if (r != want) fail("putchar result");
            if (want && !R.empty()) o.tag("insert-midline");
            ret = std::to_string(r);
            break;
        }
        case 'n':
        {
            auto d = hv::unhex(arg);
            std::string ds(d.begin(), d.end());
            bool has = false;
            int r = s->newdata(ds, has);
            size_t room = cap ? cap - 1 - (L.size() + R.size()) : 0;
            size_t k = std::min(room, ds.size());
            L += ds.substr(0, k);
            if (has && r != (int)k) fail("newdata result");
            if (k < ds.size()) o.tag("newdata-clamped");
            if (k && !R.empty()) o.tag("bulk-insert-midline");
            if (L.size() + R.size() + 1 == cap) o.tag("line-full");
            ret = has ? std::to_string(r) : "v";
            break;
        }
        case 'N':
        {
            // N<int>:<hex>  sline_newdata(data, len) with an explicit length: negative, zero, or a prefix of the data
            size_t colon = arg.find(':');
            int n = atoi(arg.substr(0, colon).c_str());
            auto d = hv::unhex(arg.substr(colon + 1));
            std::string ds(d.begin(), d.end());
            bool has = false;
            int r = s->newdata_n(ds, n, has);
            size_t room = cap ? cap - 1 - (L.size() + R.size()) : 0;
            size_t k = n <= 0 ? 0 : std::min(room, (size_t)n);
            L += ds.substr(0, k);
            if (has && r != (int)k) fail("newdata result " + std::to_string(r) + ", " + std::to_string(k) + " characters fit");
            if (n < 0) o.tag("newdata-negative-len");
            if (n == 0) o.tag("newdata-zero-len");
            if (k && !R.empty()) o.tag("bulk-insert-midline");
            ret = has ? std::to_string(r) : "v";
            break;
        }
        case 'Z':
        {
            // Z<size>:<hex>  igris::sline::newdata(data, size) with the size_t as given (the data has at least
            // as many bytes as can be inserted)
            size_t colon = arg.find(':');
            size_t sz = (size_t)strtoull(arg.substr(0, colon).c_str(), 0, 10);
            auto d = hv::unhex(arg.substr(colon + 1));
            std::string ds(d.begin(), d.end());
            if (!s->newdata_sz(ds, sz)) { o.result = "bad-op"; return; }
            size_t room = cap ? cap - 1 - (L.size() + R.size()) : 0;
            size_t k = std::min(room, sz);
            L += ds.substr(0, k);
            o.tag(sz >= (1ull << 31) ? "newdata-size-ge-2^31" : "newdata-size_t");
            ret = "v";
            break;
        }
        case 'c':
        {
            if (!s->clear()) { o.result = "bad-op"; return; }
            L.assign(L.size(), '\0');
            R.assign(R.size(), '\0');
            o.tag("clear");
            break;
        }
        case 's':
        {
            // s<len>,<cursor>: raw setter; the line it denotes is whatever the storage holds
            unsigned l = 0, c = 0;
            sscanf(arg.c_str(), "%u,%u", &l, &c);
            std::string before = s->text();
            unsigned len0 = s->len();
            if (!s->set_size_cursor(l, c)) { o.result = "bad-op"; return; }
            if (s->len() != l || s->cursor() != c) fail("set_size_and_cursor did not store its arguments");
            if (c <= l && l < cap)
            {
                std::string t = s->text();
                if (t.substr(0, std::min<size_t>(len0, l)) != before.substr(0, std::min<size_t>(len0, l)))
                    fail("set_size_and_cursor changed the stored characters");
                L = t.substr(0, c);
                R = t.substr(c);
                o.tag(l > len0 ? "set-size-grow" : "set-size");
            }
            break;
        }
        case 'b':
        case 'B':
        {
            // b<unsigned>: the count as the unsigned int of sline_backspace; B<int>: as an int through
            // igris::sline::backspace(int) (-1 = UINT_MAX, "everything left of the cursor")
            bool as_int = t[0] == 'B';
            unsigned n = as_int ? (unsigned)(int)strtol(arg.c_str(), 0, 10) : (unsigned)strtoul(arg.c_str(), 0, 10);
            size_t cur0 = L.size();
            int r = as_int ? s->backspace_i((int)n) : s->backspace(n);
            size_t k = std::min<size_t>(n, L.size());
            L.erase(L.size() - k);
            if (r != (int)k) fail("backspace removed " + std::to_string(r) + " characters, min(count, cursor) = " + std::to_string(k));
            if (k && !R.empty()) o.tag("backspace-midline");
            if (k < n) o.tag("backspace-clamped");
            count_tags(o, "backspace", n, cur0, cur0, as_int);
            ret = std::to_string(r);
            break;
        }
        case 'd':
        case 'D':
        {
            bool as_int = t[0] == 'D';
            unsigned n = as_int ? (unsigned)(int)strtol(arg.c_str(), 0, 10) : (unsigned)strtoul(arg.c_str(), 0, 10);
            size_t cur0 = L.size(), right0 = R.size();
            int r = as_int ? s->del_i((int)n) : s->del(n);
            size_t k = std::min<size_t>(n, R.size());
            R.erase(0, k);
            if (r != (int)k) fail("delete removed " + std::to_string(r) + " characters, min(count, characters right of the cursor) = " + std::to_string(k));
            if (k) o.tag("delete");
            if (k < n) o.tag("delete-clamped");
            count_tags(o, "delete", n, cur0, right0, as_int);
            ret = std::to_string(r);
            break;
        }
        case 'l':
        {
            int r = s->left();
            int want = L.empty() ? 0 : 1;
            if (want)
            {
                R.insert(R.begin(), L.back());
                L.pop_back();
            }
            if (r != want) fail("left result");
            ret = std::to_string(r);
            break;
        }
        case 'r':
        {
            int r = s->right();
            int want = R.empty() ? 0 : 1;
            if (want)
            {
                L.push_back(R[0]);
                R.erase(0, 1);
            }
            if (r != want) fail("right result");
            ret = std::to_string(r);
            break;
        }
        case 'z':
            s->reset();
            L.clear();
            R.clear();
            break;
        case 'g':
        {
            std::string g = s->getline();
            std::string want = L + R;
            if (g != want.substr(0, want.find('\0'))) fail("getline returned '" + hex(g) + "', reference line '" + hex(want) + "'");
            o.tag("getline");
            break;
        }
        case 'e':
        {
            auto d = hv::unhex(arg);
            std::string ds(d.begin(), d.end());
            bool r = s->equal(ds);
            bool want = (L + R) == ds;
            if (r != want) fail("equal result");
            if (r) o.tag("equal-true");
            ret = r ? "1" : "0";
            break;
        }
        default:
            o.result = "bad-op";
            return;
        }
        unsigned len = s->len(), cur = s->cursor();
        // a line without a buffer (cap 0, outside the property's quantifier) must stay the empty line
        if (cap == 0 ? !(len == 0 && cur == 0) : !(cur <= len && len < cap))
            fail("bounds: cursor " + std::to_string(cur) + " len " + std::to_string(len) + " cap " + std::to_string(cap));
        else if (s->text() != L + R || cur != L.size())
            fail("line '" + hex(s->text()) + "' cursor " + std::to_string(cur) + " != reference '" + hex(L + R) + "' cursor " + std::to_string(L.size()));
        res += (res.empty() ? "" : " ") + ret + "," + std::to_string(len) + "," + std::to_string(cur) + "," + hex(s->text());
    }
    if (cap == 0) o.tag("capacity-zero");
    if (cap == 1) o.tag("capacity-one");
    if (cap > (1u << 24)) o.tag(cap >= (1u << 31) ? "capacity-ge-2^31" : "capacity-large");
    o.result = res.empty() ? "-" : res;
}

static void run_rl(const std::vector<std::string> &w, out &o)
{
    bool cxx = w[1] == "x";
    unsigned cap = (unsigned)strtoul(w[2].c_str(), 0, 10), depth = (unsigned)strtoul(w[3].c_str(), 0, 10);
    auto keys = hv::unhex(w[4]);
    std::unique_ptr<ireadline> rl(cxx ? make_readline_x(cap, depth) : make_readline_c(cap, depth));
    ref_editor ref(cap, depth, false);
    std::string res, sofar;
    for (uint8_t c : keys)
    {
        sofar.push_back((char)c);
        size_t l0 = ref.len(), c0 = ref.left.size(), b0 = ref.browse;
        std::string line0 = ref.line();
        int ret = rl->putchar(c);
        std::string acc;
        int r = ref.key(c, acc);
        auto fail = [&](const std::string &why) { o.fail(why + " after keys " + hex(sofar)); };
        // expected return code from the reference editor's state change
        int want;
        if (r == 1) want = READLINE_NEWLINE;
        else if (ref.browse != b0) want = READLINE_UPDATELINE;
        else if (ref.len() == l0 + 1) want = READLINE_ECHOCHAR;
        else if (ref.len() + 1 == l0 && ref.left.size() + 1 == c0) want = READLINE_BACKSPACE;
        else if (ref.len() + 1 == l0) want = READLINE_DELETE;
        else if (ref.left.size() == c0 + 1) want = READLINE_RIGHT;
        else if (ref.left.size() + 1 == c0) want = READLINE_LEFT;
        else want = READLINE_NOTHING;
        bool overflow_ok = ret == READLINE_OVERFLOW && want == READLINE_NOTHING && l0 + 1 >= cap;
        if (ret != want && !overflow_ok) fail("return code " + std::to_string(ret) + ", reference expects " + std::to_string(want));
        if (ret == READLINE_OVERFLOW) o.tag("overflow-code");
        if (ret == READLINE_UPDATELINE) o.tag("updateline");
        if (r == 1 && rl->text() != acc) fail("accepted line differs from the reference editor's");
        unsigned len = rl->len(), cur = rl->cursor();
        if (!(cur <= len && len < cap))
            fail("bounds: cursor " + std::to_string(cur) + " len " + std::to_string(len));
        else if (rl->text() != ref.line() || cur != ref.left.size())
            fail("line '" + hex(rl->text()) + "' cursor " + std::to_string(cur) + " != reference '" + hex(ref.line()) + "' cursor " + std::to_string(ref.left.size()));
        res += (res.empty() ? "" : " ") + std::to_string(ret) + "," + std::to_string(len) + "," + std::to_string(cur) + "," + hex(rl->text());
        if (ret == READLINE_NEWLINE)
        {
            // what the terminal does next
            rl->newline_reset();
            ref.fresh_line();
        }
    }
    o.result = res + rl->tail();
}

// lc <c|x> <cap> <depth> <maxlen> <keys-hex>: type the keys, then readline_linecpy into a destination of
// exactly maxlen bytes (pre-filled with 0xAA, under ASan)
static void run_lc(const std::vector<std::string> &w, out &o)
{
    bool cxx = w[1] == "x";
    unsigned cap = (unsigned)strtoul(w[2].c_str(), 0, 10), depth = (unsigned)strtoul(w[3].c_str(), 0, 10);
    size_t maxlen = (size_t)strtoul(w[4].c_str(), 0, 10);
    auto keys = hv::unhex(w[5]);
    std::unique_ptr<ireadline> rl(cxx ? make_readline_x(cap, depth) : make_readline_c(cap, depth));
    ref_editor ref(cap, depth, false);
    for (uint8_t c : keys)
    {
        int ret = rl->putchar(c);
        std::string acc;
        ref.key(c, acc);
        if (ret == READLINE_NEWLINE)
        {
            rl->newline_reset();
            ref.fresh_line();
        }
    }
    // (a zero-sized destination is given one guard byte that must stay untouched)
    hv::exact_buf dst(std::vector<uint8_t>(maxlen ? maxlen : 1, 0xAA));
    int n = rl->linecpy((char *)dst.p, maxlen);
    if (maxlen == 0 && dst.p[0] != 0xAA) o.fail("linecpy wrote into a zero-sized destination");
    std::string line = ref.line();
    size_t want = maxlen == 0 ? 0 : std::min(line.size(), maxlen - 1);
    if (n != (int)want)
        o.fail("linecpy returned " + std::to_string(n) + ", min(len, maxlen - 1) = " + std::to_string(want));
    else if (maxlen)
    {
        if (memcmp(dst.p, line.data(), want) != 0) o.fail("linecpy: copied characters differ from the reference line");
        else if (dst.p[want] != 0) o.fail("linecpy: no terminator at [" + std::to_string(want) + "]");
        else
            for (size_t i = want + 1; i < maxlen; i++)
                if (dst.p[i] != 0xAA) { o.fail("linecpy wrote beyond the terminator at [" + std::to_string(i) + "]"); break; }
    }
    if (maxlen == 0) o.tag("linecpy-zero-dest");
    else if (want < line.size()) o.tag("linecpy-truncated");
    else if (want + 1 == maxlen) o.tag("linecpy-exact-fit");
    else o.tag("linecpy");
    o.result = std::to_string(n) + " " + hex(dst.p, maxlen);
}

#include <sys/mman.h>
static void run_lh(const std::vector<std::string> &w, out &o)
{
    bool cxx = w[1] == "x";
    unsigned cap = (unsigned)strtoul(w[2].c_str(), 0, 10), depth = (unsigned)strtoul(w[3].c_str(), 0, 10);
    size_t maxlen = (size_t)strtoull(w[4].c_str(), 0, 10);
    auto keys = hv::unhex(w[5]);
    std::unique_ptr<ireadline> rl(cxx ? make_readline_x(cap, depth) : make_readline_c(cap, depth));
    ref_editor ref(cap, depth, false);
    for (uint8_t c : keys)
    {
        int ret = rl->putchar(c);
        std::string acc;
        ref.key(c, acc);
        if (ret == READLINE_NEWLINE) { rl->newline_reset(); ref.fresh_line(); }
    }
    size_t shown = std::min<size_t>(maxlen, cap + 2);
    void *m = mmap(0, maxlen ? maxlen : 1, PROT_READ | PROT_WRITE, MAP_PRIVATE | MAP_ANONYMOUS | MAP_NORESERVE, -1, 0);
    if (m == MAP_FAILED) { o.result = "bad-op"; return; }
    uint8_t *dst = (uint8_t *)m;
    memset(dst, 0xAA, shown);
    int n = rl->linecpy((char *)dst, maxlen);
    std::string line = ref.line();
    size_t want = maxlen == 0 ? 0 : std::min(line.size(), maxlen - 1);
    if (n != (int)want) o.fail("linecpy(maxlen " + std::to_string(maxlen) + ") returned " + std::to_string(n) + ", min(len, maxlen - 1) = " + std::to_string(want));
    else if (maxlen && (memcmp(dst, line.data(), want) != 0 || dst[want] != 0)) o.fail("linecpy: copied characters / terminator differ from the reference line");
    o.result = std::to_string(n) + " " + hex(dst, shown);
    munmap(m, maxlen ? maxlen : 1);
    o.tag(maxlen >= (1ull << 32) ? "linecpy-maxlen-ge-2^32" : maxlen >= (1ull << 31) ? "linecpy-maxlen-ge-2^31" : "linecpy-maxlen-large");
}

// the session run BEFORE main() by a static object of the highest priority: the library must not depend on the
// initialisation of any other static object
static void run_ts(const std::vector<std::string> &w, out &o)
{
    unsigned cap = (unsigned)strtoul(w[1].c_str(), 0, 10);
    std::vector<std::string> wc = {"sl", "c", w[1]}, wx = {"sl", "x", w[1]};
    for (size_t i = 2; i < w.size(); i++) { wc.push_back(w[i]); wx.push_back(w[i]); }
    out oc, ox;
    run_sl(wc, oc);
    run_sl(wx, ox);
    // the C family reports sline_newdata's return value, igris::sline::newdata returns nothing: compare the rest
    auto strip = [](const std::string &r)
    {
        std::string s;
        size_t i = 0;
        while (i < r.size())
        {
            size_t e = r.find(' ', i);
            if (e == std::string::npos) e = r.size();
            std::string t = r.substr(i, e - i);
            s += t.substr(t.find(',')) + " ";
            i = e + 1;
        }
        return s;
    };
    o.result = ox.result;
    o.oracle = oc.oracle != "ok" ? oc.oracle : ox.oracle;
    if (o.oracle == "ok" && strip(oc.result) != strip(ox.result)) o.fail("twins: struct sline '" + oc.result + "' != igris::sline '" + ox.result + "'");
    o.tags = ox.tags;
    o.tag("sline-twins");
    (void)cap;
}

// vl <c|x> <cap> <depth> <n> <seed>: one LONG session (n keys from a small LCG over the 15-byte alphabet, the same
// generator is in Drv.lean), compared by the FNV-1a digest of every key's record
static void run_op(const std::vector<std::string> &w, const std::string &, out &o)
{
    if (w.empty()) { o.result = "bad-op"; return; }
    const std::string &op = w[0];
    if (op == "reset") { o.result = "ok"; return; }
    if (op == "consts") { o.result = consts_c(); return; }
    if (op == "sl" && w.size() >= 3) return run_sl(w, o);
    if (op == "rl" && w.size() == 5) return run_rl(w, o);
    if (op == "lc" && w.size() == 6) return run_lc(w, o);
    if (op == "vt" && w.size() == 6) return run_vt(w, o);
    if (op == "vtx" && w.size() == 7) return run_vtx(w, o);
    if (op == "vl" && w.size() == 6) return run_vl(w, o);
    if (op == "vs" && w.size() >= 4) return run_vs(w, o);
    if (op == "vw" && w.size() == 7) return run_vw(w, o);
    if (op == "lh" && w.size() == 6) return run_lh(w, o);
    if (op == "tw" && w.size() == 5) return run_tw(w, o);
    if (op == "ts" && w.size() >= 2) return run_ts(w, o);
    if (op == "consts2") { o.result = consts2_c(o.tags); return; }
    if (op == "premain" && w.size() == 2)
    {
        if (w[1] != hex(std::string(PREMAIN_KEYS))) { o.result = "bad-op"; return; }
        std::string pr, pf;
        premain_report(pr, pf);
        o.result = pr;
        if (!pf.empty()) o.fail("before main(): " + pf);
        o.tag("before-main");
        return;
    }
    o.result = "bad-op";
}

// ===================================================================== gen
// (round 3b: the generator lives in harness/C15/gen.cpp, a translation unit of its own compiled at -O0: the
//  compile of this file under ASan / UBSan dominated the quick tier)
extern uint64_t c15_gen_seed;
void c15_gen(hv::rng &r, const std::string &tier);

int main(int argc, char **argv)
{
    if (argc >= 3) c15_gen_seed = strtoull(argv[2], 0, 10);
    return hv::main_(argc, argv, [](hv::rng &r, const std::string &tier) { c15_gen(r, tier); }, run_op);
}

