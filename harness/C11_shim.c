/* C11: the compat libc translation units under test, compiled into the harness
 * with renamed symbols so that they do not clash with (and are not replaced
 * by) the host C library.  Nothing here is harness logic: it is the
 * `#define` + `#include "the .c file"` technique of DESIGN.md §5.
 *
 * The character classification the code uses is the shim's own: on a target
 * <ctype.h> is compat/libc/include/ctype.h, whose is*() are inline wrappers
 * around igris/util/ctype.h (plain range comparisons, defined for negative
 * arguments too).  The same mapping is made here so that the code runs with
 * the classification it ships with and not with glibc's table.
 */
#include <stdlib.h>
#include <string.h>
#include <alloca.h>
#include <ctype.h>
#include <errno.h>
#include <limits.h>
#include <inttypes.h>
#include <stdint.h>
#include <stddef.h>
#include <igris/util/ctype.h>

#undef isspace
#undef isdigit
#undef isalpha
#undef isupper
#undef isxdigit
#define isspace igris_isspace
#define isdigit igris_isdigit
#define isalpha igris_isalpha
#define isupper igris_isupper
#define isxdigit igris_isxdigit

#define strtol igv_strtol
#define strtoul igv_strtoul
#define strtoll igv_strtoll
#define strtoull igv_strtoull
#define strtoq igv_strtoq
#define strtouq igv_strtouq
#define strtoimax igv_strtoimax
#define strtoumax igv_strtoumax
#define atol igv_atol
#define atoi igv_atoi
#define qsort igv_qsort
#define bsearch igv_bsearch
#define upper_bound igv_upper_bound
#define lower_bound igv_lower_bound
#define rand igv_rand
#define srand igv_srand
#define rand_r igv_rand_r
/* file-static names of the included files, renamed only so that they cannot collide with anything of the
 * host headers; nothing below refers to them (if the library renames or removes them these are no-ops) */
#define swap igv_qsort_swap
#define seed igv_rand_seed

/* Prototypes under the renamed names (round 3c): the host's <stdlib.h>/<inttypes.h> declared the functions before
 * the #defines above, so without these a library file that calls one of them BEFORE its definition in this
 * translation unit (strtoll.c calling strtoull, say) would be an implicit declaration = a compile error in the
 * shim instead of a run judged by the oracles.  The types are the ISO ones. */
long strtol(const char *, char **, int);
unsigned long strtoul(const char *, char **, int);
long long strtoll(const char *, char **, int);
unsigned long long strtoull(const char *, char **, int);
intmax_t strtoimax(const char *, char **, int);
uintmax_t strtoumax(const char *, char **, int);
long atol(const char *);
int atoi(const char *);
int rand(void);
void srand(unsigned int);

/* Each file is included when it exists: a file that was merged into another one / split is then a LINK
 * error naming the missing public function (or nothing at all, for the optional strtoq/strtouq), not a
 * confusing preprocessor error in the shim. */
#if __has_include(<compat/libc/stdlib/strtol.c>)
#include <compat/libc/stdlib/strtol.c>
#endif
#if __has_include(<compat/libc/stdlib/strtoul.c>)
#include <compat/libc/stdlib/strtoul.c>
#endif
#if __has_include(<compat/libc/stdlib/strtoll.c>)
#include <compat/libc/stdlib/strtoll.c>
#endif
#if __has_include(<compat/libc/stdlib/strtoull.c>)
#include <compat/libc/stdlib/strtoull.c>
#endif
#if __has_include(<compat/libc/inttypes/strtoimax.c>)
#include <compat/libc/inttypes/strtoimax.c>
#endif
#if __has_include(<compat/libc/inttypes/strtoumax.c>)
#include <compat/libc/inttypes/strtoumax.c>
#endif
#if __has_include(<compat/libc/stdlib/atol.c>)
#include <compat/libc/stdlib/atol.c>
#endif
#if __has_include(<compat/libc/stdlib/rand.c>)
#include <compat/libc/stdlib/rand.c>
#endif
#if __has_include(<compat/libc/stdlib/qsort.c>)
#include <compat/libc/stdlib/qsort.c>
#endif
#if __has_include(<compat/libc/stdlib/bsearch.c>)
#include <compat/libc/stdlib/bsearch.c>
#endif

/* ---- read-outs of what the compiled code contains (ops `consts`, `ctype`) ---- */
/* (round 3b: rand.c's file-static `seed` is no longer named here - its width and initial value are probed
 * through srand()/rand() by the harness, so a renamed / restructured state is not a compile error) */
int igv_erange(void) { return ERANGE; }
int igv_einval(void) { return EINVAL; }
/* bit 0 isspace, 1 isdigit, 2 isalpha, 3 isupper, 4 isxdigit - the
 * classification the code above was compiled with */
int igv_ctype_bits(int c) {
	return (isspace(c) ? 1 : 0) | (isdigit(c) ? 2 : 0) | (isalpha(c) ? 4 : 0) | (isupper(c) ? 8 : 0) | (isxdigit(c) ? 16 : 0);
}
