// C11 harness: compat/libc strto*/ato*, qsort, bsearch, rand against the Lean
// model (IgrisModel/C11).  The code under test is compiled in C11_shim.c with
// renamed symbols (igv_*), so `strtol` etc. below are the HOST functions
// (used only as an oracle).
#include "common/hv.h"
#include <algorithm>
#include <cinttypes>
#include <climits>
#include <set>
#include <sys/wait.h>

extern "C"
{
    long igv_strtol(const char *, char **, int);
    unsigned long igv_strtoul(const char *, char **, int);
    long long igv_strtoll(const char *, char **, int);
    unsigned long long igv_strtoull(const char *, char **, int);
    intmax_t igv_strtoimax(const char *, char **, int);
    uintmax_t igv_strtoumax(const char *, char **, int);
    long igv_atol(const char *);
    int igv_atoi(const char *);
    void igv_qsort(void *, size_t, size_t, int (*)(const void *, const void *));
    void *igv_bsearch(const void *, const void *, size_t, size_t, int (*)(const void *, const void *));
    int igv_rand(void);
    void igv_srand(unsigned);
    int64_t igv_strtoq(const char *, char **, int);
    uint64_t igv_strtouq(const char *, char **, int);
    void *igv_upper_bound(const void *, const void *, size_t, size_t, int (*)(const void *, const void *));
    void *igv_lower_bound(const void *, const void *, size_t, size_t, int (*)(const void *, const void *));
    int igv_rand_r(unsigned int *);
    size_t igv_rand_state_size(void);
    unsigned long long igv_rand_state(void);
    int igv_rand_state_unsigned(void);
    int igv_erange(void);
    int igv_einval(void);
    int igv_ctype_bits(int);
}

using namespace hv;
static const char *const FNS_[8] = {"l", "ul", "ll", "ull", "imax", "umax", "q", "uq"};
typedef std::vector<uint8_t> bytes;
typedef unsigned __int128 u128;

static_assert(sizeof(long) == 8 && sizeof(long long) == 8 && sizeof(intmax_t) == 8 && sizeof(int) == 4, "LP64 host assumed by the driver's instantiation (widths op)");
static_assert((char)-1 < 0, "char is signed on this host");

// ------------------------------------------------------------ ISO reference
// ISO/IEC 9899 7.22.1.4 evaluated directly (no code shared with the shim):
// white space, optional sign, optional 0x/0X (base 0/16, only when a hex digit
// follows), longest run of digits of the base; value clamped to the type.
static int ref_digit(uint8_t c)
{
    if (c >= '0' && c <= '9') return c - '0';
    if (c >= 'a' && c <= 'z') return c - 'a' + 10;
    if (c >= 'A' && c <= 'Z') return c - 'A' + 10;
    return 99;
}
static bool ref_space(uint8_t c) { return c == ' ' || (c >= 9 && c <= 13); }
struct parsed
{
    bool conv = false, neg = false, huge = false; // huge: magnitude > 2^64-1
    u128 mag = 0;
    size_t end = 0;
};
static parsed ref_parse(const bytes &t, int base)
{
    parsed p;
    size_t i = 0, n = t.size();
    auto at = [&](size_t k) -> uint8_t { return k < n ? t[k] : 0; };
    while (ref_space(at(i))) i++;
    if (at(i) == '-') { p.neg = true; i++; }
    else if (at(i) == '+') i++;
    if ((base == 0 || base == 16) && at(i) == '0' && (at(i + 1) == 'x' || at(i + 1) == 'X') && ref_digit(at(i + 2)) < 16)
    {
        i += 2;
        base = 16;
    }
    if (base == 0) base = at(i) == '0' ? 8 : 10;
    size_t start = i;
    const u128 top = ((u128)1 << 100);
    while (ref_digit(at(i)) < base)
    {
        if (p.mag < top) p.mag = p.mag * base + ref_digit(at(i));
        i++;
    }
    if (i == start) return p;
    p.conv = true;
    p.end = i;
    p.huge = p.mag > (u128)UINT64_MAX;
    return p;
}
static uint64_t ref_signed(const parsed &p)
{
    if (!p.conv) return 0;
    if (p.neg) return p.mag > ((u128)1 << 63) ? (uint64_t)INT64_MIN : (uint64_t)(0 - (uint64_t)p.mag);
    return p.mag > (u128)INT64_MAX ? (uint64_t)INT64_MAX : (uint64_t)p.mag;
}
static uint64_t ref_unsigned(const parsed &p)
{
    if (!p.conv) return 0;
    if (p.huge) return UINT64_MAX;
    return p.neg ? 0 - (uint64_t)p.mag : (uint64_t)p.mag;
}

// ------------------------------------------------------------ elements
// element = esize bytes: [0] key, [1] original index, [j>=2] f(idx,key,j)
static uint8_t tagbyte(unsigned idx, unsigned key, unsigned j) { return (uint8_t)(idx * (j + 1) + key * 3 + j); }
static void put_elem(uint8_t *p, unsigned esize, unsigned key, unsigned idx)
{
    p[0] = (uint8_t)key;
    if (esize > 1) p[1] = (uint8_t)idx;
    for (unsigned j = 2; j < esize; j++) p[j] = tagbyte(idx, key, j);
}
static bool elem_intact(const uint8_t *p, unsigned esize)
{
    if (esize < 2) return true;
    for (unsigned j = 2; j < esize; j++)
        if (p[j] != tagbyte(p[1], p[0], j)) return false;
    return true;
}

// comparator kinds (all are consistent weak orders on the key byte)
static int cmp_keys(int kind, int a, int b)
{
    switch (kind)
    {
    case 0: return a - b;                                   // ascending, varying magnitude
    case 1: return b - a;                                   // descending
    case 2: return (a / 2 < b / 2) ? -1 : (a / 2 > b / 2);  // classes {2k,2k+1}
    case 3: return 0;                                       // everything equal
    case 5: return a / 16 - b / 16;                         // large classes: 16 keys each
    case 6: return (a & 15) - (b & 15);                     // only a part of the key (low nibble) is compared
    default: return a < b ? INT_MIN : a > b ? INT_MAX : 0;  // extreme magnitudes
    }
}

// comparator call log ------------------------------------------------------
static struct
{
    int kind;
    const uint8_t *base;
    size_t n, esize;
    const uint8_t *key; // bsearch: the key object; qsort: null
    std::vector<bytes> *orig;
    std::string bad;
    unsigned long calls, pivot_args;
    const uint8_t *odata;      // big arrays: a copy of the original array and the order of its elements
    const std::vector<uint32_t> *oord; // (indices sorted by memcmp): logarithmic look-up
    const uint8_t *pv_ptr;     // last argument outside the array that was verified to be a copy of an element
    bytes pv_val;
    const uint8_t *stack_lo;   // lowest frame address seen in a comparator call (recursion depth, tag only)
} L;

static bool in_array(const void *p)
{
    const uint8_t *q = (const uint8_t *)p;
    return L.n && q >= L.base && q < L.base + L.n * L.esize && (size_t)(q - L.base) % L.esize == 0;
}
static void bad(const std::string &s)
{
    if (L.bad.empty()) L.bad = s;
}
// qsort: each argument is an element of the array or a private copy of one
static int qs_compar(const void *a, const void *b)
{
    L.calls++;
    const void *ar[2] = {a, b};
    for (const void *p : ar)
        if (!in_array(p))
        {
            const uint8_t *q = (const uint8_t *)p;
            if (q >= L.base - 64 && q < L.base + L.n * L.esize + 64)
            {
                bad("comparator called with a misplaced pointer at array offset " + std::to_string((long)(q - L.base)));
                return 0; // do not dereference
            }
            L.pivot_args++;
            if (L.pv_ptr == q && L.pv_val.size() == L.esize && !memcmp(L.pv_val.data(), q, L.esize)) continue;
            bool found = false;
            if (L.oord)
            {
                size_t lo = 0, hi = L.oord->size();
                while (lo < hi)
                {
                    size_t mid = lo + (hi - lo) / 2;
                    int c = memcmp(L.odata + (size_t)(*L.oord)[mid] * L.esize, q, L.esize);
                    if (c == 0) { found = true; break; }
                    if (c < 0) lo = mid + 1; else hi = mid;
                }
            }
            else
                for (auto &e : *L.orig)
                    if (!memcmp(e.data(), q, L.esize)) found = true;
            if (!found) bad("comparator argument outside the array is not a copy of an element");
            else { L.pv_ptr = q; L.pv_val.assign(q, q + L.esize); }
        }
    {
        const uint8_t *fp = (const uint8_t *)__builtin_frame_address(0);
        if (!L.stack_lo || fp < L.stack_lo) L.stack_lo = fp;
    }
    return cmp_keys(L.kind, ((const uint8_t *)a)[0], ((const uint8_t *)b)[0]);
}
// bsearch: (key object, array element) in that order; the key object is a
// 4-byte int, an element is esize bytes: confusing them is observable.
static int bs_compar(const void *a, const void *b)
{
    L.calls++;
    if (a == L.key && in_array(b)) return cmp_keys(L.kind, *(const int *)a, ((const uint8_t *)b)[0]);
    if (b == L.key && in_array(a))
    {
        bad("comparator called as (element, key): ISO 7.22.5.1 requires (key, element)");
        int c = cmp_keys(L.kind, *(const int *)b, ((const uint8_t *)a)[0]);
        return c == INT_MIN ? INT_MAX : -c;
    }
    const uint8_t *q = (const uint8_t *)(a == L.key ? b : a);
    bad("comparator called with a pointer outside the array (offset " + std::to_string((long)(q - L.base)) + ", nmemb " + std::to_string(L.n) + ")");
    return 1;
}

// bsearch whose key object is an element of the array itself (aliasing arguments)
static int bsa_compar(const void *a, const void *b)
{
    L.calls++;
    if (a != L.key) bad("comparator called with something else than the key object as first argument");
    if (!in_array(b))
    {
        bad("comparator called with a pointer outside the array (offset " + std::to_string((long)((const uint8_t *)b - L.base)) + ", nmemb " + std::to_string(L.n) + ")");
        return 1;
    }
    return cmp_keys(L.kind, ((const uint8_t *)L.key)[0], ((const uint8_t *)b)[0]);
}

// canonical form of a sorted array: inside every maximal run of adjacent
// elements that compare equal the order is unspecified (qsort is not stable,
// ISO 7.22.5.2p4) - each run is printed sorted by (key, original index)
static std::string canon_runs(int kind, std::vector<std::pair<int, int>> el, bool with_idx)
{
    size_t n = el.size(), s0 = 0;
    while (s0 < n)
    {
        size_t e = s0 + 1;
        while (e < n && cmp_keys(kind, el[e - 1].first, el[e].first) == 0) e++;
        std::sort(el.begin() + s0, el.begin() + e);
        s0 = e;
    }
    std::string r;
    for (size_t i = 0; i < n; i++)
    {
        r += (i ? "," : "") + std::to_string(el[i].first);
        if (with_idx) r += "." + std::to_string(el[i].second);
    }
    return r.empty() ? "-" : r;
}
// run-length form of the same for big arrays: keys only
static std::string canon_rle(int kind, std::vector<int> k)
{
    size_t n = k.size(), s0 = 0;
    while (s0 < n)
    {
        size_t e = s0 + 1;
        while (e < n && cmp_keys(kind, k[e - 1], k[e]) == 0) e++;
        std::sort(k.begin() + s0, k.begin() + e);
        s0 = e;
    }
    std::string r;
    for (size_t i = 0; i < n;)
    {
        size_t j = i;
        while (j < n && k[j] == k[i]) j++;
        r += (i ? "," : "") + std::to_string(k[i]) + "*" + std::to_string(j - i);
        i = j;
    }
    return r.empty() ? "-" : r;
}
// the generated arrays of the op `qsg` (the driver computes the same keys)
static int qsg_key(unsigned shape, uint64_t i, uint64_t n, uint64_t m, uint64_t seed)
{
    switch (shape)
    {
    case 0: return (int)((((i * 2654435761ull + seed * 40503ull) & 0xffffffffull) >> 16) % m);
    case 1: return (int)(i * m / n);
    case 2: return (int)((n - 1 - i) * m / n);
    case 3: return 7;
    default: { uint64_t d = i < n - 1 - i ? i : n - 1 - i; uint64_t v = d * 2 * m / n; return (int)(v >= m ? m - 1 : v); }
    }
}

static std::vector<int> ints(const std::string &s)
{
    std::vector<int> v;
    if (s == "-") return v;
    size_t i = 0;
    while (i < s.size())
    {
        size_t j = s.find(',', i);
        if (j == std::string::npos) j = s.size();
        v.push_back(atoi(s.substr(i, j - i).c_str()));
        i = j + 1;
    }
    return v;
}

// ------------------------------------------------------------ nested calls (re-entrancy)
// A comparator may itself call qsort / bsearch / strto* on OTHER data (rows ordered by their sorted
// contents, keys parsed from text ...): it is still a pure function of its two arguments, so the
// property's clauses hold for the outer call and for every nested call.  `nested_work` runs, from inside
// a comparator of an outer qsort/bsearch (on this thread, or on a second thread that is joined before the
// comparator returns, so that the two calls overlap in time deterministically), a complete qsort of a
// private array, bsearch/upper_bound/lower_bound on another one and one strto* call; each is judged on
// its own (independent oracles), and must give what the same call gives when it runs alone afterwards.
#include <pthread.h>
static struct
{
    unsigned what = 0;              // bit 0 qsort, 1 bsearch+bounds, 2 strto*, 3 on a second thread
    unsigned long when = 0;         // 0: every comparator call, k: only the k-th
    unsigned long calls = 0, ran = 0;
    unsigned iesize = 1;
    std::vector<int> ikeys;
    std::string fn;
    int base = 10;
    bytes text;
    std::string inner_seen, st_seen, bad;
} N;
static void nbad(const std::string &s)
{
    if (N.bad.empty()) N.bad = s;
}
static int in_cmp(const void *a, const void *b) { return (int)*(const uint8_t *)a - (int)*(const uint8_t *)b; }
static int in_kcmp(const void *k, const void *e) { return *(const int *)k - (int)*(const uint8_t *)e; }
static void nested_do(unsigned what)
{
    size_t n = N.ikeys.size();
    unsigned es = N.iesize;
    if (what & 1)
    {
        exact_buf a(n * es);
        std::vector<bytes> orig, now;
        for (size_t i = 0; i < n; i++)
        {
            put_elem(a.p + i * es, es, N.ikeys[i], (unsigned)i);
            orig.emplace_back(a.p + i * es, a.p + (i + 1) * es);
        }
        igv_qsort(a.p, n, es, in_cmp);
        std::vector<std::pair<int, int>> el;
        for (size_t i = 0; i < n; i++)
        {
            const uint8_t *e = a.p + i * es;
            now.emplace_back(e, e + es);
            el.emplace_back(e[0], es > 1 ? e[1] : 0);
            if (!elem_intact(e, es)) nbad("nested qsort: an element is a mixture of bytes of different elements");
            if (i && a.p[(i - 1) * es] > e[0]) nbad("nested qsort: not ordered at index " + std::to_string(i - 1));
        }
        std::sort(orig.begin(), orig.end());
        std::sort(now.begin(), now.end());
        if (orig != now) nbad("nested qsort: result is not a permutation of the input");
        std::string c = canon_runs(0, el, es > 1);
        if (N.inner_seen.empty()) N.inner_seen = c;
        else if (N.inner_seen != c) nbad("nested qsort: two calls with the same arguments gave different results");
    }
    if ((what & 2) && n)
    {
        std::vector<int> sk = N.ikeys;
        std::sort(sk.begin(), sk.end());
        exact_buf a(n * es);
        for (size_t i = 0; i < n; i++) put_elem(a.p + i * es, es, sk[i], (unsigned)i);
        for (int key : {N.ikeys[0], 255, N.ikeys[n / 2] + 1, 0})
        {
            exact_buf kb(sizeof(int));
            memcpy(kb.p, &key, sizeof key);
            const uint8_t *q = (const uint8_t *)igv_bsearch(kb.p, a.p, n, es, in_kcmp);
            bool exists = std::binary_search(sk.begin(), sk.end(), key);
            if ((q != 0) != exists) nbad("nested bsearch: key " + std::to_string(key) + (exists ? " exists but NULL was returned" : " does not exist but an element was returned"));
            else if (q && (q < a.p || q >= a.p + n * es || (size_t)(q - a.p) % es || q[0] != key)) nbad("nested bsearch: wrong element returned");
            const uint8_t *u = (const uint8_t *)igv_upper_bound(kb.p, a.p, n, es, in_kcmp);
            const uint8_t *l = (const uint8_t *)igv_lower_bound(kb.p, a.p, n, es, in_kcmp);
            if (u != a.p + (size_t)(std::upper_bound(sk.begin(), sk.end(), key) - sk.begin()) * es) nbad("nested upper_bound: not the first element greater than the key");
            if (l != a.p + (size_t)(std::lower_bound(sk.begin(), sk.end(), key) - sk.begin()) * es) nbad("nested lower_bound: not the first element not less than the key");
        }
    }
    if (what & 4)
    {
        bytes z = N.text;
        z.push_back(0);
        exact_buf b(z);
        const char *s = (const char *)b.p;
        char *end = (char *)1;
        const std::string &fn = N.fn;
        bool sg = fn == "l" || fn == "ll" || fn == "imax" || fn == "q";
        int saved = errno;
        errno = 9999;
        uint64_t v = fn == "l" ? (uint64_t)igv_strtol(s, &end, N.base) : fn == "ul" ? igv_strtoul(s, &end, N.base) : fn == "ll" ? (uint64_t)igv_strtoll(s, &end, N.base)
                   : fn == "ull" ? igv_strtoull(s, &end, N.base) : fn == "imax" ? (uint64_t)igv_strtoimax(s, &end, N.base) : fn == "umax" ? igv_strtoumax(s, &end, N.base)
                   : fn == "q" ? (uint64_t)igv_strtoq(s, &end, N.base) : igv_strtouq(s, &end, N.base);
        int ierr = errno;
        errno = saved;
        parsed p = ref_parse(N.text, N.base);
        uint64_t rv = sg ? ref_signed(p) : ref_unsigned(p);
        long re = p.conv ? (long)p.end : 0;
        bool range = p.conv && (sg ? (p.neg ? p.mag > ((u128)1 << 63) : p.mag > (u128)INT64_MAX) : p.huge);
        if (v != rv || end - s != re) nbad("nested strto" + fn + ": ISO 7.22.1.4 expects " + hexn(rv, 16) + " end " + std::to_string(re) + ", got " + hexn(v, 16) + " end " + std::to_string((long)(end - s)));
        if (range != (ierr == ERANGE)) nbad("nested strto" + fn + ": errno ERANGE iff the value is out of range");
        std::string c = hexn(v, 16) + " " + std::to_string((long)(end - s)) + " " + (ierr == 9999 ? "0" : ierr == ERANGE ? "ERANGE" : ierr == EINVAL ? "EINVAL" : std::to_string(ierr));
        if (N.st_seen.empty()) N.st_seen = c;
        else if (N.st_seen != c) nbad("nested strto*: two calls with the same arguments gave different results");
    }
}
static void *nested_thread(void *w)
{
    nested_do(*(unsigned *)w);
    return 0;
}
static void nested_work(unsigned what)
{
    N.ran++;
    if (what & 8)
    {
        pthread_t t;
        unsigned w = what & 7;
        if (pthread_create(&t, 0, nested_thread, &w)) { nbad("pthread_create failed"); return; }
        pthread_join(t, 0);
    }
    else
        nested_do(what);
}
static void nested_hook()
{
    N.calls++;
    if (N.what && (N.when == 0 || N.calls == N.when)) nested_work(N.what);
}
static int qsn_compar(const void *a, const void *b)
{
    int r = qs_compar(a, b); // the arguments are judged first ...
    nested_hook();           // ... then other calls run while the outer one is in the middle of its work
    return r;
}
static int bsn_compar(const void *a, const void *b)
{
    nested_hook();
    return bs_compar(a, b);
}
// fields k.. of an op: <when> <what> <iesize> <ikeys> <fn> <base> <hextext>
static bool nested_setup(const std::vector<std::string> &w, size_t k)
{
    N.when = strtoul(w[k].c_str(), 0, 10);
    N.what = (unsigned)atoi(w[k + 1].c_str());
    N.iesize = (unsigned)atoi(w[k + 2].c_str());
    N.ikeys = ints(w[k + 3]);
    N.fn = w[k + 4];
    N.base = atoi(w[k + 5].c_str());
    N.text = unhex(w[k + 6]);
    N.calls = N.ran = 0;
    N.inner_seen.clear();
    N.st_seen.clear();
    N.bad.clear();
    static const std::set<std::string> fns(FNS_, FNS_ + 8);
    return N.iesize >= 1 && fns.count(N.fn);
}
// after the outer call: the same calls alone ("one after the other") must give what the nested ones gave
static std::string nested_finish(out &o)
{
    unsigned long ran = N.ran;
    N.what = 0;
    nested_do(7);
    if (!N.bad.empty()) o.fail(N.bad);
    o.tag(ran == 0 ? "nested-none" : ran == 1 ? "nested-once" : "nested-every-call");
    return " | " + N.inner_seen + " | " + N.st_seen;
}

// ------------------------------------------------------------ before main()
// A few calls made from the constructor of an object with the earliest user
// init priority: static-initialisation-order dependencies (rand.c's seed is a
// constant-initialised static; nothing else may need a constructor).
static char g_premain[1024];          // plain storage: no constructor that could run after the object below
static const char *g_premain_bad = 0;
static const int PM_KEYS[9] = {5, 1, 4, 1, 5, 9, 2, 6, 5};
static int pm_cmp(const void *a, const void *b) { return (int)*(const uint8_t *)a - (int)*(const uint8_t *)b; }
static int pm_kcmp(const void *k, const void *e) { return *(const int *)k - (int)*(const uint8_t *)e; }
struct premain_t
{
    // The calls run in a forked child: a crash there (sanitizer abort) must not take the whole
    // harness down before main() - it becomes the result of the op `premain`.
    premain_t()
    {
        int fd[2];
        if (pipe(fd)) { g_premain_bad = "pipe() failed"; return; }
        fflush(0);
        pid_t pid = fork();
        if (pid == 0)
        {
            close(fd[0]);
            alarm(20);
            calls();
            (void)!write(fd[1], g_premain, strlen(g_premain));
            _exit(g_premain_bad ? 3 : 0);
        }
        close(fd[1]);
        size_t got = 0;
        ssize_t k;
        while (got + 1 < sizeof g_premain && (k = read(fd[0], g_premain + got, sizeof g_premain - 1 - got)) > 0) got += (size_t)k;
        g_premain[got] = 0;
        close(fd[0]);
        int status = 0;
        waitpid(pid, &status, 0);
        if (!WIFEXITED(status) || WEXITSTATUS(status) != 0)
        {
            if (!got) snprintf(g_premain, sizeof g_premain, "crashed-before-main");
            g_premain_bad = "the calls made before main() (strtol, strtoull, rand, qsort of 9 elements of 3 bytes, bsearch) crashed or gave a wrong result";
        }
    }
    static void calls()
    {
        std::string r = "seed0 " + std::to_string(igv_rand_state());
        r += " rand";
        for (int i = 0; i < 3; i++) r += " " + std::to_string(igv_rand());
        char *e = 0;
        static const char txt[] = " \t-0x7fZ";
        errno = 0;
        long v = igv_strtol(txt, &e, 0);
        r += " strtol " + hexn((uint64_t)v, 16) + " " + std::to_string(e - txt);
        unsigned long long u = igv_strtoull("18446744073709551616", 0, 10);
        r += " strtoull " + hexn(u, 16) + (errno == ERANGE ? " ERANGE" : " 0");
        errno = 0;
        uint8_t arr[9][3];
        for (int i = 0; i < 9; i++) { arr[i][0] = (uint8_t)PM_KEYS[i]; arr[i][1] = (uint8_t)i; arr[i][2] = (uint8_t)(PM_KEYS[i] ^ i); }
        igv_qsort(arr, 9, 3, pm_cmp);   // rand() continues from the state left above
        std::vector<std::pair<int, int>> el;
        for (int i = 0; i < 9; i++)
        {
            el.emplace_back(arr[i][0], arr[i][1]);
            if (arr[i][2] != (arr[i][0] ^ arr[i][1])) g_premain_bad = "qsort before main mixed elements";
            if (i && arr[i - 1][0] > arr[i][0]) g_premain_bad = "qsort before main: not ordered";
        }
        r += " qsort " + canon_runs(0, el, true);
        r += " bsearch";
        for (int key : {5, 3, 9})
        {
            const uint8_t *q = (const uint8_t *)igv_bsearch(&key, arr, 9, 3, pm_kcmp);
            r += q ? " found(" + std::to_string(q[0]) + ")" : std::string(" null");
        }
        snprintf(g_premain, sizeof g_premain, "%s", r.c_str());
    }
};
static premain_t g_premain_obj __attribute__((init_priority(101)));

// ------------------------------------------------------------ run
static void run_op(const std::vector<std::string> &w, const std::string &, out &o)
{
    const std::string &op = w[0];
    if (op == "widths")
    {
        o.result = std::to_string(8 * sizeof(long)) + " " + std::to_string(8 * sizeof(long long)) + " " + std::to_string(8 * sizeof(intmax_t)) + " " + std::to_string(8 * sizeof(int));
        return;
    }
    if (op == "st" || op == "stL")
    {
        // st <fn> <base> <hextext>
        // stL <fn> <base> <prefix> <unit> <count> <tail>: text = prefix + unit x count + tail (long texts)
        const std::string &fn = w[1];
        int base = atoi(w[2].c_str());
        bytes t = unhex(w[3]);
        if (op == "stL")
        {
            bytes unit = unhex(w[4]), tail = unhex(w[6]);
            size_t cnt = strtoul(w[5].c_str(), 0, 10);
            t.reserve(t.size() + unit.size() * cnt + tail.size());
            for (size_t i = 0; i < cnt; i++) t.insert(t.end(), unit.begin(), unit.end());
            t.insert(t.end(), tail.begin(), tail.end());
            o.tag(t.size() >= 300 * 1024 ? "text>=300KiB" : "text-long");
        }
        bytes z = t;
        z.push_back(0);
        exact_buf b(z);
        const char *s = (const char *)b.p;
        char *end = (char *)1, *hend = 0;
        uint64_t v, hv_;
        bool sg = false;
        // errno: the host call starts from 0, the call under test from a
        // sentinel, so that "not written" and "written with 0" are told apart
        const int SENT = 9999;
        auto call = [&](char **ep) -> uint64_t {
            errno = SENT;
            if (fn == "l") return (uint64_t)igv_strtol(s, ep, base);
            if (fn == "ul") return igv_strtoul(s, ep, base);
            if (fn == "ll") return (uint64_t)igv_strtoll(s, ep, base);
            if (fn == "ull") return igv_strtoull(s, ep, base);
            if (fn == "imax") return (uint64_t)igv_strtoimax(s, ep, base);
            if (fn == "umax") return igv_strtoumax(s, ep, base);
            if (fn == "q") return (uint64_t)igv_strtoq(s, ep, base);
            return igv_strtouq(s, ep, base);
        };
        errno = 0;
        if (fn == "l") { hv_ = (uint64_t)strtol(s, &hend, base); sg = true; }
        else if (fn == "ul") { hv_ = strtoul(s, &hend, base); }
        else if (fn == "ll" || fn == "q") { hv_ = (uint64_t)strtoll(s, &hend, base); sg = true; }
        else if (fn == "ull" || fn == "uq") { hv_ = strtoull(s, &hend, base); }
        else if (fn == "imax") { hv_ = (uint64_t)strtoimax(s, &hend, base); sg = true; }
        else if (fn == "umax") { hv_ = strtoumax(s, &hend, base); }
        else { o.result = "bad-op"; return; }
        int herr = errno;
        v = call(&end);
        int ierr = errno;
        errno = 0;
        long e = end - s;
        std::string en = ierr == SENT ? "0" : ierr == ERANGE ? "ERANGE" : ierr == EINVAL ? "EINVAL" : std::to_string(ierr);
        if (e < 0 || e > (long)t.size())
        {
            o.result = hexn(v, 16) + " end-out-of-string";
            o.fail("end pointer outside the string");
            return;
        }
        o.result = hexn(v, 16) + " " + std::to_string(e) + " " + en;
        // NULL endptr must give the same value and the same errno
        uint64_t v0 = call(0);
        int ierr0 = errno;
        errno = 0;
        if (v0 != v) o.fail("value differs when endptr is NULL");
        if (ierr0 != ierr) o.fail("errno differs when endptr is NULL");
        parsed p = ref_parse(t, base);
        uint64_t rv = sg ? ref_signed(p) : ref_unsigned(p);
        size_t re = p.conv ? p.end : 0;
        if (rv != v || (long)re != e)
            o.fail("ISO 7.22.1.4: expected value " + hexn(rv, 16) + " end " + std::to_string(re) + ", got " + hexn(v, 16) + " end " + std::to_string(e));
        if (hv_ != v || hend - s != e)
            o.fail("host glibc: value " + hexn(hv_, 16) + " end " + std::to_string(hend - s));
        // errno.  ISO 7.22.1.4 p8: ERANGE iff the correct value is outside the
        // range; nothing else is stored (7.5: a function never stores 0).
        // strtoul.c / strtoumax.c also store EINVAL when no conversion is
        // performed: POSIX allows that ("may fail"), it is tolerated and tagged.
        {
            bool range = p.conv && (sg ? (p.neg ? p.mag > ((u128)1 << 63) : p.mag > (u128)INT64_MAX) : p.huge);
            bool einval_ok = !p.conv && (fn == "ul" || fn == "umax");
            if (range && ierr != ERANGE) o.fail("ISO 7.22.1.4p8: the value is out of range, errno must be ERANGE, got " + en);
            if (!range && ierr != SENT && !(einval_ok && ierr == EINVAL)) o.fail("errno written (" + en + ") although the value is representable");
            if ((herr == ERANGE) != (ierr == ERANGE)) o.fail("host glibc: errno " + std::to_string(herr) + ", got " + en);
            if (ierr == ERANGE) o.tag("erange");
            if (ierr == EINVAL) o.tag("einval-noconv");
        }
        if (!p.conv) o.tag("noconv");
        else
        {
            bool clamp = sg ? (p.neg ? p.mag > ((u128)1 << 63) : p.mag > (u128)INT64_MAX) : p.huge;
            bool edge = sg ? (p.neg ? p.mag == ((u128)1 << 63) : p.mag == (u128)INT64_MAX) : p.mag == (u128)UINT64_MAX;
            if (clamp) o.tag(p.neg ? "clamp-" : "clamp+");
            if (edge) o.tag("limit-exact");
            if (p.neg) o.tag("neg");
            if (re < t.size()) o.tag("tail");
            if (p.end >= 40) o.tag("long-run");
        }
        if (!t.empty() && ref_space(t[0])) o.tag("space");
        for (size_t i = 0; i + 1 < t.size(); i++)
            if (t[i] == '0' && (t[i + 1] == 'x' || t[i + 1] == 'X') && (base == 0 || base == 16))
            {
                o.tag(i + 2 < t.size() && ref_digit(t[i + 2]) < 16 ? "0x" : "0x-nodigit");
                break;
            }
        if (base == 0) o.tag("base0");
        return;
    }
    if (op == "at")
    {
        // at <l|i> <hextext>
        bytes t = unhex(w[2]);
        bytes z = t;
        z.push_back(0);
        exact_buf b(z);
        const char *s = (const char *)b.p;
        parsed p = ref_parse(t, 10);
        // (ISO: atol(s) == strtol(s, 0, 10) when the value is representable)
        if (w[1] == "ll")
        {
            // compat/libc/include/stdlib.h: static inline atoll(nptr) = strtoll(nptr, 0, 10)
            // (the header cannot be included next to the host's; its body is called here)
            errno = 9999;
            uint64_t v = (uint64_t)igv_strtoll(s, 0, 10);
            errno = 0;
            o.result = hexn(v, 16);
            uint64_t exp = ref_signed(p);
            if (exp != v) o.fail("atoll: expected " + hexn(exp, 16));
            uint64_t h = (uint64_t)atoll(s);
            if (h != v) o.fail("host glibc atoll: " + hexn(h, 16));
            if (p.conv) o.tag("atoll");
            return;
        }
        bool l = w[1] == "l";
        uint64_t v = l ? (uint64_t)igv_atol(s) : (uint64_t)(uint32_t)igv_atoi(s);
        o.result = hexn(v, l ? 16 : 8);
        if (!l && p.conv && (p.mag > (u128)INT_MAX + (p.neg ? 1 : 0)))
            o.result = "unrepresentable"; // ISO 7.22.1.2: undefined - the value is NOT part of the observable
        __int128 val = p.conv ? (p.neg ? -(__int128)p.mag : (__int128)p.mag) : 0;
        bool repr = l ? (val >= INT64_MIN && val <= INT64_MAX) : (val >= INT_MIN && val <= INT_MAX);
        if (repr)
        {
            uint64_t exp = l ? (uint64_t)(int64_t)val : (uint64_t)(uint32_t)(int32_t)val;
            if (exp != v) o.fail("ISO 7.22.1.2: expected " + hexn(exp, l ? 16 : 8));
            uint64_t h = l ? (uint64_t)atol(s) : (uint64_t)(uint32_t)atoi(s);
            if (h != v) o.fail("host glibc: " + hexn(h, l ? 16 : 8));
            if (p.conv) o.tag(l ? "atol" : "atoi");
            if (val == (l ? (__int128)INT64_MIN : (__int128)INT_MIN)) o.tag("min-exact");
            if (val == (l ? (__int128)INT64_MAX : (__int128)INT_MAX)) o.tag("max-exact");
        }
        else
        {
            // atoi beyond int but inside long: (int) of a long, implementation-defined;
            // glibc's atoi is (int) strtol(...) as well, gcc truncates on both sides
            if (!l && val >= INT64_MIN && val <= INT64_MAX)
            {
                // (not an oracle clause: the property cannot state anything about an undefined call)
                uint64_t h = (uint64_t)(uint32_t)atoi(s);
                o.tag(h == v ? "atoi-truncated-like-glibc" : "atoi-unrepresentable-differs-from-glibc");
            }
            o.tag("unrepresentable(undefined-in-ISO)");
        }
        return;
    }
    if (op == "rnd")
    {
        // rnd <seed> <n>
        igv_srand((unsigned)strtoul(w[1].c_str(), 0, 10));
        int n = atoi(w[2].c_str());
        std::string r;
        uint64_t ref = (unsigned)strtoul(w[1].c_str(), 0, 10);
        for (int i = 0; i < n; i++)
        {
            int x = igv_rand();
            if (x < 0) o.fail("rand() < 0");
            // the generator rand.c documents ("linear random generator"), evaluated independently in 64 bits
            ref = ((ref * 16546134871ull + 513585871ull) & 0xffffffffull) % 204814687ull;
            if ((uint64_t)x != ref / 2) o.fail("rand(): call " + std::to_string(i + 1) + " after srand(" + w[1] + ") returned " + std::to_string(x) + ", the linear congruential generator of rand.c gives " + std::to_string(ref / 2));
            r += (i ? "," : "") + std::to_string(x);
        }
        o.result = r.empty() ? "-" : r;
        o.tag("rand");
        return;
    }
    if (op == "rndr")
    {
        // rndr <seed> <n>: rand_r on the caller's seed
        unsigned sd = (unsigned)strtoul(w[1].c_str(), 0, 10);
        int n = atoi(w[2].c_str());
        std::string r;
        uint64_t ref = sd;
        for (int i = 0; i < n; i++)
        {
            int x = igv_rand_r(&sd);
            if (x < 0) o.fail("rand_r() < 0");
            ref = ((ref * 16546134871ull + 513585871ull) & 0xffffffffull) % 204814687ull;
            if ((uint64_t)x != ref / 2 || sd != ref) o.fail("rand_r(): call " + std::to_string(i + 1) + " returned " + std::to_string(x) + " / left " + std::to_string(sd) + ", the generator of rand.c gives " + std::to_string(ref / 2) + " / " + std::to_string(ref));
            r += (i ? "," : "") + std::to_string(x);
        }
        o.result = r.empty() ? "-" : r;
        o.tag("rand_r");
        return;
    }
    if (op == "ub" || op == "lb")
    {
        // ub|lb <esize> <cmpkind> <key> <k0,k1,...>   (array already ordered for cmpkind)
        bool up = op == "ub";
        unsigned esize = atoi(w[1].c_str());
        int kind = atoi(w[2].c_str());
        int key = atoi(w[3].c_str());
        std::vector<int> keys = ints(w[4]);
        size_t n = keys.size();
        exact_buf a(n * esize, n ? 0 : 16);
        for (size_t i = 0; i < n; i++) put_elem(a.p + i * esize, esize, keys[i], (unsigned)i);
        exact_buf kb(sizeof(int));
        memcpy(kb.p, &key, sizeof key);
        L = {kind, a.p, n, esize, kb.p, nullptr, "", 0, 0};
        const uint8_t *r = (const uint8_t *)(up ? igv_upper_bound : igv_lower_bound)(kb.p, a.p, n, esize, bs_compar);
        // header: lower_bound "Find the smallest element, greater or equals to
        // specified", upper_bound "... strictly greater than specified" = std::
        size_t exp = up ? (size_t)(std::upper_bound(keys.begin(), keys.end(), key, [&](int k, int el) { return cmp_keys(kind, k, el) < 0; }) - keys.begin())
                        : (size_t)(std::lower_bound(keys.begin(), keys.end(), key, [&](int el, int k) { return cmp_keys(kind, k, el) > 0; }) - keys.begin());
        long off = r - a.p;
        if (off < 0 || off > (long)(n * esize) || off % (long)esize != 0)
        {
            o.result = "outside(" + std::to_string(off) + ")";
            o.fail("returned pointer is outside [base, base + nmemb*size] (byte offset " + std::to_string(off) + ")");
        }
        else
        {
            size_t i = (size_t)off / esize;
            o.result = std::to_string(i);
            if (i != exp) o.fail(std::string(up ? "std::upper_bound" : "std::lower_bound") + " gives index " + std::to_string(exp) + ", got " + std::to_string(i));
        }
        if (!L.bad.empty()) o.fail(L.bad);
        if (n == 0) o.tag("empty");
        o.tag(exp == 0 ? "bound-first" : exp == n ? "bound-end" : "bound-inside");
        if (std::set<int>(keys.begin(), keys.end()).size() < n) o.tag("dups");
        if (n >= 8) o.tag("deep");
        return;
    }
    if (op == "qs" || op == "qsn")
    {
        // qs <esize> <cmpkind> <seed> <k0,k1,...>
        // qsn <esize> <cmpkind> <seed> <when> <what> <iesize> <ikeys> <fn> <base> <hextext> <k0,k1,...>: the comparator
        //     runs nested qsort / bsearch / strto* calls on other data (see nested_work)
        bool nest = op == "qsn";
        if (nest && (w.size() < 12 || !nested_setup(w, 4))) { o.result = "bad-op"; return; }
        unsigned esize = atoi(w[1].c_str());
        int kind = atoi(w[2].c_str());
        unsigned seed = (unsigned)strtoul(w[3].c_str(), 0, 10);
        std::vector<int> keys = ints(w[nest ? 11 : 4]);
        size_t n = keys.size();
        exact_buf a(n * esize);
        std::vector<bytes> orig;
        for (size_t i = 0; i < n; i++)
        {
            put_elem(a.p + i * esize, esize, keys[i], (unsigned)i);
            orig.emplace_back(a.p + i * esize, a.p + (i + 1) * esize);
        }
        L = {kind, a.p, n, esize, nullptr, &orig, "", 0, 0};
        const uint8_t *fp0 = (const uint8_t *)__builtin_frame_address(0);
        igv_srand(seed);
        igv_qsort(a.p, n, esize, nest ? qsn_compar : qs_compar);
        std::vector<bytes> now;
        std::vector<std::pair<int, int>> el;
        for (size_t i = 0; i < n; i++)
        {
            const uint8_t *e = a.p + i * esize;
            now.emplace_back(e, e + esize);
            el.emplace_back(e[0], esize > 1 ? e[1] : 0);
            if (!elem_intact(e, esize)) o.fail("element " + std::to_string(i) + " is a mixture of bytes of different elements");
        }
        // the property fixes the order of the comparator classes and the multiset, not the
        // arrangement inside a class: the result is the canonical form (runs of equal elements sorted)
        o.result = canon_runs(kind, el, esize > 1);
        if (!L.bad.empty()) o.fail(L.bad);
        if (nest) o.result += nested_finish(o);
        if (L.stack_lo && n >= 64 && (size_t)(fp0 - L.stack_lo) >= n * 96) o.tag("recursion-depth~nmemb");
        for (size_t i = 0; i + 1 < n; i++)
            if (cmp_keys(kind, now[i + 1][0], now[i][0]) < 0)
            {
                o.fail("not ordered at index " + std::to_string(i));
                break;
            }
        std::vector<bytes> s1 = orig, s2 = now;
        std::sort(s1.begin(), s1.end());
        std::sort(s2.begin(), s2.end());
        if (s1 != s2) o.fail("result is not a permutation of the input");
        if (n >= 4) o.tag("partition");
        else if (n >= 2) o.tag("network");
        if (n >= 16) o.tag("deep");
        if (std::set<int>(keys.begin(), keys.end()).size() < n) o.tag("dups");
        if (esize > 1 && esize != 4 && esize != 8) o.tag("odd-size");
        if (esize > 32) o.tag("size>32");
        if (kind >= 5) o.tag(kind == 5 ? "cmp-large-classes" : "cmp-partial-key");
        return;
    }
    if (op == "bs" || op == "bsa")
    {
        // bs <esize> <cmpkind> <key> <k0,k1,...>   (array already ordered for cmpkind)
        // bsa <esize> <cmpkind> <index> <k0,k1,...>: the key object IS element <index> of the array
        bool alias = op == "bsa";
        unsigned esize = atoi(w[1].c_str());
        int kind = atoi(w[2].c_str());
        int w3 = atoi(w[3].c_str());
        std::vector<int> keys = ints(w[4]);
        size_t n = keys.size();
        if (alias && (w3 < 0 || (size_t)w3 >= n)) { o.result = "bad-op"; return; }
        int key = alias ? keys[w3] : w3;
        // empty array: base is the one-past-the-end address of an allocation (a read of base[0] is
        // seen by ASan) or, for odd keys, the start of one (a read of base[-1] is seen)
        exact_buf a(n * esize, n || (key & 1) ? 0 : 16);
        for (size_t i = 0; i < n; i++) put_elem(a.p + i * esize, esize, keys[i], (unsigned)i);
        exact_buf kb(sizeof(int));
        memcpy(kb.p, &key, sizeof key);
        L = {kind, a.p, n, esize, kb.p, nullptr, "", 0, 0};
        const uint8_t *r;
        if (alias)
        {
            L.key = a.p + (size_t)w3 * esize;
            r = (const uint8_t *)igv_bsearch(L.key, a.p, n, esize, bsa_compar);
            o.tag("key-inside-array");
        }
        else
            r = (const uint8_t *)igv_bsearch(kb.p, a.p, n, esize, bs_compar);
        bool exists = false;
        for (size_t i = 0; i < n; i++)
            if (cmp_keys(kind, key, keys[i]) == 0) exists = true;
        if (!r)
        {
            o.result = "null";
            if (exists) o.fail("an element equal to the key exists but NULL was returned");
        }
        else if (!in_array(r))
        {
            o.result = "outside";
            o.fail("returned pointer is not an element of the array");
        }
        else
        {
            size_t i = (size_t)(r - a.p) / esize;
            // WHICH of several equal elements is returned is unspecified (ISO 7.22.5.1p4): the
            // result is the run of elements comparing equal to the key that contains the returned one
            size_t lo = i, hi = i;
            while (lo > 0 && cmp_keys(kind, key, keys[lo - 1]) == 0) lo--;
            while (hi + 1 < n && cmp_keys(kind, key, keys[hi + 1]) == 0) hi++;
            o.result = "found " + std::to_string(lo) + ".." + std::to_string(hi);
            if (cmp_keys(kind, key, keys[i]) != 0) o.fail("returned element does not compare equal to the key");
            if (hi > lo) o.tag("equal-run");
        }
        if (!L.bad.empty()) o.fail(L.bad);
        if (n == 0) o.tag("empty");
        o.tag(exists ? "present" : "absent");
        if (std::set<int>(keys.begin(), keys.end()).size() < n) o.tag("dups");
        if (n >= 8) o.tag("deep");
        return;
    }
    if (op == "bsn")
    {
        // bsn <esize> <cmpkind> <key> <when> <what> <iesize> <ikeys> <fn> <base> <hextext> <k0,k1,...>: bsearch, upper_bound and
        // lower_bound on one ordered array with a comparator that runs nested qsort / bsearch / strto* calls on other data
        if (w.size() < 12 || !nested_setup(w, 4)) { o.result = "bad-op"; return; }
        unsigned esize = atoi(w[1].c_str());
        int kind = atoi(w[2].c_str());
        int key = atoi(w[3].c_str());
        std::vector<int> keys = ints(w[11]);
        size_t n = keys.size();
        exact_buf a(n * esize, n || (key & 1) ? 0 : 16);
        for (size_t i = 0; i < n; i++) put_elem(a.p + i * esize, esize, keys[i], (unsigned)i);
        exact_buf kb(sizeof(int));
        memcpy(kb.p, &key, sizeof key);
        unsigned what = N.what;
        std::string res;
        for (int which = 0; which < 3; which++)
        {
            L = {kind, a.p, n, esize, kb.p, nullptr, "", 0, 0};
            N.calls = 0;
            N.what = what;
            const uint8_t *r = (const uint8_t *)(which == 0 ? igv_bsearch : which == 1 ? igv_upper_bound : igv_lower_bound)(kb.p, a.p, n, esize, bsn_compar);
            if (!L.bad.empty()) o.fail(L.bad);
            if (which == 0)
            {
                bool exists = false;
                for (size_t i = 0; i < n; i++)
                    if (cmp_keys(kind, key, keys[i]) == 0) exists = true;
                if (!r)
                {
                    res = "null";
                    if (exists) o.fail("an element equal to the key exists but NULL was returned");
                }
                else if (!in_array(r))
                {
                    res = "outside";
                    o.fail("returned pointer is not an element of the array");
                }
                else
                {
                    size_t i = (size_t)(r - a.p) / esize, lo = i, hi = i;
                    while (lo > 0 && cmp_keys(kind, key, keys[lo - 1]) == 0) lo--;
                    while (hi + 1 < n && cmp_keys(kind, key, keys[hi + 1]) == 0) hi++;
                    res = "found " + std::to_string(lo) + ".." + std::to_string(hi);
                    if (cmp_keys(kind, key, keys[i]) != 0) o.fail("returned element does not compare equal to the key");
                }
                o.tag(exists ? "present" : "absent");
            }
            else
            {
                bool up = which == 1;
                size_t exp = up ? (size_t)(std::upper_bound(keys.begin(), keys.end(), key, [&](int k, int el) { return cmp_keys(kind, k, el) < 0; }) - keys.begin())
                                : (size_t)(std::lower_bound(keys.begin(), keys.end(), key, [&](int el, int k) { return cmp_keys(kind, k, el) > 0; }) - keys.begin());
                long off = r - a.p;
                if (off < 0 || off > (long)(n * esize) || off % (long)esize != 0)
                {
                    res += " outside(" + std::to_string(off) + ")";
                    o.fail("returned pointer is outside [base, base + nmemb*size] (byte offset " + std::to_string(off) + ")");
                }
                else
                {
                    res += " " + std::to_string((size_t)off / esize);
                    if ((size_t)off / esize != exp) o.fail(std::string(up ? "std::upper_bound" : "std::lower_bound") + " gives index " + std::to_string(exp) + ", got " + std::to_string((size_t)off / esize));
                }
            }
        }
        o.result = res + nested_finish(o);
        return;
    }
    if (op == "qsg")
    {
        // qsg <esize> <cmpkind> <seed> <n> <shape> <m>: a generated array (qsg_key), big lengths
        unsigned esize = atoi(w[1].c_str());
        int kind = atoi(w[2].c_str());
        unsigned seed = (unsigned)strtoul(w[3].c_str(), 0, 10);
        size_t n = strtoul(w[4].c_str(), 0, 10);
        unsigned shape = atoi(w[5].c_str());
        uint64_t m = strtoul(w[6].c_str(), 0, 10);
        if (m == 0 || m > 256 || esize == 0) { o.result = "bad-op"; return; }
        if (n >= 100000) arm(15); // a long array is allowed more than the 3 s of CPU time of an ordinary op (unoptimised coverage build)
        exact_buf a(n * esize);
        for (size_t i = 0; i < n; i++) put_elem(a.p + i * esize, esize, (unsigned)qsg_key(shape, i, n, m, seed), (unsigned)(i & 255));
        bytes before(a.p, a.p + n * esize);
        auto order_of = [&](const uint8_t *d) {
            std::vector<uint32_t> ord(n);
            for (size_t i = 0; i < n; i++) ord[i] = (uint32_t)i;
            std::sort(ord.begin(), ord.end(), [&](uint32_t x, uint32_t y) { return memcmp(d + (size_t)x * esize, d + (size_t)y * esize, esize) < 0; });
            return ord;
        };
        std::vector<uint32_t> ord0 = order_of(before.data());
        L = {kind, a.p, n, esize, nullptr, nullptr, "", 0, 0};
        L.odata = before.data();
        L.oord = &ord0;
        igv_srand(seed);
        igv_qsort(a.p, n, esize, qs_compar);
        std::vector<int> k(n);
        bool mixed = false;
        for (size_t i = 0; i < n; i++)
        {
            const uint8_t *e = a.p + i * esize;
            k[i] = e[0];
            if (!elem_intact(e, esize)) mixed = true;
        }
        if (mixed) o.fail("an element is a mixture of bytes of different elements");
        if (!L.bad.empty()) o.fail(L.bad);
        for (size_t i = 0; i + 1 < n; i++)
            if (cmp_keys(kind, k[i + 1], k[i]) < 0)
            {
                o.fail("not ordered at index " + std::to_string(i));
                break;
            }
        o.result = std::to_string(n) + " " + canon_rle(kind, k);
        {
            std::vector<uint32_t> ord1 = order_of(a.p);
            for (size_t i = 0; i < n; i++)
                if (memcmp(before.data() + (size_t)ord0[i] * esize, a.p + (size_t)ord1[i] * esize, esize))
                {
                    o.fail("result is not a permutation of the input");
                    break;
                }
        }
        o.tag(n >= 300000 ? "nmemb>=300000" : n >= 65536 ? "nmemb>=65536" : n >= 256 ? "nmemb>=256" : "generated");
        if (n * esize >= 300 * 1024) o.tag("array>=300KiB");
        if (kind >= 5) o.tag(kind == 5 ? "cmp-large-classes" : "cmp-partial-key");
        return;
    }
    if (op == "qsr")
    {
        // qsr <esize> <seed> <kind,kind,...> <k0,k1,...>: ONE array sorted again and again with the
        // comparator changed between the calls (rand() keeps running), then searched with bsearch
        unsigned esize = atoi(w[1].c_str());
        unsigned seed = (unsigned)strtoul(w[2].c_str(), 0, 10);
        std::vector<int> kinds = ints(w[3]), keys = ints(w[4]);
        size_t n = keys.size();
        exact_buf a(n * esize);
        std::vector<bytes> orig;
        for (size_t i = 0; i < n; i++)
        {
            put_elem(a.p + i * esize, esize, keys[i], (unsigned)i);
            orig.emplace_back(a.p + i * esize, a.p + (i + 1) * esize);
        }
        std::vector<bytes> s1 = orig;
        std::sort(s1.begin(), s1.end());
        igv_srand(seed);
        std::string r;
        int kind = 0;
        for (int kd : kinds)
        {
            kind = kd;
            L = {kind, a.p, n, esize, nullptr, &orig, "", 0, 0};
            igv_qsort(a.p, n, esize, qs_compar);
            std::vector<bytes> now;
            std::vector<std::pair<int, int>> el;
            for (size_t i = 0; i < n; i++)
            {
                const uint8_t *e = a.p + i * esize;
                now.emplace_back(e, e + esize);
                el.emplace_back(e[0], esize > 1 ? e[1] : 0);
            }
            if (!L.bad.empty()) o.fail(L.bad);
            for (size_t i = 0; i + 1 < n; i++)
                if (cmp_keys(kind, now[i + 1][0], now[i][0]) < 0) { o.fail("call with comparator " + std::to_string(kind) + ": not ordered at index " + std::to_string(i)); break; }
            std::sort(now.begin(), now.end());
            if (now != s1) o.fail("call with comparator " + std::to_string(kind) + ": result is not a permutation of the input");
            r += (r.empty() ? "" : "|") + canon_runs(kind, el, esize > 1);
        }
        // bsearch on what the last qsort left (theorem bsearch_after_qsort): every key 0..max+1
        std::string f;
        int mx = 0;
        for (int k : keys) mx = std::max(mx, k);
        for (int key = 0; key <= mx + 1 && !kinds.empty(); key++)
        {
            exact_buf kb(sizeof(int));
            memcpy(kb.p, &key, sizeof key);
            L = {kind, a.p, n, esize, kb.p, nullptr, "", 0, 0};
            const uint8_t *q = (const uint8_t *)igv_bsearch(kb.p, a.p, n, esize, bs_compar);
            bool exists = false;
            for (int k : keys)
                if (cmp_keys(kind, key, k) == 0) exists = true;
            if (!L.bad.empty()) o.fail(L.bad);
            if (q && !in_array(q)) { o.fail("bsearch after qsort: pointer outside the array"); f += "?"; continue; }
            if ((q != 0) != exists) o.fail("bsearch after qsort: key " + std::to_string(key) + (exists ? " exists but NULL was returned" : " does not exist but an element was returned"));
            if (q && cmp_keys(kind, key, q[0]) != 0) o.fail("bsearch after qsort: returned element does not compare equal");
            f += q ? "y" : "n";
        }
        o.result = r + " " + (f.empty() ? "-" : f);
        o.tag("resorted-with-other-comparator");
        return;
    }
    if (op == "atL")
    {
        // atL <l|i|ll> <prefix> <unit> <count> <tail>: long text for atol / atoi / atoll (representable values)
        bytes t = unhex(w[2]), unit = unhex(w[3]), tail = unhex(w[5]);
        size_t cnt = strtoul(w[4].c_str(), 0, 10);
        for (size_t i = 0; i < cnt; i++) t.insert(t.end(), unit.begin(), unit.end());
        t.insert(t.end(), tail.begin(), tail.end());
        bytes z = t;
        z.push_back(0);
        exact_buf b(z);
        const char *s = (const char *)b.p;
        parsed p = ref_parse(t, 10);
        uint64_t v = w[1] == "l" ? (uint64_t)igv_atol(s) : w[1] == "i" ? (uint64_t)(int64_t)igv_atoi(s) : (uint64_t)igv_strtoll(s, 0, 10);
        errno = 0;
        o.result = hexn(v, 16);
        if (v != ref_signed(p)) o.fail("ISO 7.22.1.2: expected " + hexn(ref_signed(p), 16));
        o.tag(t.size() >= 300 * 1024 ? "text>=300KiB" : "text-long");
        return;
    }
    if (op == "stx")
    {
        // stx <fn> <base> <hextext>: a base outside {0, 2..36}.  ISO 7.22.1.4 does not define the call
        // (POSIX: EINVAL); nothing about the value is compared.  Observed: the call returns, reads
        // nothing outside the string (ASan), and an end pointer it stores lies inside the string.
        const std::string &fn = w[1];
        int base = atoi(w[2].c_str());
        bytes t = unhex(w[3]);
        bytes z = t;
        z.push_back(0);
        exact_buf b(z);
        const char *s = (const char *)b.p;
        char *end = (char *)s;
        errno = 0;
        if (fn == "l") igv_strtol(s, &end, base);
        else if (fn == "ul") igv_strtoul(s, &end, base);
        else if (fn == "ll") igv_strtoll(s, &end, base);
        else if (fn == "ull") igv_strtoull(s, &end, base);
        else if (fn == "imax") igv_strtoimax(s, &end, base);
        else if (fn == "umax") igv_strtoumax(s, &end, base);
        else if (fn == "q") igv_strtoq(s, &end, base);
        else igv_strtouq(s, &end, base);
        errno = 0;
        o.result = "returns";
        if (end < s || end > s + t.size()) o.fail("end pointer outside the string for base " + std::to_string(base));
        o.tag("base-outside-iso");
        return;
    }
    if (op == "consts")
    {
        // what the compiled code contains, against what the model embeds
        // rand.c's state: only bits 0..31 of an UNSIGNED object influence the sequence (theorem
        // rand_state_width_irrelevant), so any unsigned type of >= 32 bits is the same generator
        size_t rb = 8 * igv_rand_state_size();
        o.result = (rb >= 32 && igv_rand_state_unsigned() ? std::string("rand-state>=32u") : "rand-state " + std::to_string(rb) + (igv_rand_state_unsigned() ? "u" : "s")) + " ERANGE " + std::to_string(igv_erange()) + " EINVAL " + std::to_string(igv_einval());
        return;
    }
    if (op == "ctype")
    {
        // classification the shim was compiled with, for every value of a signed / unsigned char
        std::string r;
        for (int c = -128; c < 256; c++) r += hexn((uint64_t)igv_ctype_bits(c), 2);
        o.result = r;
        return;
    }
    if (op == "premain")
    {
        o.result = g_premain;
        if (g_premain_bad) o.fail(g_premain_bad);
        o.tag("before-main");
        return;
    }
    o.result = "bad-op";
}

// ------------------------------------------------------------ gen
static std::string render(u128 v, int base, int cs, rng &r)
{
    // cs: 0 lower, 1 upper, 2 mixed
    std::string s;
    do
    {
        int d = (int)(v % base);
        char c = d < 10 ? '0' + d : ((cs == 0 || (cs == 2 && r.chance(50))) ? 'a' : 'A') + d - 10;
        s.insert(s.begin(), c);
        v /= base;
    } while (v);
    return s;
}
static const std::vector<std::string> SPACES = {"", "", "", " ", "\t", "\n", "\v", "\f", "\r", "  \t\n\v\f\r "};
static const std::vector<std::string> SIGNS = {"", "+", "-"};

static void st(const char *fn, int base, const std::string &text)
{
    // a C string: stop at an embedded NUL so that all sides see the same text
    std::string t = text.substr(0, text.find('\0'));
    printf("st %s %d %s\n", fn, base, hex(t).c_str());
}
static const char *FNS[8] = {"l", "ul", "ll", "ull", "imax", "umax", "q", "uq"};
static const int BASES[36] = {0, 2, 3, 4, 5, 6, 7, 8, 9, 10, 11, 12, 13, 14, 15, 16, 17, 18, 19, 20, 21, 22, 23, 24, 25, 26, 27, 28, 29, 30, 31, 32, 33, 34, 35, 36};

static std::string tail_for(int eb, rng &r)
{
    // something that must stop the digit run in base eb
    switch (r.below(8))
    {
    case 0: return "";
    case 1: return " ";
    case 2: return std::string(1, eb < 10 ? '0' + eb : eb < 36 ? 'a' + eb - 10 : '{');  // first non-digit of the base
    case 3: return std::string(1, eb < 10 ? '0' + eb : eb < 36 ? 'A' + eb - 10 : '[');
    case 4: return "-1";
    case 5: return ".5";
    case 6: return std::string(1, (char)r.pick(std::vector<int>{'/', ':', '@', '[', '`', '{', 0x80, 0xb0, 0xff, 'x', '_'}));
    default: return "+";
    }
}

static void gen_strto(rng &r, bool th)
{
    const u128 SMAX = (u128)INT64_MAX, UMAX = (u128)UINT64_MAX;
    // (1) overflow boundaries of every function in every base
    for (int f = 0; f < 8; f++)
        for (int bi = 0; bi < 36; bi++)
        {
            int base = BASES[bi];
            std::vector<u128> mags = {0, 1, SMAX - 1, SMAX, SMAX + 1, SMAX + 2, UMAX - 1, UMAX, UMAX + 1, UMAX + 2,
                                      SMAX + 1 + r.below(1000), UMAX - r.below(1000), UMAX + 1 + r.below(1000), (u128)r.next(),
                                      (u128)r.next() >> r.below(64), ((u128)r.next() << 32) ^ r.next(), (UMAX + 1) * 2, (UMAX + 1) * (u128)(base ? base : 10) + r.below(50)};
            for (u128 m : mags)
            {
                // neighbours obtained by changing the last digit: max±1 in the last place
                for (int rep = 0; rep < (th ? 3 : 1); rep++)
                {
                    int eb = base; // effective base of the rendering
                    std::string pre;
                    if (base == 0)
                    {
                        int k = (int)r.below(3);
                        eb = k == 0 ? 10 : k == 1 ? 8 : 16;
                        pre = k == 1 ? "0" : k == 2 ? (r.chance(50) ? "0x" : "0X") : "";
                    }
                    else if (base == 16 && r.chance(50))
                        pre = r.chance(50) ? "0x" : "0X";
                    std::string digits = render(m, eb, (int)r.below(3), r);
                    if (r.chance(25)) digits = std::string(1 + r.below(3), '0') + digits;
                    for (const std::string &sg : SIGNS)
                    {
                        if (!th && sg == "+" && r.chance(60)) continue;
                        st(FNS[f], base, r.pick(SPACES) + sg + pre + digits + tail_for(eb, r));
                    }
                }
            }
            // (2) 70-digit runs
            int eb = base == 0 ? 10 : base;
            std::string run;
            for (int i = 0; i < 70; i++) run += render(r.below(eb), eb, 2, r);
            st(FNS[f], base, r.pick(SIGNS) + run + tail_for(eb, r));
            st(FNS[f], base, r.pick(SIGNS) + std::string(70, render(eb - 1, eb, 0, r)[0]));
            st(FNS[f], base, r.pick(SIGNS) + "1" + std::string(69 + r.below(4), '0') + tail_for(eb, r));
            st(FNS[f], base, r.pick(SPACES) + r.pick(SIGNS) + std::string(80, '0') + "1");
            // (3) an invalid character at every position of a valid text
            {
                std::string pre = (base == 16 || base == 0) && r.chance(60) ? "0x" : "";
                int e2 = pre.empty() ? eb : 16;
                std::string v = r.pick(SPACES) + r.pick(SIGNS) + pre;
                int nd = (int)r.range(1, 6);
                for (int i = 0; i < nd; i++) v += render(r.below(e2), e2, 2, r);
                static const std::vector<int> inv = {' ', '-', '+', '/', ':', '@', 'G', 'g', '[', '`', '{', 'x', 'X', '0', 0x80, 0xb1, 0xff, '\t', '.', ',', '_', 'z', 'Z', 1};
                for (size_t pos = 0; pos <= v.size(); pos++)
                    for (int k = 0; k < (th ? 6 : 2); k++)
                    {
                        std::string t = v;
                        t.insert(t.begin() + pos, (char)r.pick(inv));
                        st(FNS[f], base, t);
                    }
            }
        }
    // (3b) ordinary numbers of every magnitude (0..70 bits) with random dress
    for (int f = 0; f < 6; f++)
        for (int bi = 0; bi < 36; bi++)
            for (int k = 0; k < (th ? 100 : 24); k++)
            {
                int base = BASES[bi], eb = base;
                std::string pre;
                if (base == 0)
                {
                    int q = (int)r.below(3);
                    eb = q == 0 ? 10 : q == 1 ? 8 : 16;
                    pre = q == 1 ? "0" : q == 2 ? (r.chance(50) ? "0x" : "0X") : "";
                }
                else if (base == 16 && r.chance(60))
                    pre = r.chance(50) ? "0x" : "0X";
                unsigned bits = (unsigned)r.below(71);
                u128 m = (((u128)r.next() << 64) | r.next());
                m = bits == 0 ? 0 : m >> (128 - bits);
                if (eb == 10 && base == 0 && m == 0) pre = ""; // "0" alone is octal zero, still fine
                st(FNS[f], base, r.pick(SPACES) + r.pick(SIGNS) + pre + render(m, eb, (int)r.below(3), r) + tail_for(eb, r));
            }
    // (4) every byte value against every base's alphabet: alone and inside a number
    for (int bi = 0; bi < 36; bi++)
        for (int c = 1; c < 256; c++)
        {
            int f = (bi + c) % 6;
            st(FNS[f], BASES[bi], std::string(1, (char)c));
            st(FNS[(f + 1) % 6], BASES[bi], std::string("1") + (char)c + "1");
            if (th || c < 128)
                st(FNS[(f + 2) % 6], BASES[bi], std::string("-") + (char)c);
        }
    // (5) all strings up to length 3/4 over a small alphabet, in the bases with prefix logic
    {
        static const char al[] = {' ', '-', '+', '0', '1', '9', 'x', 'X', 'f', 'g', 'z'};
        const int A = sizeof al;
        for (int len = 0; len <= 4; len++)
        {
            int total = 1;
            for (int i = 0; i < len; i++) total *= A;
            for (int code = 0; code < total; code++)
            {
                std::string t;
                for (int i = 0, c = code; i < len; i++, c /= A) t += al[c % A];
                static const int bs[4] = {0, 16, 10, 8};
                for (int k = 0; k < 4; k++)
                {
                    if (len <= 3 || th)
                        for (int f = 0; f < 6; f++) st(FNS[f], bs[k], t);
                    else if (k < 2)
                        st(FNS[(code + k) % 6], bs[k], t);
                }
            }
        }
    }
    // (5b) all strings over the critical alphabet " \t-+0xX19aAzZ8g":
    //   length <= 3: every entry point (8) x bases {0, 16} + one of {10, 36, 8, 2, 11, 35} in rotation
    //   length 4: every string once per base {0, 16}, entry point in rotation (thorough: every entry point)
    //   length 5: a random sample (thorough: a 15x larger one)
    {
        static const char al[] = {' ', '\t', '-', '+', '0', 'x', 'X', '1', '9', 'a', 'A', 'z', 'Z', '8', 'g'};
        const int A = sizeof al;
        static const int other[6] = {10, 36, 8, 2, 11, 35};
        unsigned rot = 0;
        for (int len = 0; len <= 4; len++)
        {
            int total = 1;
            for (int i = 0; i < len; i++) total *= A;
            for (int code = 0; code < total; code++)
            {
                std::string t;
                for (int i = 0, c = code; i < len; i++, c /= A) t += al[c % A];
                if (len <= 3)
                    for (int f = 0; f < 8; f++)
                    {
                        st(FNS[f], 0, t);
                        st(FNS[f], 16, t);
                        st(FNS[f], other[rot++ % 6], t);
                    }
                else if (th)
                    for (int f = 0; f < 8; f++) st(FNS[f], (code + f) % 2 ? 0 : 16, t);
                else
                {
                    st(FNS[rot % 8], 0, t);
                    st(FNS[(rot + 3) % 8], 16, t);
                    rot++;
                }
            }
        }
        for (int k = 0; k < (th ? 300000 : 20000); k++)
        {
            std::string t;
            for (int i = 0; i < 5; i++) t += al[r.below(A)];
            st(FNS[r.below(8)], r.chance(70) ? (r.chance(50) ? 0 : 16) : BASES[r.below(36)], t);
        }
    }
    // (6) hand-picked
    static const std::vector<std::string> pick = {"", " ", "-", "+", "0x", "0X", "0xg", "0xG", "-0x", "-0xz", "+0x", "0x-1", "0x+1", "0x 1", "- 1", "+-1", "-+1", "--1",
                                                  "0", "00", "08", "09", "0b1", "0x0x1", "0x0", "0x00x", " \t\n\v\f\r1", "\x1c" "1", "\x85" "1", "\xa0" "1",
                                                  "9223372036854775807", "9223372036854775808", "-9223372036854775808", "-9223372036854775809",
                                                  "18446744073709551615", "18446744073709551616", "-18446744073709551615", "-18446744073709551616", "-1",
                                                  "0x7fffffffffffffff", "0x8000000000000000", "-0x8000000000000000", "-0x8000000000000001", "0xffffffffffffffff", "0x10000000000000000",
                                                  "0777777777777777777777", "01000000000000000000000", "-01000000000000000000000", "01777777777777777777777", "02000000000000000000000",
                                                  "1x", "1X", "0x1x", "x1", "0xx", "00x1", "0 x1", "zz", "ZZ", "Zz", "-zz", "1z", "z1"};
    for (int f = 0; f < 8; f++)
        for (auto &t : pick)
            for (int base : {0, 16, 10, 8, 2, 36, 35, 11})
                st(FNS[f], base, t);
    // (7) atol / atoi: decimal texts whose value fits in long (beyond that ISO leaves the behaviour undefined)
    {
        std::vector<std::string> ts = {"", "0", "-0", "+0", "1", "-1", "+1", " 42", "\t\n-42x", "2147483647", "-2147483648", "2147483648", "-2147483649", "4294967295", "4294967296",
                                       "9223372036854775807", "-9223372036854775807", "-9223372036854775808", "0009223372036854775807", "-0009223372036854775808", "12a", "a12", "- 1", "+-1", "0x10", "010", "1 2", "1e3", "٣",
                                       "922337203685477580", "-922337203685477580", "9223372036854775800", "-9223372036854775800"};
        for (int i = 0; i < (th ? 4000 : 600); i++)
        {
            u128 m = r.chance(30) ? r.below(100000) : r.chance(50) ? (u128)INT64_MAX - r.below(50) : (u128)(r.next() >> (1 + r.below(63)));
            std::string sg = r.pick(SIGNS);
            std::string d = render(m, 10, 0, r);
            if (r.chance(20)) d = std::string(1 + r.below(4), '0') + d;
            ts.push_back(r.pick(SPACES) + sg + d + tail_for(10, r));
        }
        for (int i = 0; i < 40; i++)
        {
            int64_t x = r.chance(50) ? INT_MAX : INT_MIN;
            ts.push_back(std::to_string(x + r.range(-3, 3)));
        }
        for (auto &t : ts)
        {
            std::string tt = t.substr(0, t.find('\0'));
            printf("at l %s\nat i %s\n", hex(tt).c_str(), hex(tt).c_str());
        }
        for (int c = 1; c < 256; c++)
        {
            std::string t = std::string(1, (char)c) + "7";
            printf("at l %s\nat i %s\n", hex(t).c_str(), hex(std::string("5") + t).c_str());
        }
        // atoll = strtoll(s, 0, 10): defined for every text (clamps), so the overflowing ones too
        for (auto &t : ts)
        {
            std::string tt = t.substr(0, t.find('\0'));
            printf("at ll %s\n", hex(tt).c_str());
        }
        for (const char *t : {"9223372036854775808", "-9223372036854775809", "99999999999999999999", "-99999999999999999999", " +9223372036854775807x", "18446744073709551616"})
            printf("at ll %s\n", hex(std::string(t)).c_str());
        // every string of length <= 4 over " \t-+019a" (white space, signs, digits, a stopper): all representable
        {
            static const char al[] = {' ', '\t', '-', '+', '0', '1', '9', 'a'};
            const int A = sizeof al;
            for (int len = 0; len <= 4; len++)
            {
                int total = 1;
                for (int i = 0; i < len; i++) total *= A;
                for (int code = 0; code < total; code++)
                {
                    std::string t;
                    for (int i = 0, c = code; i < len; i++, c /= A) t += al[c % A];
                    printf("at %s %s\n", code % 3 == 0 ? "l" : code % 3 == 1 ? "i" : "ll", hex(t).c_str());
                    if (len <= 3) printf("at l %s\nat i %s\n", hex(t).c_str(), hex(t).c_str());
                }
            }
        }
        // atoi beyond int, inside long (truncation) with white space and signs
        for (int i = 0; i < (th ? 400 : 60); i++)
        {
            u128 m = (u128)INT_MAX + 1 + (r.chance(50) ? r.below(5) : (r.next() >> (1 + r.below(32))));
            if (m > (u128)INT64_MAX) m = (u128)INT64_MAX;
            printf("at i %s\n", hex(r.pick(SPACES) + r.pick(SIGNS) + render(m, 10, 0, r) + tail_for(10, r)).c_str());
        }
    }
}

static std::string join(const std::vector<int> &v)
{
    if (v.empty()) return "-";
    std::string s;
    for (size_t i = 0; i < v.size(); i++) s += (i ? "," : "") + std::to_string(v[i]);
    return s;
}
static unsigned esz(rng &r)
{
    static const std::vector<unsigned> fav = {1, 2, 3, 4, 7, 8, 12, 16, 31, 32, 33, 64};
    return r.chance(50) ? r.pick(fav) : (unsigned)r.range(1, 32);
}

static void gen_qsort(rng &r, bool th)
{
    // (1) every array over {0,1,2} up to length 6 (7 in thorough), two pivot streams
    for (int len = 0; len <= (th ? 8 : 7); len++)
    {
        int total = 1;
        for (int i = 0; i < len; i++) total *= 3;
        for (int code = 0; code < total; code++)
        {
            std::vector<int> v;
            for (int i = 0, c = code; i < len; i++, c /= 3) v.push_back(c % 3);
            printf("qs %u 0 %u %s\n", 1 + (unsigned)(code % 32), (unsigned)code, join(v).c_str());
            if (len <= 6) printf("qs %u %d %u %s\n", esz(r), 1 + code % 4, (unsigned)r.next(), join(v).c_str());
        }
    }
    // (2) every permutation of 0..n-1, n <= 6 (7 thorough)
    for (int n = 1; n <= (th ? 7 : 6); n++)
    {
        std::vector<int> v(n);
        for (int i = 0; i < n; i++) v[i] = i;
        do
            printf("qs %u %d %u %s\n", esz(r), (int)r.below(5), (unsigned)r.next(), join(v).c_str());
        while (std::next_permutation(v.begin(), v.end()));
    }
    // (3) every length 0..40 (thorough: ..120), duplicate-rich, every comparator, shapes
    int maxn = th ? 120 : 40;
    for (int rep = 0; rep < (th ? 6 : 3); rep++)
        for (int n = 0; n <= maxn; n++)
            for (int kind = 0; kind < 5; kind++)
            {
                std::vector<int> v(n);
                int m = (int)r.pick(std::vector<int>{1, 2, 3, 5, n ? n : 1, 256, 4, 16});
                for (auto &x : v) x = (int)r.below(m);
                switch (r.below(7))
                {
                case 0: std::sort(v.begin(), v.end()); break;
                case 1: std::sort(v.rbegin(), v.rend()); break;
                case 2: // organ pipe
                    std::sort(v.begin(), v.end());
                    std::reverse(v.begin() + n / 2, v.end());
                    break;
                case 3: // one outlier
                    if (n) v[r.below(n)] = 255;
                    break;
                default: break;
                }
                printf("qs %u %d %u %s\n", esz(r), kind, (unsigned)r.next(), join(v).c_str());
            }
    // (4) every element size 1..32 at lengths 4..9
    for (unsigned e = 1; e <= 32; e++)
        for (int n = 4; n <= 9; n++)
        {
            std::vector<int> v(n);
            for (auto &x : v) x = (int)r.below(6);
            printf("qs %u %d %u %s\n", e, (int)r.below(5), (unsigned)r.next(), join(v).c_str());
        }
    // (5) element sizes 1,2,3,4,7,8,16,31,32,33,64 (beyond the 32 of the property text: the
    // swap buffer and the pivot copy are VLAs of `size` bytes) x lengths around the network /
    // partition switch and larger, few distinct keys (many duplicates), every comparator
    for (unsigned e : {1u, 2u, 3u, 4u, 7u, 8u, 16u, 31u, 32u, 33u, 64u})
        for (int n : {0, 1, 2, 3, 4, 5, 6, 7, 8, 9, 12, 17, 33, 64, 100})
            for (int rep = 0; rep < (th ? 4 : 1); rep++)
            {
                std::vector<int> v(n);
                int m = (int)r.pick(std::vector<int>{1, 2, 2, 3, 3, 4, 7});
                for (auto &x : v) x = (int)r.below(m);
                if (r.chance(20)) std::sort(v.begin(), v.end());
                printf("qs %u %d %u %s\n", e, (int)r.below(5), (unsigned)r.next(), join(v).c_str());
            }
    // rand_r: the caller's seed, including the ones whose product with the
    // multiplier does not fit a signed long (> 557 434 000)
    for (unsigned sd : {0u, 1u, 557433999u, 557434000u, 557434001u, 2147483647u, 2147483648u, 4294967295u, 314567651u})
        printf("rndr %u %d\n", sd, 6);
    for (int i = 0; i < (th ? 100 : 20); i++) printf("rndr %u %d\n", (unsigned)r.next(), (int)r.range(1, 20));
    // rand.c itself
    for (int i = 0; i < (th ? 200 : 40); i++)
        printf("rnd %u %d\n", i < 5 ? (unsigned)i : (unsigned)r.next(), (int)r.range(1, 40));
    printf("rnd 4294967295 8\nrnd 314567651 8\n");
}

static void order_for(std::vector<int> &v, int kind, rng &r)
{
    if (kind == 0 || kind == 4) std::sort(v.begin(), v.end());
    else if (kind == 1) std::sort(v.rbegin(), v.rend());
    else if (kind == 2)
    {
        // ordered by class k/2, arbitrary inside a class
        std::sort(v.begin(), v.end());
        for (size_t i = 0; i + 1 < v.size(); i++)
            if (v[i] / 2 == v[i + 1] / 2 && r.chance(50)) std::swap(v[i], v[i + 1]);
    }
    // kind 3: any order is ordered
}

static void gen_bsearch(rng &r, bool th)
{
    // (1) every non-decreasing array over {1,3,5} up to length 7, every key 0..6
    for (int len = 0; len <= (th ? 9 : 7); len++)
    {
        int total = 1;
        for (int i = 0; i < len; i++) total *= 3;
        for (int code = 0; code < total; code++)
        {
            std::vector<int> v;
            for (int i = 0, c = code; i < len; i++, c /= 3) v.push_back(1 + 2 * (c % 3));
            if (!std::is_sorted(v.begin(), v.end())) continue;
            for (int key = 0; key <= 6; key++)
                printf("bs %u 0 %d %s\n", 1 + (unsigned)((code + key) % 32), key, join(v).c_str());
        }
    }
    // (2) lengths 0..40, every comparator, all keys from below the minimum to above the maximum
    int maxn = th ? 120 : 40;
    for (int rep = 0; rep < (th ? 4 : 1); rep++)
        for (int n = 0; n <= maxn; n++)
            for (int kind = 0; kind < 5; kind++)
            {
                std::vector<int> v(n);
                int m = (int)r.pick(std::vector<int>{1, 2, 3, 5, n ? n : 1, 2 * n + 1, 12, 40});
                for (auto &x : v) x = 2 + ((int)r.below(m) * (r.chance(50) ? 2 : 1)) % 252; // an element's key is one byte
                order_for(v, kind, r);
                int lo = 0, hi = 3;
                for (int x : v) hi = std::max(hi, x + 2);
                unsigned e = esz(r);
                for (int key = lo; key <= hi; key++)
                    if (th || hi < 30 || r.chance(40) || std::find(v.begin(), v.end(), key) != v.end())
                        printf("bs %u %d %d %s\n", e, kind, key, join(v).c_str());
            }
    // (3) the empty array with every element size
    for (unsigned e = 1; e <= 32; e++) printf("bs %u %d %d -\n", e, (int)(e % 5), (int)r.below(9));
}

static void gen_bounds(rng &r, bool th)
{
    static const std::vector<unsigned> sizes = {1, 2, 3, 4, 7, 8, 16, 31, 32, 33, 64};
    // (1) every non-decreasing array over {1,3,5} up to length 7 (thorough 9), every key 0..6, both functions
    unsigned rot = 0;
    for (int len = 0; len <= (th ? 9 : 7); len++)
    {
        int total = 1;
        for (int i = 0; i < len; i++) total *= 3;
        for (int code = 0; code < total; code++)
        {
            std::vector<int> v;
            for (int i = 0, c = code; i < len; i++, c /= 3) v.push_back(1 + 2 * (c % 3));
            if (!std::is_sorted(v.begin(), v.end())) continue;
            for (int key = 0; key <= 6; key++)
            {
                printf("ub %u 0 %d %s\n", sizes[rot % sizes.size()], key, join(v).c_str());
                printf("lb %u 0 %d %s\n", sizes[(rot + 5) % sizes.size()], key, join(v).c_str());
                rot++;
            }
        }
    }
    // (2) lengths 0..40 (thorough ..120), every comparator, duplicate-rich, keys from below the minimum to above the maximum
    int maxn = th ? 120 : 40;
    for (int rep = 0; rep < (th ? 4 : 1); rep++)
        for (int n = 0; n <= maxn; n++)
            for (int kind = 0; kind < 5; kind++)
            {
                std::vector<int> v(n);
                int m = (int)r.pick(std::vector<int>{1, 2, 3, 5, n ? n : 1, 2 * n + 1, 12, 40});
                for (auto &x : v) x = 2 + ((int)r.below(m) * (r.chance(50) ? 2 : 1)) % 252;
                order_for(v, kind, r);
                int lo = 0, hi = 3;
                for (int x : v) hi = std::max(hi, x + 2);
                unsigned e = r.pick(sizes);
                for (int key = lo; key <= hi; key++)
                    if (th || hi < 30 || r.chance(40) || std::find(v.begin(), v.end(), key) != v.end())
                    {
                        printf("ub %u %d %d %s\n", e, kind, key, join(v).c_str());
                        printf("lb %u %d %d %s\n", e, kind, key, join(v).c_str());
                    }
            }
    // (3) nmemb 0 and 1 at every element size (base of the empty array = one-past-the-end of an allocation)
    for (unsigned e : sizes)
        for (int kind = 0; kind < 5; kind++)
        {
            printf("ub %u %d %d -\nlb %u %d %d -\n", e, kind, (int)r.below(9), e, kind, (int)r.below(9));
            for (int key : {3, 4, 5})
                printf("ub %u %d %d 4\nlb %u %d %d 4\nbs %u %d %d 4\n", e, kind, key, e, kind, key, e, kind, key);
        }
}

// ------------------------------------------------------------ round 3
// rand.c transcribed for the GENERATOR only (to build arrays that are adversarial for the pivot
// sequence of a given seed); if rand.c changes, those arrays merely stop being adversarial
static int gen_rand(uint64_t &sd)
{
    sd = (uint32_t)(sd * 16546134871ull + 513585871ull) % 204814687u;
    return (int)(uint32_t)sd >> 1;
}
// an array on which, with the pivots of srand(seed), every partition step picks the unique minimum of
// its sub-array: one side of every partition is empty, the recursion is nmemb - 3 calls deep
// (qsort_recursion_depth: the bound nmemb + 1 is of the right order) - as far as one key byte allows
static std::vector<int> adversarial(size_t n, unsigned seed)
{
    uint64_t sd = seed;
    std::vector<int> val(n, -1);
    std::vector<size_t> pos(n);
    for (size_t i = 0; i < n; i++) pos[i] = i;
    size_t lo = 0;
    int level = 0;
    while (n - lo >= 4 && level < 250)
    {
        size_t p = lo + (size_t)gen_rand(sd) % (n - lo);
        val[pos[p]] = level++;
        std::swap(pos[lo], pos[p]);
        lo++;
    }
    for (size_t i = 0; i < n; i++)
        if (val[i] < 0) val[i] = level + (int)(i % 5);
    return val;
}
static void order_by_cmp(std::vector<int> &v, int kind, rng &r)
{
    for (size_t i = v.size(); i > 1; i--) std::swap(v[i - 1], v[r.below(i)]);
    std::stable_sort(v.begin(), v.end(), [&](int a, int b) { return cmp_keys(kind, a, b) < 0; });
}

static void gen_round3(rng &r, bool th)
{
    puts("consts");
    puts("ctype");
    // (the descriptive word makes the line longer than the small direct ops: bin/check replays the shortest failing op first)
    puts("premain strtol,strtoull,rand,qsort(9x3),bsearch-called-from-a-constructor-with-init_priority(101)-before-main");
    // ---- strto*: state kept between calls?  Consecutive calls of ONE function with the sign and the
    // magnitude alternating around the limits (a cache keyed by the base alone would mix the limits of
    // the two signs), then the same text through all eight functions, base by base.
    {
        const u128 SMAX = (u128)INT64_MAX, UMAX = (u128)UINT64_MAX;
        for (int f = 0; f < 8; f++)
            for (int base : {10, 16, 8, 36, 2, 3, 0, 7, 35})
            {
                int eb = base ? base : 10;
                const std::pair<const char *, u128> seq[] = {{"-", 1}, {"", SMAX + 1}, {"-", SMAX + 1}, {"", SMAX}, {"-", SMAX + 2}, {"+", UMAX}, {"-", UMAX}, {"", UMAX + 1}, {"-", 0}, {"", SMAX + 1}, {"-", SMAX + 1}};
                for (auto &q : seq) st(FNS[f], base, std::string(q.first) + render(q.second, eb, (int)r.below(3), r));
            }
        for (int bi = 0; bi < 36; bi++)
        {
            int base = BASES[bi], eb = base ? base : 10;
            for (int f = 0; f < 8; f++) st(FNS[f], base, "-" + render(1 + r.below(9), eb, 0, r));
            for (int f = 0; f < 8; f++) st(FNS[f], base, render(SMAX + 1, eb, 0, r));
            for (int f = 7; f >= 0; f--) st(FNS[f], base, "-" + render(SMAX + 1, eb, 1, r));
            for (int f = 0; f < 8; f++) st(FNS[f], base, render(UMAX, eb, 0, r) + (r.chance(50) ? "" : " "));
        }
        for (int f = 0; f < 8; f++)
            for (const char *t : {"+ 1", "- 1", "+", "-0x", "-0xg", "+0x", "0x", "0xx", "\v\f 0x1", "\v\f-0X", "0x 1", "-0", "+0", "-00x1", "0x-1", "\x1f" "1", "\x0e" "1", "\x08" "1"})
                for (int base : {0, 16, 10})
                    st(FNS[f], base, t);
    }
    // ---- texts of >= 300 KiB (the loops are linear)
    {
        unsigned rot = (unsigned)r.below(8);
        for (int k = 0; k < (th ? 8 : 3); k++)
            for (int f = 0; f < 8; f++)
            {
                const char *fn = FNS[f];
                switch ((f + rot + k) % 4)
                {
                case 0: printf("stL %s 10 %s %s %u %s\n", fn, hex(std::string(k & 1 ? "-" : "")).c_str(), hex(std::string("1")).c_str(), 307200u + (unsigned)r.below(9), hex(std::string("x")).c_str()); break;
                case 1: printf("stL %s 16 %s %s %u %s\n", fn, hex(std::string("-0x")).c_str(), hex(std::string("0")).c_str(), 307200u, hex(std::string("7fg")).c_str()); break;
                case 2: printf("stL %s 0 - %s %u %s\n", fn, hex(std::string(" \t\n\v\f\r")).c_str(), 51200u, hex(std::string("+017x")).c_str()); break;
                default: printf("stL %s 36 %s %s %u -\n", fn, hex(std::string(" ")).c_str(), hex(std::string("zZ9")).c_str(), 102400u + (unsigned)r.below(3)); break;
                }
            }
    }
    // ---- bases outside {0, 2..36}: ISO leaves the call undefined; only "returns, end pointer inside".
    // (base -1 is not generated: strtoll/strtoq compute LLONG_MIN % base for a negative text, which traps.)
    for (int f = 0; f < 8; f++)
        for (int base : {1, 37, 38, 64, 100, 255, 256, 257, 65536, 65546, -2, -10, -36, INT_MAX, INT_MIN})
            for (const char *t : {"", "0", "10", "-7", "zz", " +0x1f", "00000", "-1Zz9"})
                printf("stx %s %d %s\n", FNS[f], base, hex(std::string(t)).c_str());
    // ---- qsort: comparators with large classes (5) / on a part of the key (6)
    for (int rep = 0; rep < (th ? 6 : 2); rep++)
        for (int n = 0; n <= 40; n++)
            for (int kind : {5, 6})
            {
                std::vector<int> v(n);
                int m = (int)r.pick(std::vector<int>{256, 256, 32, 17, 64});
                for (auto &x : v) x = (int)r.below(m);
                if (r.chance(25)) order_by_cmp(v, kind, r);
                printf("qs %u %d %u %s\n", esz(r), kind, (unsigned)r.next(), join(v).c_str());
            }
    // every element size 1..64 (the VLAs temp[size], key[size])
    for (unsigned e = 1; e <= 64; e++)
        for (int n : {2, 3, 4, 5, 9, 20})
        {
            std::vector<int> v(n);
            int m = (int)r.pick(std::vector<int>{2, 3, 6, 256});
            for (auto &x : v) x = (int)r.below(m);
            printf("qs %u %d %u %s\n", e, (int)r.below(7), (unsigned)r.next(), join(v).c_str());
        }
    // adversarial for the pivot sequence: recursion as deep as the array is long
    for (size_t n : {8u, 33u, 100u, 250u, 256u})
        for (int rep = 0; rep < (th ? 4 : 1); rep++)
        {
            unsigned seed = (unsigned)r.next();
            printf("qs %u 0 %u %s\n", (unsigned)r.pick(std::vector<unsigned>{2, 4, 24, 40}), seed, join(adversarial(n, seed)).c_str());
        }
    {
        unsigned seed = (unsigned)r.next();
        printf("qs 1 0 %u %s\n", seed, join(adversarial(600, seed)).c_str());
    }
    // generated arrays: boundary lengths, long arrays (the model is executed up to 600 elements,
    // beyond that the driver prints the ordered key sequence the theorems prescribe)
    {
        static const int kinds[7] = {0, 1, 5, 6, 2, 4, 3};
        unsigned rot = 0;
        for (size_t n : {0u, 1u, 3u, 4u, 5u, 31u, 100u, 255u, 256u, 257u, 400u, 600u})
            for (unsigned shape = 0; shape < 5; shape++)
                printf("qsg %u %d %u %zu %u %u\n", esz(r), kinds[rot++ % 7], (unsigned)r.next(), n, shape, (unsigned)r.pick(std::vector<unsigned>{2, 7, 256, 256}));
        for (size_t n : {601u, 4095u, 4096u, 5000u, 65535u, 65536u, 65537u})
            for (unsigned shape = 0; shape < (n < 60000 || th ? 5u : 2u); shape++)
                printf("qsg %u %d %u %zu %u %u\n", n > 60000 ? (unsigned)r.pick(std::vector<unsigned>{1, 2, 5}) : esz(r), kinds[rot++ % 7], (unsigned)r.next(), n, shape, (unsigned)r.pick(std::vector<unsigned>{3, 256, 256}));
        printf("qsg 4 0 %u 300000 0 256\n", (unsigned)r.next());
        // (random keys only at this length: with 256 distinct keys a structured shape costs a
        // deterministic-pivot quicksort 256 x nmemb comparisons - legitimate, but beyond the per-op time limit)
        printf("qsg 1 %d %u 307200 0 256\n", kinds[r.below(6)], (unsigned)r.next());
        if (th)
        {
            printf("qsg 2 1 %u 500000 0 256\n", (unsigned)r.next());
            printf("qsg 3 5 %u 300001 0 200\n", (unsigned)r.next());
        }
    }
    // ---- bsearch / bounds with the new comparators, and with the key object inside the array
    for (int rep = 0; rep < (th ? 4 : 1); rep++)
        for (int n = 0; n <= 40; n++)
            for (int kind : {5, 6})
            {
                std::vector<int> v(n);
                int m = (int)r.pick(std::vector<int>{250, 250, 40, 17});
                for (auto &x : v) x = (int)r.below(m);
                order_by_cmp(v, kind, r);
                unsigned e = esz(r);
                for (int key = 0; key < m + 3; key += (th || m < 50 ? 1 : 1 + (int)r.below(7)))
                {
                    printf("bs %u %d %d %s\n", e, kind, key, join(v).c_str());
                    printf("ub %u %d %d %s\nlb %u %d %d %s\n", e, kind, key, join(v).c_str(), e, kind, key, join(v).c_str());
                }
            }
    for (int rep = 0; rep < (th ? 6 : 2); rep++)
        for (int n = 1; n <= 24; n++)
        {
            int kind = (int)r.below(7);
            std::vector<int> v(n);
            int m = (int)r.pick(std::vector<int>{1, 2, 3, 5, 40, 250});
            for (auto &x : v) x = (int)r.below(m);
            order_by_cmp(v, kind, r);
            unsigned e = esz(r);
            for (int k = 0; k < n; k++) printf("bsa %u %d %d %s\n", e, kind, k, join(v).c_str());
        }
    // ---- one array, several qsort calls with the comparator changed in between, then bsearch
    for (int rep = 0; rep < (th ? 40 : 8); rep++)
        for (int n : {0, 1, 3, 4, 7, 12, 30})
        {
            std::vector<int> v(n), kd(1 + r.below(4));
            int m = (int)r.pick(std::vector<int>{2, 5, 40, 256});
            for (auto &x : v) x = (int)r.below(m);
            for (auto &x : kd) x = (int)r.below(7);
            printf("qsr %u %u %s %s\n", esz(r), (unsigned)r.next(), join(kd).c_str(), join(v).c_str());
        }
    // ---- atol / atoi / atoll on >= 300 KiB
    for (const char *fn : {"l", "i", "ll"})
    {
        printf("atL %s - %s 307200 %s\n", fn, hex(std::string(" ")).c_str(), hex(std::string("-123x")).c_str());
        printf("atL %s %s %s 307200 %s\n", fn, hex(std::string("\t+")).c_str(), hex(std::string("0")).c_str(), hex(std::string("2147483647 ")).c_str());
    }
    // rand / rand_r: long runs on one state
    printf("rnd 1 300\nrnd 0 300\nrnd 204814686 50\nrnd 204814687 50\nrndr 204814687 50\n");
}

// ------------------------------------------------------------ round 3b: re-entrancy
// qsn / bsn: the comparator of an outer qsort / bsearch / upper_bound / lower_bound runs complete nested
// calls (qsort of a private array, bsearch + bounds, one strto*) at the k-th comparator call or at every
// call, on this thread or on a second one.  Element sizes on both sides of 64 (a shared static buffer with
// an alloca fallback has such a limit), inner keys mostly disjoint from the outer ones (a pivot copy that
// is overwritten by the inner call then compares unlike any element of the outer array).
static void gen_nested(rng &r, bool th)
{
    static const std::vector<unsigned> osz = {1, 2, 3, 4, 8, 12, 16, 32, 33, 63, 64, 65, 100};
    static const std::vector<unsigned> isz = {1, 2, 4, 4, 8, 16, 32, 64, 65, 80};
    static const std::vector<std::pair<int, const char *>> texts = {{10, "-9223372036854775808"}, {10, "9223372036854775808"}, {10, "18446744073709551615"}, {10, " -18446744073709551616x"},
                                                                     {0, "0x7fZ"}, {16, "\t-0x"}, {36, "1y2p0ij32e8e8"}, {36, "-1Y2P0IJ32E8E7 "}, {0, "017777777777777777777778"}, {2, "+1012"}, {10, ""}, {7, "  66x"}};
    auto tailf = [&](char *buf, size_t sz) {
        std::vector<int> ik(r.pick(std::vector<int>{4, 4, 5, 8, 12, 0, 3}));
        bool disjoint = r.chance(80);
        for (auto &x : ik) x = disjoint ? 100 + (int)r.below(150) : (int)r.below(6);
        auto &t = r.pick(texts);
        snprintf(buf, sz, "%u %s %s %d %s", (unsigned)r.pick(isz), join(ik).c_str(), FNS_[r.below(8)], t.first, hex(std::string(t.second)).c_str());
    };
    char tl[512];
    for (int rep = 0; rep < (th ? 12 : 3); rep++)
        for (int n : {0, 1, 3, 4, 5, 6, 8, 12, 20, 40})
            for (unsigned long when : {0ul, 1ul, 2ul, 3ul, 5ul, 9ul})
            {
                std::vector<int> v(n);
                int m = (int)r.pick(std::vector<int>{2, 5, 40, 100});
                for (auto &x : v) x = (int)r.below(m);
                tailf(tl, sizeof tl);
                printf("qsn %u %d %u %lu %d %s %s\n", (unsigned)r.pick(osz), (int)r.below(7), (unsigned)r.next(), when, (int)r.pick(std::vector<int>{1, 1, 1, 2, 4, 7, 9, 15, 3, 5}), tl, join(v).c_str());
            }
    for (int rep = 0; rep < (th ? 8 : 2); rep++)
        for (int n : {0, 1, 2, 5, 9, 17, 40})
            for (unsigned long when : {0ul, 1ul, 2ul, 4ul})
            {
                int kind = (int)r.below(7);
                std::vector<int> v(n);
                int m = (int)r.pick(std::vector<int>{2, 5, 40, 250});
                for (auto &x : v) x = (int)r.below(m);
                order_by_cmp(v, kind, r);
                tailf(tl, sizeof tl);
                printf("bsn %u %d %d %lu %d %s %s\n", (unsigned)r.pick(osz), kind, n && r.chance(70) ? v[r.below(n)] : (int)r.below(m + 2), when, (int)r.pick(std::vector<int>{1, 1, 4, 7, 9, 15, 2}), tl, join(v).c_str());
            }
}

static void gen(rng &r, const std::string &tier)
{
    bool th = tier == "thorough";
    puts("widths");
    gen_strto(r, th);
    gen_qsort(r, th);
    gen_bsearch(r, th);
    gen_bounds(r, th);
    gen_round3(r, th);
    gen_nested(r, th);
}

int main(int argc, char **argv) { return main_(argc, argv, gen, run_op); }
