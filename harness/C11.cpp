// C11 harness: compat/libc strto*/ato*, qsort, bsearch, rand against the Lean
// model (IgrisModel/C11).  The code under test is compiled in C11_shim.c with
// renamed symbols (igv_*), so `strtol` etc. below are the HOST functions
// (used only as an oracle).
#include "C11_common.h"
#include <sys/wait.h>

extern "C"
{
    long igv_strtol(const char *, char **, int);
    unsigned long igv_strtoul(const char *, char **, int);
    long long igv_strtoll(const char *, char **, int);
    unsigned long long igv_strtoull(const char *, char **, int);
    intmax_t igv_strtoimax(const char *, char **, int);
    uintmax_t igv_strtoumax(const char *, char **, int);
    long igv_atol(const char *);
    int igv_atoi(const char *);
    void igv_qsort(void *, size_t, size_t, int (*)(const void *, const void *));
    void *igv_bsearch(const void *, const void *, size_t, size_t, int (*)(const void *, const void *));
    int igv_rand(void);
    void igv_srand(unsigned);
    // strtoq / strtouq (BSD names, the `#else` branch of strtoll.c / strtoull.c, in no public header and
    // not named by the property): OPTIONAL - weak references; when the library does not define them the
    // ops run strtoll / strtoull, which is what they are specified to equal (tag `strtoq-absent`)
    int64_t igv_strtoq(const char *, char **, int) __attribute__((weak));
    uint64_t igv_strtouq(const char *, char **, int) __attribute__((weak));
    void *igv_upper_bound(const void *, const void *, size_t, size_t, int (*)(const void *, const void *));
    void *igv_lower_bound(const void *, const void *, size_t, size_t, int (*)(const void *, const void *));
    int igv_rand_r(unsigned int *);
    int igv_erange(void);
    int igv_einval(void);
    int igv_ctype_bits(int);
}

static int64_t call_strtoq(const char *s, char **e, int b) { return igv_strtoq ? igv_strtoq(s, e, b) : (int64_t)igv_strtoll(s, e, b); }
static uint64_t call_strtouq(const char *s, char **e, int b) { return igv_strtouq ? igv_strtouq(s, e, b) : (uint64_t)igv_strtoull(s, e, b); }
// rand.c's state is a file-static: probed by behaviour, not named.  The generator keeps all 32 bits of
// srand()'s argument in an unsigned state iff seeds that differ only in high bits give the sequences the
// documented LCG gives in 64-bit arithmetic (a narrower state collapses them; a signed one overflows: UBSan).
static uint64_t lcg_ref(uint64_t x) { return ((x * 16546134871ull + 513585871ull) & 0xffffffffull) % 204814687ull; }
static bool rand_state_ge32u()
{
    for (unsigned s : {5u, 0x10005u, 0x80000005u, 0xffffffffu, 0x7fffffffu})
    {
        igv_srand(s);
        uint64_t ref = s;
        for (int i = 0; i < 4; i++)
        {
            ref = lcg_ref(ref);
            if ((uint64_t)igv_rand() != ref / 2) return false;
        }
    }
    return true;
}

static_assert(sizeof(long) == 8 && sizeof(long long) == 8 && sizeof(intmax_t) == 8 && sizeof(int) == 4, "LP64 host assumed by the driver's instantiation (widths op)");
static_assert((char)-1 < 0, "char is signed on this host");

// ------------------------------------------------------------ ISO reference
// ISO/IEC 9899 7.22.1.4 evaluated directly (no code shared with the shim):
// white space, optional sign, optional 0x/0X (base 0/16, only when a hex digit
// follows), longest run of digits of the base; value clamped to the type.
static int ref_digit(uint8_t c)
{
    if (c >= '0' && c <= '9') return c - '0';
    if (c >= 'a' && c <= 'z') return c - 'a' + 10;
    if (c >= 'A' && c <= 'Z') return c - 'A' + 10;
    return 99;
}
static bool ref_space(uint8_t c) { return c == ' ' || (c >= 9 && c <= 13); }
struct parsed
{
    bool conv = false, neg = false, huge = false; // huge: magnitude > 2^64-1
    u128 mag = 0;
    size_t end = 0;
};
static parsed ref_parse(const bytes &t, int base)
{
    parsed p;
    size_t i = 0, n = t.size();
    auto at = [&](size_t k) -> uint8_t { return k < n ? t[k] : 0; };
    while (ref_space(at(i))) i++;
    if (at(i) == '-') { p.neg = true; i++; }
    else if (at(i) == '+') i++;
    if ((base == 0 || base == 16) && at(i) == '0' && (at(i + 1) == 'x' || at(i + 1) == 'X') && ref_digit(at(i + 2)) < 16)
    {
        i += 2;
        base = 16;
    }
    if (base == 0) base = at(i) == '0' ? 8 : 10;
    size_t start = i;
    const u128 top = ((u128)1 << 100);
    while (ref_digit(at(i)) < base)
    {
        if (p.mag < top) p.mag = p.mag * base + ref_digit(at(i));
        i++;
    }
    if (i == start) return p;
    p.conv = true;
    p.end = i;
    p.huge = p.mag > (u128)UINT64_MAX;
    return p;
}
static uint64_t ref_signed(const parsed &p)
{
    if (!p.conv) return 0;
    if (p.neg) return p.mag > ((u128)1 << 63) ? (uint64_t)INT64_MIN : (uint64_t)(0 - (uint64_t)p.mag);
    return p.mag > (u128)INT64_MAX ? (uint64_t)INT64_MAX : (uint64_t)p.mag;
}
static uint64_t ref_unsigned(const parsed &p)
{
    if (!p.conv) return 0;
    if (p.huge) return UINT64_MAX;
    return p.neg ? 0 - (uint64_t)p.mag : (uint64_t)p.mag;
}

// ------------------------------------------------------------ elements
// element = esize bytes: [0] key, [1] original index, [j>=2] f(idx,key,j)
static uint8_t tagbyte(unsigned idx, unsigned key, unsigned j) { return (uint8_t)(idx * (j + 1) + key * 3 + j); }
static void put_elem(uint8_t *p, unsigned esize, unsigned key, unsigned idx)
{
    p[0] = (uint8_t)key;
    if (esize > 1) p[1] = (uint8_t)idx;
    for (unsigned j = 2; j < esize; j++) p[j] = tagbyte(idx, key, j);
}
static bool elem_intact(const uint8_t *p, unsigned esize)
{
    if (esize < 2) return true;
    for (unsigned j = 2; j < esize; j++)
        if (p[j] != tagbyte(p[1], p[0], j)) return false;
    return true;
}

// comparator call log ------------------------------------------------------
static struct
{
    int kind;
    const uint8_t *base;
    size_t n, esize;
    const uint8_t *key; // bsearch: the key object; qsort: null
    std::vector<bytes> *orig;
    std::string bad;
    unsigned long calls, pivot_args;
    const uint8_t *odata;      // big arrays: a copy of the original array and the order of its elements
    const std::vector<uint32_t> *oord; // (indices sorted by memcmp): logarithmic look-up
    const uint8_t *pv_ptr;     // last argument outside the array that was verified to be a copy of an element
    bytes pv_val;
    const uint8_t *stack_lo;   // lowest frame address seen in a comparator call (recursion depth, tag only)
} L;

static bool in_array(const void *p)
{
    const uint8_t *q = (const uint8_t *)p;
    return L.n && q >= L.base && q < L.base + L.n * L.esize && (size_t)(q - L.base) % L.esize == 0;
}
static void bad(const std::string &s)
{
    if (L.bad.empty()) L.bad = s;
}
// qsort: each argument is an element of the array or a private copy of one
static int qs_compar(const void *a, const void *b)
{
    L.calls++;
    const void *ar[2] = {a, b};
    for (const void *p : ar)
        if (!in_array(p))
        {
            const uint8_t *q = (const uint8_t *)p;
            if (q >= L.base - 64 && q < L.base + L.n * L.esize + 64)
            {
                bad("comparator called with a misplaced pointer at array offset " + std::to_string((long)(q - L.base)));
                return 0; // do not dereference
            }
            L.pivot_args++;
            if (L.pv_ptr == q && L.pv_val.size() == L.esize && !memcmp(L.pv_val.data(), q, L.esize)) continue;
            bool found = false;
            if (L.oord)
            {
                size_t lo = 0, hi = L.oord->size();
                while (lo < hi)
                {
                    size_t mid = lo + (hi - lo) / 2;
                    int c = memcmp(L.odata + (size_t)(*L.oord)[mid] * L.esize, q, L.esize);
                    if (c == 0) { found = true; break; }
                    if (c < 0) lo = mid + 1; else hi = mid;
                }
            }
            else
                for (auto &e : *L.orig)
                    if (!memcmp(e.data(), q, L.esize)) found = true;
            if (!found) bad("comparator argument outside the array is not a copy of an element");
            else { L.pv_ptr = q; L.pv_val.assign(q, q + L.esize); }
        }
    {
        const uint8_t *fp = (const uint8_t *)__builtin_frame_address(0);
        if (!L.stack_lo || fp < L.stack_lo) L.stack_lo = fp;
    }
    return cmp_keys(L.kind, ((const uint8_t *)a)[0], ((const uint8_t *)b)[0]);
}
// bsearch: (key object, array element) in that order; the key object is a
// 4-byte int, an element is esize bytes: confusing them is observable.
static int bs_compar(const void *a, const void *b)
{
    L.calls++;
    if (a == L.key && in_array(b)) return cmp_keys(L.kind, *(const int *)a, ((const uint8_t *)b)[0]);
    if (b == L.key && in_array(a))
    {
        bad("comparator called as (element, key): ISO 7.22.5.1 requires (key, element)");
        int c = cmp_keys(L.kind, *(const int *)b, ((const uint8_t *)a)[0]);
        return c == INT_MIN ? INT_MAX : -c;
    }
    const uint8_t *q = (const uint8_t *)(a == L.key ? b : a);
    bad("comparator called with a pointer outside the array (offset " + std::to_string((long)(q - L.base)) + ", nmemb " + std::to_string(L.n) + ")");
    return 1;
}

// bsearch whose key object is an element of the array itself (aliasing arguments)
static int bsa_compar(const void *a, const void *b)
{
    L.calls++;
    if (a != L.key) bad("comparator called with something else than the key object as first argument");
    if (!in_array(b))
    {
        bad("comparator called with a pointer outside the array (offset " + std::to_string((long)((const uint8_t *)b - L.base)) + ", nmemb " + std::to_string(L.n) + ")");
        return 1;
    }
    return cmp_keys(L.kind, ((const uint8_t *)L.key)[0], ((const uint8_t *)b)[0]);
}

// canonical form of a sorted array: inside every maximal run of adjacent
// elements that compare equal the order is unspecified (qsort is not stable,
// ISO 7.22.5.2p4) - each run is printed sorted by (key, original index)
static std::string canon_runs(int kind, std::vector<std::pair<int, int>> el, bool with_idx)
{
    size_t n = el.size(), s0 = 0;
    while (s0 < n)
    {
        size_t e = s0 + 1;
        while (e < n && cmp_keys(kind, el[e - 1].first, el[e].first) == 0) e++;
        std::sort(el.begin() + s0, el.begin() + e);
        s0 = e;
    }
    std::string r;
    for (size_t i = 0; i < n; i++)
    {
        r += (i ? "," : "") + std::to_string(el[i].first);
        if (with_idx) r += "." + std::to_string(el[i].second);
    }
    return r.empty() ? "-" : r;
}
// run-length form of the same for big arrays: keys only
static std::string canon_rle(int kind, std::vector<int> k)
{
    size_t n = k.size(), s0 = 0;
    while (s0 < n)
    {
        size_t e = s0 + 1;
        while (e < n && cmp_keys(kind, k[e - 1], k[e]) == 0) e++;
        std::sort(k.begin() + s0, k.begin() + e);
        s0 = e;
    }
    std::string r;
    for (size_t i = 0; i < n;)
    {
        size_t j = i;
        while (j < n && k[j] == k[i]) j++;
        r += (i ? "," : "") + std::to_string(k[i]) + "*" + std::to_string(j - i);
        i = j;
    }
    return r.empty() ? "-" : r;
}
// the generated arrays of the op `qsg` (the driver computes the same keys)
static int qsg_key(unsigned shape, uint64_t i, uint64_t n, uint64_t m, uint64_t seed)
{
    switch (shape)
    {
    case 0: return (int)((((i * 2654435761ull + seed * 40503ull) & 0xffffffffull) >> 16) % m);
    case 1: return (int)(i * m / n);
    case 2: return (int)((n - 1 - i) * m / n);
    case 3: return 7;
    default: { uint64_t d = i < n - 1 - i ? i : n - 1 - i; uint64_t v = d * 2 * m / n; return (int)(v >= m ? m - 1 : v); }
    }
}

static std::vector<int> ints(const std::string &s)
{
    std::vector<int> v;
    if (s == "-") return v;
    size_t i = 0;
    while (i < s.size())
    {
        size_t j = s.find(',', i);
        if (j == std::string::npos) j = s.size();
        v.push_back(atoi(s.substr(i, j - i).c_str()));
        i = j + 1;
    }
    return v;
}

// ------------------------------------------------------------ nested calls (re-entrancy)
// A comparator may itself call qsort / bsearch / strto* on OTHER data (rows ordered by their sorted
// contents, keys parsed from text ...): it is still a pure function of its two arguments, so the
// property's clauses hold for the outer call and for every nested call.  `nested_work` runs, from inside
// a comparator of an outer qsort/bsearch (on this thread, or on a second thread that is joined before the
// comparator returns, so that the two calls overlap in time deterministically), a complete qsort of a
// private array, bsearch/upper_bound/lower_bound on another one and one strto* call; each is judged on
// its own (independent oracles), and must give what the same call gives when it runs alone afterwards.
#include <pthread.h>
static struct
{
    unsigned what = 0;              // bit 0 qsort, 1 bsearch+bounds, 2 strto*, 3 on a second thread
    unsigned long when = 0;         // 0: every comparator call, k: only the k-th
    unsigned long calls = 0, ran = 0;
    unsigned iesize = 1;
    std::vector<int> ikeys;
    std::string fn;
    int base = 10;
    bytes text;
    std::string inner_seen, st_seen, bad;
} N;
static void nbad(const std::string &s)
{
    if (N.bad.empty()) N.bad = s;
}
static int in_cmp(const void *a, const void *b) { return (int)*(const uint8_t *)a - (int)*(const uint8_t *)b; }
static int in_kcmp(const void *k, const void *e) { return *(const int *)k - (int)*(const uint8_t *)e; }
static void nested_do(unsigned what)
{
    size_t n = N.ikeys.size();
    unsigned es = N.iesize;
    if (what & 1)
    {
        exact_buf a(n * es);
        std::vector<bytes> orig, now;
        for (size_t i = 0; i < n; i++)
        {
            put_elem(a.p + i * es, es, N.ikeys[i], (unsigned)i);
            orig.emplace_back(a.p + i * es, a.p + (i + 1) * es);
        }
        igv_qsort(a.p, n, es, in_cmp);
        std::vector<std::pair<int, int>> el;
        for (size_t i = 0; i < n; i++)
        {
            const uint8_t *e = a.p + i * es;
            now.emplace_back(e, e + es);
            el.emplace_back(e[0], es > 1 ? e[1] : 0);
            if (!elem_intact(e, es)) nbad("nested qsort: an element is a mixture of bytes of different elements");
            if (i && a.p[(i - 1) * es] > e[0]) nbad("nested qsort: not ordered at index " + std::to_string(i - 1));
        }
        std::sort(orig.begin(), orig.end());
        std::sort(now.begin(), now.end());
        if (orig != now) nbad("nested qsort: result is not a permutation of the input");
        std::string c = canon_runs(0, el, es > 1);
        if (N.inner_seen.empty()) N.inner_seen = c;
        else if (N.inner_seen != c) nbad("nested qsort: two calls with the same arguments gave different results");
    }
    if ((what & 2) && n)
    {
        std::vector<int> sk = N.ikeys;
        std::sort(sk.begin(), sk.end());
        exact_buf a(n * es);
        for (size_t i = 0; i < n; i++) put_elem(a.p + i * es, es, sk[i], (unsigned)i);
        for (int key : {N.ikeys[0], 255, N.ikeys[n / 2] + 1, 0})
        {
            exact_buf kb(sizeof(int));
            memcpy(kb.p, &key, sizeof key);
            const uint8_t *q = (const uint8_t *)igv_bsearch(kb.p, a.p, n, es, in_kcmp);
            bool exists = std::binary_search(sk.begin(), sk.end(), key);
            if ((q != 0) != exists) nbad("nested bsearch: key " + std::to_string(key) + (exists ? " exists but NULL was returned" : " does not exist but an element was returned"));
            else if (q && (q < a.p || q >= a.p + n * es || (size_t)(q - a.p) % es || q[0] != key)) nbad("nested bsearch: wrong element returned");
            const uint8_t *u = (const uint8_t *)igv_upper_bound(kb.p, a.p, n, es, in_kcmp);
            const uint8_t *l = (const uint8_t *)igv_lower_bound(kb.p, a.p, n, es, in_kcmp);
            if (u != a.p + (size_t)(std::upper_bound(sk.begin(), sk.end(), key) - sk.begin()) * es) nbad("nested upper_bound: not the first element greater than the key");
            if (l != a.p + (size_t)(std::lower_bound(sk.begin(), sk.end(), key) - sk.begin()) * es) nbad("nested lower_bound: not the first element not less than the key");
        }
    }
    if (what & 4)
    {
        bytes z = N.text;
        z.push_back(0);
        exact_buf b(z);
        const char *s = (const char *)b.p;
        char *end = (char *)1;
        const std::string &fn = N.fn;
        bool sg = fn == "l" || fn == "ll" || fn == "imax" || fn == "q";
        int saved = errno;
        errno = 9999;
        uint64_t v = fn == "l" ? (uint64_t)igv_strtol(s, &end, N.base) : fn == "ul" ? igv_strtoul(s, &end, N.base) : fn == "ll" ? (uint64_t)igv_strtoll(s, &end, N.base)
                   : fn == "ull" ? igv_strtoull(s, &end, N.base) : fn == "imax" ? (uint64_t)igv_strtoimax(s, &end, N.base) : fn == "umax" ? igv_strtoumax(s, &end, N.base)
                   : fn == "q" ? (uint64_t)call_strtoq(s, &end, N.base) : call_strtouq(s, &end, N.base);
        int ierr = errno;
        errno = saved;
        parsed p = ref_parse(N.text, N.base);
        uint64_t rv = sg ? ref_signed(p) : ref_unsigned(p);
        long re = p.conv ? (long)p.end : 0;
        bool range = p.conv && (sg ? (p.neg ? p.mag > ((u128)1 << 63) : p.mag > (u128)INT64_MAX) : p.huge);
        if (v != rv || end - s != re) nbad("nested strto" + fn + ": ISO 7.22.1.4 expects " + hexn(rv, 16) + " end " + std::to_string(re) + ", got " + hexn(v, 16) + " end " + std::to_string((long)(end - s)));
        if (range != (ierr == ERANGE)) nbad("nested strto" + fn + ": errno ERANGE iff the value is out of range");
        std::string c = hexn(v, 16) + " " + std::to_string((long)(end - s)) + " " + (ierr == 9999 ? "0" : ierr == ERANGE ? "ERANGE" : ierr == EINVAL ? "EINVAL" : std::to_string(ierr));
        if (N.st_seen.empty()) N.st_seen = c;
        else if (N.st_seen != c) nbad("nested strto*: two calls with the same arguments gave different results");
    }
}
static void *nested_thread(void *w)
{
    nested_do(*(unsigned *)w);
    return 0;
}
static void nested_work(unsigned what)
{
    N.ran++;
    if (what & 8)
    {
        pthread_t t;
        unsigned w = what & 7;
        if (pthread_create(&t, 0, nested_thread, &w)) { nbad("pthread_create failed"); return; }
        pthread_join(t, 0);
    }
    else
        nested_do(what);
}
static void nested_hook()
{
    N.calls++;
    if (N.what && (N.when == 0 || N.calls == N.when)) nested_work(N.what);
}
static int qsn_compar(const void *a, const void *b)
{
    int r = qs_compar(a, b); // the arguments are judged first ...
    nested_hook();           // ... then other calls run while the outer one is in the middle of its work
    return r;
}
static int bsn_compar(const void *a, const void *b)
{
    nested_hook();
    return bs_compar(a, b);
}
// fields k.. of an op: <when> <what> <iesize> <ikeys> <fn> <base> <hextext>
static bool nested_setup(const std::vector<std::string> &w, size_t k)
{
    N.when = strtoul(w[k].c_str(), 0, 10);
    N.what = (unsigned)atoi(w[k + 1].c_str());
    N.iesize = (unsigned)atoi(w[k + 2].c_str());
    N.ikeys = ints(w[k + 3]);
    N.fn = w[k + 4];
    N.base = atoi(w[k + 5].c_str());
    N.text = unhex(w[k + 6]);
    N.calls = N.ran = 0;
    N.inner_seen.clear();
    N.st_seen.clear();
    N.bad.clear();
    static const std::set<std::string> fns(FNS_, FNS_ + 8);
    return N.iesize >= 1 && fns.count(N.fn);
}
// after the outer call: the same calls alone ("one after the other") must give what the nested ones gave
static std::string nested_finish(out &o)
{
    unsigned long ran = N.ran;
    N.what = 0;
    nested_do(7);
    if (!N.bad.empty()) o.fail(N.bad);
    o.tag(ran == 0 ? "nested-none" : ran == 1 ? "nested-once" : "nested-every-call");
    return " | " + N.inner_seen + " | " + N.st_seen;
}

// ------------------------------------------------------------ before main()
// A few calls made from the constructor of an object with the earliest user
// init priority: static-initialisation-order dependencies (rand.c's seed is a
// constant-initialised static; nothing else may need a constructor).
static char g_premain[1024];          // plain storage: no constructor that could run after the object below
static const char *g_premain_bad = 0;
static const int PM_KEYS[9] = {5, 1, 4, 1, 5, 9, 2, 6, 5};
static int pm_cmp(const void *a, const void *b) { return (int)*(const uint8_t *)a - (int)*(const uint8_t *)b; }
static int pm_kcmp(const void *k, const void *e) { return *(const int *)k - (int)*(const uint8_t *)e; }
struct premain_t
{
    // The calls run in a forked child: a crash there (sanitizer abort) must not take the whole
    // harness down before main() - it becomes the result of the op `premain`.
    premain_t()
    {
        int fd[2];
        if (pipe(fd)) { g_premain_bad = "pipe() failed"; return; }
        fflush(0);
        pid_t pid = fork();
        if (pid == 0)
        {
            close(fd[0]);
            alarm(20);
            calls();
            (void)!write(fd[1], g_premain, strlen(g_premain));
            _exit(g_premain_bad ? 3 : 0);
        }
        close(fd[1]);
        size_t got = 0;
        ssize_t k;
        while (got + 1 < sizeof g_premain && (k = read(fd[0], g_premain + got, sizeof g_premain - 1 - got)) > 0) got += (size_t)k;
        g_premain[got] = 0;
        close(fd[0]);
        int status = 0;
        waitpid(pid, &status, 0);
        if (!WIFEXITED(status) || WEXITSTATUS(status) != 0)
        {
            if (!got) snprintf(g_premain, sizeof g_premain, "crashed-before-main");
            g_premain_bad = "the calls made before main() (strtol, strtoull, rand, qsort of 9 elements of 3 bytes, bsearch) crashed or gave a wrong result";
        }
    }
    static void calls()
    {
        // the initial state is a file-static of rand.c: probed, not named - it is 314567651 iff the first
        // calls return what the documented LCG gives from that state.  Round 3c: that is a TAG (first word of
        // the piped line, taken off by the op `premain`); the compared part says only that three rand() calls
        // before main() returned values in [0, RAND_MAX]
        uint64_t ref = 314567651ull;
        bool init_ok = true;
        for (int i = 0; i < 3; i++)
        {
            int x = igv_rand();
            ref = lcg_ref(ref);
            if ((uint64_t)x != ref / 2) init_ok = false;
            if (x < 0) g_premain_bad = "rand() before main() returned a negative value";
        }
        std::string r = std::string(init_ok ? "rand-is-documented-lcg" : "rand-differs") + " rand in-range";
        char *e = 0;
        static const char txt[] = " \t-0x7fZ";
        errno = 0;
        long v = igv_strtol(txt, &e, 0);
        r += " strtol " + hexn((uint64_t)v, 16) + " " + std::to_string(e - txt);
        unsigned long long u = igv_strtoull("18446744073709551616", 0, 10);
        r += " strtoull " + hexn(u, 16) + (errno == ERANGE ? " ERANGE" : " 0");
        errno = 0;
        uint8_t arr[9][3];
        for (int i = 0; i < 9; i++) { arr[i][0] = (uint8_t)PM_KEYS[i]; arr[i][1] = (uint8_t)i; arr[i][2] = (uint8_t)(PM_KEYS[i] ^ i); }
        igv_qsort(arr, 9, 3, pm_cmp);   // rand() continues from the state left above
        std::vector<std::pair<int, int>> el;
        for (int i = 0; i < 9; i++)
        {
            el.emplace_back(arr[i][0], arr[i][1]);
            if (arr[i][2] != (arr[i][0] ^ arr[i][1])) g_premain_bad = "qsort before main mixed elements";
            if (i && arr[i - 1][0] > arr[i][0]) g_premain_bad = "qsort before main: not ordered";
        }
        r += " qsort " + canon_runs(0, el, true);
        r += " bsearch";
        for (int key : {5, 3, 9})
        {
            const uint8_t *q = (const uint8_t *)igv_bsearch(&key, arr, 9, 3, pm_kcmp);
            r += q ? " found(" + std::to_string(q[0]) + ")" : std::string(" null");
        }
        snprintf(g_premain, sizeof g_premain, "%s", r.c_str());
    }
};
static premain_t g_premain_obj __attribute__((init_priority(101)));

// ------------------------------------------------------------ run
static void run_op(const std::vector<std::string> &w, const std::string &, out &o)
{
    const std::string &op = w[0];
    if (op == "widths")
    {
        o.result = std::to_string(8 * sizeof(long)) + " " + std::to_string(8 * sizeof(long long)) + " " + std::to_string(8 * sizeof(intmax_t)) + " " + std::to_string(8 * sizeof(int));
        return;
    }
    if (op == "st" || op == "stL")
    {
        // st <fn> <base> <hextext>
        // stL <fn> <base> <prefix> <unit> <count> <tail>: text = prefix + unit x count + tail (long texts)
        const std::string &fn = w[1];
        int base = atoi(w[2].c_str());
        bytes t = unhex(w[3]);
        if (op == "stL")
        {
            bytes unit = unhex(w[4]), tail = unhex(w[6]);
            size_t cnt = strtoul(w[5].c_str(), 0, 10);
            t.reserve(t.size() + unit.size() * cnt + tail.size());
            for (size_t i = 0; i < cnt; i++) t.insert(t.end(), unit.begin(), unit.end());
            t.insert(t.end(), tail.begin(), tail.end());
            o.tag(t.size() >= 300 * 1024 ? "text>=300KiB" : "text-long");
        }
        bytes z = t;
        z.push_back(0);
        exact_buf b(z);
        const char *s = (const char *)b.p;
        char *end = (char *)1, *hend = 0;
        uint64_t v, hv_;
        bool sg = false;
        // errno: the host call starts from 0, the call under test from a
        // sentinel, so that "not written" and "written with 0" are told apart
        const int SENT = 9999;
        auto call = [&](char **ep) -> uint64_t {
            errno = SENT;
            if (fn == "l") return (uint64_t)igv_strtol(s, ep, base);
            if (fn == "ul") return igv_strtoul(s, ep, base);
            if (fn == "ll") return (uint64_t)igv_strtoll(s, ep, base);
            if (fn == "ull") return igv_strtoull(s, ep, base);
            if (fn == "imax") return (uint64_t)igv_strtoimax(s, ep, base);
            if (fn == "umax") return igv_strtoumax(s, ep, base);
            if (fn == "q") return (uint64_t)call_strtoq(s, ep, base);
            return call_strtouq(s, ep, base);
        };
        errno = 0;
        if (fn == "l") { hv_ = (uint64_t)strtol(s, &hend, base); sg = true; }
        else if (fn == "ul") { hv_ = strtoul(s, &hend, base); }
        else if (fn == "ll" || fn == "q") { hv_ = (uint64_t)strtoll(s, &hend, base); sg = true; }
        else if (fn == "ull" || fn == "uq") { hv_ = strtoull(s, &hend, base); }
        else if (fn == "imax") { hv_ = (uint64_t)strtoimax(s, &hend, base); sg = true; }
        else if (fn == "umax") { hv_ = strtoumax(s, &hend, base); }
        else { o.result = "bad-op"; return; }
        int herr = errno;
        v = call(&end);
        int ierr = errno;
        errno = 0;
        long e = end - s;
        std::string en = ierr == SENT ? "0" : ierr == ERANGE ? "ERANGE" : ierr == EINVAL ? "EINVAL" : std::to_string(ierr);
        if (e < 0 || e > (long)t.size())
        {
            o.result = hexn(v, 16) + " end-out-of-string";
            o.fail("end pointer outside the string");
            return;
        }
        o.result = hexn(v, 16) + " " + std::to_string(e) + " " + en;
        // NULL endptr must give the same value and the same errno
        uint64_t v0 = call(0);
        int ierr0 = errno;
        errno = 0;
        if (v0 != v) o.fail("value differs when endptr is NULL");
        if (ierr0 != ierr) o.fail("errno differs when endptr is NULL");
        parsed p = ref_parse(t, base);
        uint64_t rv = sg ? ref_signed(p) : ref_unsigned(p);
        size_t re = p.conv ? p.end : 0;
        if (rv != v || (long)re != e)
            o.fail("ISO 7.22.1.4: expected value " + hexn(rv, 16) + " end " + std::to_string(re) + ", got " + hexn(v, 16) + " end " + std::to_string(e));
        if (hv_ != v || hend - s != e)
            o.fail("host glibc: value " + hexn(hv_, 16) + " end " + std::to_string(hend - s));
        // errno.  ISO 7.22.1.4 p8: ERANGE iff the correct value is outside the
        // range; nothing else is stored (7.5: a function never stores 0).
        // strtoul.c / strtoumax.c also store EINVAL when no conversion is
        // performed: POSIX allows that ("may fail"), it is tolerated and tagged.
        {
            bool range = p.conv && (sg ? (p.neg ? p.mag > ((u128)1 << 63) : p.mag > (u128)INT64_MAX) : p.huge);
            bool einval_ok = !p.conv && (fn == "ul" || fn == "umax");
            if (range && ierr != ERANGE) o.fail("ISO 7.22.1.4p8: the value is out of range, errno must be ERANGE, got " + en);
            if (!range && ierr != SENT && !(einval_ok && ierr == EINVAL)) o.fail("errno written (" + en + ") although the value is representable");
            if ((herr == ERANGE) != (ierr == ERANGE)) o.fail("host glibc: errno " + std::to_string(herr) + ", got " + en);
            if (ierr == ERANGE) o.tag("erange");
            if (ierr == EINVAL) o.tag("einval-noconv");
        }
        if (!p.conv) o.tag("noconv");
        else
        {
            bool clamp = sg ? (p.neg ? p.mag > ((u128)1 << 63) : p.mag > (u128)INT64_MAX) : p.huge;
            bool edge = sg ? (p.neg ? p.mag == ((u128)1 << 63) : p.mag == (u128)INT64_MAX) : p.mag == (u128)UINT64_MAX;
            if (clamp) o.tag(p.neg ? "clamp-" : "clamp+");
            if (edge) o.tag("limit-exact");
            if (p.neg) o.tag("neg");
            if (re < t.size()) o.tag("tail");
            if (p.end >= 40) o.tag("long-run");
        }
        if (!t.empty() && ref_space(t[0])) o.tag("space");
        for (size_t i = 0; i + 1 < t.size(); i++)
            if (t[i] == '0' && (t[i + 1] == 'x' || t[i + 1] == 'X') && (base == 0 || base == 16))
            {
                o.tag(i + 2 < t.size() && ref_digit(t[i + 2]) < 16 ? "0x" : "0x-nodigit");
                break;
            }
        if (base == 0) o.tag("base0");
        if ((fn == "q" && !igv_strtoq) || (fn == "uq" && !igv_strtouq)) o.tag("strtoq-absent");
        return;
    }
    if (op == "at")
    {
        // at <l|i> <hextext>
        bytes t = unhex(w[2]);
        bytes z = t;
        z.push_back(0);
        exact_buf b(z);
        const char *s = (const char *)b.p;
        parsed p = ref_parse(t, 10);
        // (ISO: atol(s) == strtol(s, 0, 10) when the value is representable)
        if (w[1] == "ll")
        {
            // compat/libc/include/stdlib.h: static inline atoll(nptr) = strtoll(nptr, 0, 10)
            // (the header cannot be included next to the host's; its body is called here)
            errno = 9999;
            uint64_t v = (uint64_t)igv_strtoll(s, 0, 10);
            errno = 0;
            o.result = hexn(v, 16);
            uint64_t exp = ref_signed(p);
            if (exp != v) o.fail("atoll: expected " + hexn(exp, 16));
            uint64_t h = (uint64_t)atoll(s);
            if (h != v) o.fail("host glibc atoll: " + hexn(h, 16));
            if (p.conv) o.tag("atoll");
            return;
        }
        bool l = w[1] == "l";
        uint64_t v = l ? (uint64_t)igv_atol(s) : (uint64_t)(uint32_t)igv_atoi(s);
        o.result = hexn(v, l ? 16 : 8);
        if (!l && p.conv && (p.mag > (u128)INT_MAX + (p.neg ? 1 : 0)))
            o.result = "unrepresentable"; // ISO 7.22.1.2: undefined - the value is NOT part of the observable
        __int128 val = p.conv ? (p.neg ? -(__int128)p.mag : (__int128)p.mag) : 0;
        bool repr = l ? (val >= INT64_MIN && val <= INT64_MAX) : (val >= INT_MIN && val <= INT_MAX);
        if (repr)
        {
            uint64_t exp = l ? (uint64_t)(int64_t)val : (uint64_t)(uint32_t)(int32_t)val;
            if (exp != v) o.fail("ISO 7.22.1.2: expected " + hexn(exp, l ? 16 : 8));
            uint64_t h = l ? (uint64_t)atol(s) : (uint64_t)(uint32_t)atoi(s);
            if (h != v) o.fail("host glibc: " + hexn(h, l ? 16 : 8));
            if (p.conv) o.tag(l ? "atol" : "atoi");
            if (val == (l ? (__int128)INT64_MIN : (__int128)INT_MIN)) o.tag("min-exact");
            if (val == (l ? (__int128)INT64_MAX : (__int128)INT_MAX)) o.tag("max-exact");
        }
        else
        {
            // atoi beyond int but inside long: (int) of a long, implementation-defined;
            // glibc's atoi is (int) strtol(...) as well, gcc truncates on both sides
            if (!l && val >= INT64_MIN && val <= INT64_MAX)
            {
                // (not an oracle clause: the property cannot state anything about an undefined call)
                uint64_t h = (uint64_t)(uint32_t)atoi(s);
                o.tag(h == v ? "atoi-truncated-like-glibc" : "atoi-unrepresentable-differs-from-glibc");
            }
            o.tag("unrepresentable(undefined-in-ISO)");
        }
        return;
    }
    if (op == "rnd")
    {
        // rnd <seed> <n>   (round 3c: NOT compared with the model's LCG any more - the property says nothing
        // about the values of rand(); judged: what qsort relies on and what ISO 7.22.2 states)
        //   0 <= rand() <= RAND_MAX   (RAND_MAX of compat/libc/include/stdlib.h is INT_MAX; that header cannot
        //                              be included next to the host's, so INT_MAX stands for it)
        //   srand(s) makes the sequence reproducible: the same seed gives the same n values again
        // the compared result is a constant verdict word; "is the LCG rand.c documents" is a TAG
        unsigned sd0 = (unsigned)strtoul(w[1].c_str(), 0, 10);
        int n = atoi(w[2].c_str());
        std::vector<int> first;
        bool is_lcg = true;
        uint64_t ref = sd0;
        igv_srand(sd0);
        for (int i = 0; i < n; i++)
        {
            int x = igv_rand();
            if (x < 0 || (long long)x > (long long)INT_MAX) o.fail("rand(): call " + std::to_string(i + 1) + " after srand(" + w[1] + ") returned " + std::to_string(x) + ", outside [0, RAND_MAX] (qsort computes rand() % nmemb as the pivot index)");
            ref = lcg_ref(ref);
            if ((uint64_t)x != ref / 2) is_lcg = false;
            first.push_back(x);
        }
        igv_srand(sd0);
        for (int i = 0; i < n; i++)
        {
            int x = igv_rand();
            if (x != first[i])
            {
                o.fail("rand(): call " + std::to_string(i + 1) + " after a second srand(" + w[1] + ") returned " + std::to_string(x) + ", after the first srand(" + w[1] + ") it returned " + std::to_string(first[i]) + " (ISO 7.22.2.2: the same seed repeats the sequence)");
                break;
            }
        }
        o.result = "rand-contract";
        o.tag("rand");
        if (n) o.tag(is_lcg ? "rand-is-documented-lcg" : "rand-differs");
        return;
    }
    if (op == "rndr")
    {
        // rndr <seed> <n>: rand_r on the caller's seed (round 3c: values not compared, see rnd).  Judged:
        //   0 <= rand_r() <= RAND_MAX; the result and the new *seedp are a function of *seedp alone (a second
        //   run from the same seed value repeats both); rand_r writes only *seedp (guard words around the
        //   seed object stay intact) and leaves the state of rand() alone (the value rand() returns after
        //   srand(k) is the same with n rand_r calls in between)
        unsigned sd0 = (unsigned)strtoul(w[1].c_str(), 0, 10);
        int n = atoi(w[2].c_str());
        struct { unsigned lo[2]; unsigned sd; unsigned hi[2]; } g = {{0xa5a5a5a5u, 0x5a5a5a5au}, sd0, {0xc3c3c3c3u, 0x3c3c3c3cu}};
        bool is_lcg = true;
        uint64_t ref = sd0;
        igv_srand(0x51ed270bu ^ sd0);
        int plain = igv_rand();
        igv_srand(0x51ed270bu ^ sd0);
        std::vector<std::pair<int, unsigned>> first;
        for (int i = 0; i < n; i++)
        {
            int x = igv_rand_r(&g.sd);
            if (x < 0 || (long long)x > (long long)INT_MAX) o.fail("rand_r(): call " + std::to_string(i + 1) + " from the seed " + w[1] + " returned " + std::to_string(x) + ", outside [0, RAND_MAX]");
            ref = lcg_ref(ref);
            if ((uint64_t)x != ref / 2 || g.sd != ref) is_lcg = false;
            first.emplace_back(x, g.sd);
        }
        if (g.lo[0] != 0xa5a5a5a5u || g.lo[1] != 0x5a5a5a5au || g.hi[0] != 0xc3c3c3c3u || g.hi[1] != 0x3c3c3c3cu) o.fail("rand_r(&s) wrote outside *s");
        if (igv_rand() != plain) o.fail("rand_r() changed the state of rand(): the first rand() after srand() differs when rand_r calls are made in between");
        unsigned sd2 = sd0;
        for (int i = 0; i < n; i++)
        {
            int x = igv_rand_r(&sd2);
            if (x != first[i].first || sd2 != first[i].second)
            {
                o.fail("rand_r(): call " + std::to_string(i + 1) + " of a second run from the seed " + w[1] + " returned " + std::to_string(x) + " / left " + std::to_string(sd2) + ", the first run " + std::to_string(first[i].first) + " / " + std::to_string(first[i].second));
                break;
            }
        }
        o.result = "rand_r-contract";
        o.tag("rand_r");
        if (n) o.tag(is_lcg ? "rand_r-is-documented-lcg" : "rand_r-differs");
        return;
    }
    if (op == "ub" || op == "lb")
    {
        // ub|lb <esize> <cmpkind> <key> <k0,k1,...>   (array already ordered for cmpkind)
        bool up = op == "ub";
        unsigned esize = atoi(w[1].c_str());
        int kind = atoi(w[2].c_str());
        int key = atoi(w[3].c_str());
        std::vector<int> keys = ints(w[4]);
        size_t n = keys.size();
        exact_buf a(n * esize, n ? 0 : 16);
        for (size_t i = 0; i < n; i++) put_elem(a.p + i * esize, esize, keys[i], (unsigned)i);
        exact_buf kb(sizeof(int));
        memcpy(kb.p, &key, sizeof key);
        L = {kind, a.p, n, esize, kb.p, nullptr, "", 0, 0};
        const uint8_t *r = (const uint8_t *)(up ? igv_upper_bound : igv_lower_bound)(kb.p, a.p, n, esize, bs_compar);
        // header: lower_bound "Find the smallest element, greater or equals to
        // specified", upper_bound "... strictly greater than specified" = std::
        size_t exp = up ? (size_t)(std::upper_bound(keys.begin(), keys.end(), key, [&](int k, int el) { return cmp_keys(kind, k, el) < 0; }) - keys.begin())
                        : (size_t)(std::lower_bound(keys.begin(), keys.end(), key, [&](int el, int k) { return cmp_keys(kind, k, el) > 0; }) - keys.begin());
        long off = r - a.p;
        if (off < 0 || off > (long)(n * esize) || off % (long)esize != 0)
        {
            o.result = "outside(" + std::to_string(off) + ")";
            o.fail("returned pointer is outside [base, base + nmemb*size] (byte offset " + std::to_string(off) + ")");
        }
        else
        {
            size_t i = (size_t)off / esize;
            o.result = std::to_string(i);
            if (i != exp) o.fail(std::string(up ? "std::upper_bound" : "std::lower_bound") + " gives index " + std::to_string(exp) + ", got " + std::to_string(i));
        }
        if (!L.bad.empty()) o.fail(L.bad);
        if (n == 0) o.tag("empty");
        o.tag(exp == 0 ? "bound-first" : exp == n ? "bound-end" : "bound-inside");
        if (std::set<int>(keys.begin(), keys.end()).size() < n) o.tag("dups");
        if (n >= 8) o.tag("deep");
        return;
    }
    if (op == "qs" || op == "qsn")
    {
        // qs <esize> <cmpkind> <seed> <k0,k1,...>
        // qsn <esize> <cmpkind> <seed> <when> <what> <iesize> <ikeys> <fn> <base> <hextext> <k0,k1,...>: the comparator
        //     runs nested qsort / bsearch / strto* calls on other data (see nested_work)
        bool nest = op == "qsn";
        if (nest && (w.size() < 12 || !nested_setup(w, 4))) { o.result = "bad-op"; return; }
        unsigned esize = atoi(w[1].c_str());
        int kind = atoi(w[2].c_str());
        unsigned seed = (unsigned)strtoul(w[3].c_str(), 0, 10);
        std::vector<int> keys = ints(w[nest ? 11 : 4]);
        size_t n = keys.size();
        exact_buf a(n * esize);
        std::vector<bytes> orig;
        for (size_t i = 0; i < n; i++)
        {
            put_elem(a.p + i * esize, esize, keys[i], (unsigned)i);
            orig.emplace_back(a.p + i * esize, a.p + (i + 1) * esize);
        }
        L = {kind, a.p, n, esize, nullptr, &orig, "", 0, 0};
        const uint8_t *fp0 = (const uint8_t *)__builtin_frame_address(0);
        igv_srand(seed);
        igv_qsort(a.p, n, esize, nest ? qsn_compar : qs_compar);
        std::vector<bytes> now;
        std::vector<std::pair<int, int>> el;
        for (size_t i = 0; i < n; i++)
        {
            const uint8_t *e = a.p + i * esize;
            now.emplace_back(e, e + esize);
            el.emplace_back(e[0], esize > 1 ? e[1] : 0);
            if (!elem_intact(e, esize)) o.fail("element " + std::to_string(i) + " is a mixture of bytes of different elements");
        }
        // the property fixes the order of the comparator classes and the multiset, not the
        // arrangement inside a class: the result is the canonical form (runs of equal elements sorted)
        o.result = canon_runs(kind, el, esize > 1);
        if (!L.bad.empty()) o.fail(L.bad);
        if (nest) o.result += nested_finish(o);
        if (L.stack_lo && n >= 64 && (size_t)(fp0 - L.stack_lo) >= n * 96) o.tag("recursion-depth~nmemb");
        for (size_t i = 0; i + 1 < n; i++)
            if (cmp_keys(kind, now[i + 1][0], now[i][0]) < 0)
            {
                o.fail("not ordered at index " + std::to_string(i));
                break;
            }
        std::vector<bytes> s1 = orig, s2 = now;
        std::sort(s1.begin(), s1.end());
        std::sort(s2.begin(), s2.end());
        if (s1 != s2) o.fail("result is not a permutation of the input");
        if (n >= 4) o.tag("partition");
        else if (n >= 2) o.tag("network");
        if (n >= 16) o.tag("deep");
        if (std::set<int>(keys.begin(), keys.end()).size() < n) o.tag("dups");
        if (esize > 1 && esize != 4 && esize != 8) o.tag("odd-size");
        if (esize > 32) o.tag("size>32");
        if (kind >= 5) o.tag(kind == 5 ? "cmp-large-classes" : "cmp-partial-key");
        return;
    }
    if (op == "bs" || op == "bsa")
    {
        // bs <esize> <cmpkind> <key> <k0,k1,...>   (array already ordered for cmpkind)
        // bsa <esize> <cmpkind> <index> <k0,k1,...>: the key object IS element <index> of the array
        bool alias = op == "bsa";
        unsigned esize = atoi(w[1].c_str());
        int kind = atoi(w[2].c_str());
        int w3 = atoi(w[3].c_str());
        std::vector<int> keys = ints(w[4]);
        size_t n = keys.size();
        if (alias && (w3 < 0 || (size_t)w3 >= n)) { o.result = "bad-op"; return; }
        int key = alias ? keys[w3] : w3;
        // empty array: base is the one-past-the-end address of an allocation (a read of base[0] is
        // seen by ASan) or, for odd keys, the start of one (a read of base[-1] is seen)
        exact_buf a(n * esize, n || (key & 1) ? 0 : 16);
        for (size_t i = 0; i < n; i++) put_elem(a.p + i * esize, esize, keys[i], (unsigned)i);
        exact_buf kb(sizeof(int));
        memcpy(kb.p, &key, sizeof key);
        L = {kind, a.p, n, esize, kb.p, nullptr, "", 0, 0};
        const uint8_t *r;
        if (alias)
        {
            L.key = a.p + (size_t)w3 * esize;
            r = (const uint8_t *)igv_bsearch(L.key, a.p, n, esize, bsa_compar);
            o.tag("key-inside-array");
        }
        else
            r = (const uint8_t *)igv_bsearch(kb.p, a.p, n, esize, bs_compar);
        bool exists = false;
        for (size_t i = 0; i < n; i++)
            if (cmp_keys(kind, key, keys[i]) == 0) exists = true;
        if (!r)
        {
            o.result = "null";
            if (exists) o.fail("an element equal to the key exists but NULL was returned");
        }
        else if (!in_array(r))
        {
            o.result = "outside";
            o.fail("returned pointer is not an element of the array");
        }
        else
        {
            size_t i = (size_t)(r - a.p) / esize;
            // WHICH of several equal elements is returned is unspecified (ISO 7.22.5.1p4): the
            // result is the run of elements comparing equal to the key that contains the returned one
            size_t lo = i, hi = i;
            while (lo > 0 && cmp_keys(kind, key, keys[lo - 1]) == 0) lo--;
            while (hi + 1 < n && cmp_keys(kind, key, keys[hi + 1]) == 0) hi++;
            o.result = "found " + std::to_string(lo) + ".." + std::to_string(hi);
            if (cmp_keys(kind, key, keys[i]) != 0) o.fail("returned element does not compare equal to the key");
            if (hi > lo) o.tag("equal-run");
        }
        if (!L.bad.empty()) o.fail(L.bad);
        if (n == 0) o.tag("empty");
        o.tag(exists ? "present" : "absent");
        if (std::set<int>(keys.begin(), keys.end()).size() < n) o.tag("dups");
        if (n >= 8) o.tag("deep");
        return;
    }
    if (op == "bsn")
    {
        // bsn <esize> <cmpkind> <key> <when> <what> <iesize> <ikeys> <fn> <base> <hextext> <k0,k1,...>: bsearch, upper_bound and
        // lower_bound on one ordered array with a comparator that runs nested qsort / bsearch / strto* calls on other data
        if (w.size() < 12 || !nested_setup(w, 4)) { o.result = "bad-op"; return; }
        unsigned esize = atoi(w[1].c_str());
        int kind = atoi(w[2].c_str());
        int key = atoi(w[3].c_str());
        std::vector<int> keys = ints(w[11]);
        size_t n = keys.size();
        exact_buf a(n * esize, n || (key & 1) ? 0 : 16);
        for (size_t i = 0; i < n; i++) put_elem(a.p + i * esize, esize, keys[i], (unsigned)i);
        exact_buf kb(sizeof(int));
        memcpy(kb.p, &key, sizeof key);
        unsigned what = N.what;
        std::string res;
        for (int which = 0; which < 3; which++)
        {
            L = {kind, a.p, n, esize, kb.p, nullptr, "", 0, 0};
            N.calls = 0;
            N.what = what;
            const uint8_t *r = (const uint8_t *)(which == 0 ? igv_bsearch : which == 1 ? igv_upper_bound : igv_lower_bound)(kb.p, a.p, n, esize, bsn_compar);
            if (!L.bad.empty()) o.fail(L.bad);
            if (which == 0)
            {
                bool exists = false;
                for (size_t i = 0; i < n; i++)
                    if (cmp_keys(kind, key, keys[i]) == 0) exists = true;
                if (!r)
                {
                    res = "null";
                    if (exists) o.fail("an element equal to the key exists but NULL was returned");
                }
                else if (!in_array(r))
                {
                    res = "outside";
                    o.fail("returned pointer is not an element of the array");
                }
                else
                {
                    size_t i = (size_t)(r - a.p) / esize, lo = i, hi = i;
                    while (lo > 0 && cmp_keys(kind, key, keys[lo - 1]) == 0) lo--;
                    while (hi + 1 < n && cmp_keys(kind, key, keys[hi + 1]) == 0) hi++;
                    res = "found " + std::to_string(lo) + ".." + std::to_string(hi);
                    if (cmp_keys(kind, key, keys[i]) != 0) o.fail("returned element does not compare equal to the key");
                }
                o.tag(exists ? "present" : "absent");
            }
            else
            {
                bool up = which == 1;
                size_t exp = up ? (size_t)(std::upper_bound(keys.begin(), keys.end(), key, [&](int k, int el) { return cmp_keys(kind, k, el) < 0; }) - keys.begin())
                                : (size_t)(std::lower_bound(keys.begin(), keys.end(), key, [&](int el, int k) { return cmp_keys(kind, k, el) > 0; }) - keys.begin());
                long off = r - a.p;
                if (off < 0 || off > (long)(n * esize) || off % (long)esize != 0)
                {
                    res += " outside(" + std::to_string(off) + ")";
                    o.fail("returned pointer is outside [base, base + nmemb*size] (byte offset " + std::to_string(off) + ")");
                }
                else
                {
                    res += " " + std::to_string((size_t)off / esize);
                    if ((size_t)off / esize != exp) o.fail(std::string(up ? "std::upper_bound" : "std::lower_bound") + " gives index " + std::to_string(exp) + ", got " + std::to_string((size_t)off / esize));
                }
            }
        }
        o.result = res + nested_finish(o);
        return;
    }
    if (op == "qsg")
    {
        // qsg <esize> <cmpkind> <seed> <n> <shape> <m>: a generated array (qsg_key), big lengths
        unsigned esize = atoi(w[1].c_str());
        int kind = atoi(w[2].c_str());
        unsigned seed = (unsigned)strtoul(w[3].c_str(), 0, 10);
        size_t n = strtoul(w[4].c_str(), 0, 10);
        unsigned shape = atoi(w[5].c_str());
        uint64_t m = strtoul(w[6].c_str(), 0, 10);
        if (m == 0 || m > 256 || esize == 0) { o.result = "bad-op"; return; }
        if (n >= 100000) arm(15); // a long array is allowed more than the 3 s of CPU time of an ordinary op (unoptimised coverage build)
        exact_buf a(n * esize);
        for (size_t i = 0; i < n; i++) put_elem(a.p + i * esize, esize, (unsigned)qsg_key(shape, i, n, m, seed), (unsigned)(i & 255));
        bytes before(a.p, a.p + n * esize);
        auto order_of = [&](const uint8_t *d) {
            std::vector<uint32_t> ord(n);
            for (size_t i = 0; i < n; i++) ord[i] = (uint32_t)i;
            std::sort(ord.begin(), ord.end(), [&](uint32_t x, uint32_t y) { return memcmp(d + (size_t)x * esize, d + (size_t)y * esize, esize) < 0; });
            return ord;
        };
        std::vector<uint32_t> ord0 = order_of(before.data());
        L = {kind, a.p, n, esize, nullptr, nullptr, "", 0, 0};
        L.odata = before.data();
        L.oord = &ord0;
        igv_srand(seed);
        igv_qsort(a.p, n, esize, qs_compar);
        std::vector<int> k(n);
        bool mixed = false;
        for (size_t i = 0; i < n; i++)
        {
            const uint8_t *e = a.p + i * esize;
            k[i] = e[0];
            if (!elem_intact(e, esize)) mixed = true;
        }
        if (mixed) o.fail("an element is a mixture of bytes of different elements");
        if (!L.bad.empty()) o.fail(L.bad);
        for (size_t i = 0; i + 1 < n; i++)
            if (cmp_keys(kind, k[i + 1], k[i]) < 0)
            {
                o.fail("not ordered at index " + std::to_string(i));
                break;
            }
        o.result = std::to_string(n) + " " + canon_rle(kind, k);
        {
            std::vector<uint32_t> ord1 = order_of(a.p);
            for (size_t i = 0; i < n; i++)
                if (memcmp(before.data() + (size_t)ord0[i] * esize, a.p + (size_t)ord1[i] * esize, esize))
                {
                    o.fail("result is not a permutation of the input");
                    break;
                }
        }
        o.tag(n >= 300000 ? "nmemb>=300000" : n >= 65536 ? "nmemb>=65536" : n >= 256 ? "nmemb>=256" : "generated");
        if (n * esize >= 300 * 1024) o.tag("array>=300KiB");
        if (kind >= 5) o.tag(kind == 5 ? "cmp-large-classes" : "cmp-partial-key");
        return;
    }
    if (op == "qsr")
    {
        // qsr <esize> <seed> <kind,kind,...> <k0,k1,...>: ONE array sorted again and again with the
        // comparator changed between the calls (rand() keeps running), then searched with bsearch
        unsigned esize = atoi(w[1].c_str());
        unsigned seed = (unsigned)strtoul(w[2].c_str(), 0, 10);
        std::vector<int> kinds = ints(w[3]), keys = ints(w[4]);
        size_t n = keys.size();
        exact_buf a(n * esize);
        std::vector<bytes> orig;
        for (size_t i = 0; i < n; i++)
        {
            put_elem(a.p + i * esize, esize, keys[i], (unsigned)i);
            orig.emplace_back(a.p + i * esize, a.p + (i + 1) * esize);
        }
        std::vector<bytes> s1 = orig;
        std::sort(s1.begin(), s1.end());
        igv_srand(seed);
        std::string r;
        int kind = 0;
        for (int kd : kinds)
        {
            kind = kd;
            L = {kind, a.p, n, esize, nullptr, &orig, "", 0, 0};
            igv_qsort(a.p, n, esize, qs_compar);
            std::vector<bytes> now;
            std::vector<std::pair<int, int>> el;
            for (size_t i = 0; i < n; i++)
            {
                const uint8_t *e = a.p + i * esize;
                now.emplace_back(e, e + esize);
                el.emplace_back(e[0], esize > 1 ? e[1] : 0);
            }
            if (!L.bad.empty()) o.fail(L.bad);
            for (size_t i = 0; i + 1 < n; i++)
                if (cmp_keys(kind, now[i + 1][0], now[i][0]) < 0) { o.fail("call with comparator " + std::to_string(kind) + ": not ordered at index " + std::to_string(i)); break; }
            std::sort(now.begin(), now.end());
            if (now != s1) o.fail("call with comparator " + std::to_string(kind) + ": result is not a permutation of the input");
            r += (r.empty() ? "" : "|") + canon_runs(kind, el, esize > 1);
        }
        // bsearch on what the last qsort left (theorem bsearch_after_qsort): every key 0..max+1
        std::string f;
        int mx = 0;
        for (int k : keys) mx = std::max(mx, k);
        for (int key = 0; key <= mx + 1 && !kinds.empty(); key++)
        {
            exact_buf kb(sizeof(int));
            memcpy(kb.p, &key, sizeof key);
            L = {kind, a.p, n, esize, kb.p, nullptr, "", 0, 0};
            const uint8_t *q = (const uint8_t *)igv_bsearch(kb.p, a.p, n, esize, bs_compar);
            bool exists = false;
            for (int k : keys)
                if (cmp_keys(kind, key, k) == 0) exists = true;
            if (!L.bad.empty()) o.fail(L.bad);
            if (q && !in_array(q)) { o.fail("bsearch after qsort: pointer outside the array"); f += "?"; continue; }
            if ((q != 0) != exists) o.fail("bsearch after qsort: key " + std::to_string(key) + (exists ? " exists but NULL was returned" : " does not exist but an element was returned"));
            if (q && cmp_keys(kind, key, q[0]) != 0) o.fail("bsearch after qsort: returned element does not compare equal");
            f += q ? "y" : "n";
        }
        o.result = r + " " + (f.empty() ? "-" : f);
        o.tag("resorted-with-other-comparator");
        return;
    }
    if (op == "atL")
    {
        // atL <l|i|ll> <prefix> <unit> <count> <tail>: long text for atol / atoi / atoll (representable values)
        bytes t = unhex(w[2]), unit = unhex(w[3]), tail = unhex(w[5]);
        size_t cnt = strtoul(w[4].c_str(), 0, 10);
        for (size_t i = 0; i < cnt; i++) t.insert(t.end(), unit.begin(), unit.end());
        t.insert(t.end(), tail.begin(), tail.end());
        bytes z = t;
        z.push_back(0);
        exact_buf b(z);
        const char *s = (const char *)b.p;
        parsed p = ref_parse(t, 10);
        uint64_t v = w[1] == "l" ? (uint64_t)igv_atol(s) : w[1] == "i" ? (uint64_t)(int64_t)igv_atoi(s) : (uint64_t)igv_strtoll(s, 0, 10);
        errno = 0;
        o.result = hexn(v, 16);
        if (v != ref_signed(p)) o.fail("ISO 7.22.1.2: expected " + hexn(ref_signed(p), 16));
        o.tag(t.size() >= 300 * 1024 ? "text>=300KiB" : "text-long");
        return;
    }
    if (op == "stx")
    {
        // stx <fn> <base> <hextext>: a base outside {0, 2..36}.  ISO 7.22.1.4 does not define the call
        // (POSIX: EINVAL); nothing about the value is compared.  Observed: the call returns, reads
        // nothing outside the string (ASan), and an end pointer it stores lies inside the string.
        const std::string &fn = w[1];
        int base = atoi(w[2].c_str());
        bytes t = unhex(w[3]);
        bytes z = t;
        z.push_back(0);
        exact_buf b(z);
        const char *s = (const char *)b.p;
        char *end = (char *)s;
        errno = 0;
        if (fn == "l") igv_strtol(s, &end, base);
        else if (fn == "ul") igv_strtoul(s, &end, base);
        else if (fn == "ll") igv_strtoll(s, &end, base);
        else if (fn == "ull") igv_strtoull(s, &end, base);
        else if (fn == "imax") igv_strtoimax(s, &end, base);
        else if (fn == "umax") igv_strtoumax(s, &end, base);
        else if (fn == "q") call_strtoq(s, &end, base);
        else call_strtouq(s, &end, base);
        errno = 0;
        o.result = "returns";
        if (end < s || end > s + t.size()) o.fail("end pointer outside the string for base " + std::to_string(base));
        o.tag("base-outside-iso");
        return;
    }
    if (op == "consts")
    {
        // what the compiled code contains, against what the model embeds
        // round 3c: the probe of rand.c's state (is it the documented LCG on an unsigned state of >= 32 bits,
        // theorem rand_state_width_irrelevant) is a TAG, not part of the compared result: the property does
        // not fix the generator
        o.result = "ERANGE " + std::to_string(igv_erange()) + " EINVAL " + std::to_string(igv_einval());
        o.tag(rand_state_ge32u() ? "rand-is-documented-lcg" : "rand-differs");
        return;
    }
    if (op == "ctype")
    {
        // classification the shim was compiled with, for every value of a signed / unsigned char
        std::string r;
        for (int c = -128; c < 256; c++) r += hexn((uint64_t)igv_ctype_bits(c), 2);
        o.result = r;
        return;
    }
    if (op == "premain")
    {
        // first word: the tag about rand()'s initial state (round 3c: not compared)
        std::string pm = g_premain;
        size_t sp = pm.find(' ');
        if (pm.compare(0, 5, "rand-") == 0 && sp != std::string::npos)
        {
            o.tag(pm.compare(0, sp, "rand-is-documented-lcg") == 0 ? "rand-is-documented-lcg" : "rand-differs");
            pm = pm.substr(sp + 1);
        }
        o.result = pm;
        if (g_premain_bad) o.fail(g_premain_bad);
        o.tag("before-main");
        return;
    }
    o.result = "bad-op";
}

// (the generator is a translation unit of its own, harness/C11_gen.cpp: compiled in parallel)
void c11_gen(hv::rng &r, const std::string &tier);

int main(int argc, char **argv) { return main_(argc, argv, c11_gen, run_op); }
