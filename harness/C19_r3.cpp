// C19 harness, translation unit 3: round-3 ops and the pre-main runner (see C19_common.h)
#include "C19_common.h"
struct premain_runner
{
    std::vector<out> res;
    bool ran_before_main = false;
    premain_runner();
};
premain_runner::premain_runner()
{
    ran_before_main = !g_in_main;
    for (size_t k = 0; k < NPREMAIN; k++)
    {
        out o;
        run_op(words(PREMAIN[k]), PREMAIN[k], o);
        res.push_back(o);
    }
}


// ---------------------------------------------------------------- round 3 ops
#include <thread>
static premain_runner g_premain __attribute__((init_priority(102)));

static std::vector<std::vector<std::string>> split_calls(const std::vector<std::string> &w, size_t from)
{
    std::vector<std::vector<std::string>> r(1);
    for (size_t i = from; i < w.size(); i++)
        if (w[i] == "/")
            r.emplace_back();
        else
            r.back().push_back(w[i]);
    return r;
}

bool run_op3(const std::vector<std::string> &w, out &o)
{
    const std::string &op = w[0];
    if (op == "re")
    {
        // re <call> / <call> / ...   one case = ONE set of long-lived argument buffers at fixed
        // addresses; every call rewrites their contents.  A call that starts with @t runs on a
        // second thread.  Every call is judged on its own by the oracle of its routine; the model
        // treats the calls as independent.
        static arena A;
        A.rewind();
        str res;
        bool first = true;
        for (auto &c : split_calls(w, 1))
        {
            bool thr = !c.empty() && c[0] == "@t";
            std::vector<std::string> cw(c.begin() + (thr ? 1 : 0), c.end());
            out sub;
            if (cw.empty() || cw[0] == "re" || cw[0] == "long" || cw[0] == "premain")
                sub.result = "bad-op";
            else
            {
                A.rewind();
                g_arena = &A;
                if (thr)
                {
                    std::thread t([&]() { run_op(cw, "", sub); });
                    t.join();
                }
                else
                    run_op(cw, "", sub);
                g_arena = 0;
            }
            res += (first ? "" : " / ") + sub.result;
            first = false;
            if (sub.oracle != "ok")
                o.fail("call `" + cw[0] + "` of the case: " + sub.oracle.substr(5));
            add_tags(o, sub);
            if (thr) o.tag("re-second-thread");
        }
        o.result = res;
        o.tag("re-fixed-addresses");
        return true;
    }
    if (op == "long")
    {
        // long <count> <unit> <tail> <routine> <args, one of them "@">: "@" = unit x count + tail.
        // The result is the digest (length, FNV-1a) of the routine's result line.
        size_t count = strtoul(w[1].c_str(), 0, 10);
        str unit = U(w[2]), tail = U(w[3]), big;
        big.reserve(unit.size() * count + tail.size());
        for (size_t i = 0; i < count; i++)
            big += unit;
        big += tail;
        std::vector<std::string> cw(w.begin() + 4, w.end());
        for (auto &x : cw)
            if (x == "@")
                x = H(big);
        out sub;
        if (cw.empty() || cw[0] == "re" || cw[0] == "long" || cw[0] == "premain")
            sub.result = "bad-op";
        else
            run_op(cw, "", sub);
        o.result = digest(sub.result);
        o.oracle = sub.oracle;
        o.tags = sub.tags;
        o.tag(big.size() >= 300 * 1024 ? "long-300KiB" : big.size() >= 65536 ? "long-64KiB" : "long");
        return true;
    }
    if (op == "premain")
    {
        // premain <k> <op>: the result the k-th op gave when it ran BEFORE main()
        size_t k = strtoul(w[1].c_str(), 0, 10);
        str line;
        for (size_t i = 2; i < w.size(); i++)
            line += (i > 2 ? " " : "") + w[i];
        if (k >= NPREMAIN || line != PREMAIN[k])
        {
            o.result = "bad-op";
            return true;
        }
        const out &pre = g_premain.res[k];
        o.result = pre.result;
        o.oracle = pre.oracle;
        o.tags = pre.tags;
        if (!g_premain.ran_before_main)
            o.fail("the pre-main runner did not run before main");
        out now;
        run_op(words(line), line, now);
        if (now.result != pre.result)
            o.fail("before main(): " + pre.result + ", inside main(): " + now.result);
        o.tag("premain");
        return true;
    }
    if (op == "consts")
    {
        // constants and widths the model embeds, read out of the compiled code
        auto argc_of = [&](bool r) {
            names_keeper nk;
            g_called = -1;
            g_argc = 0;
            g_args.clear();
            int ret = 0;
            xbuf line(cz("a b c d e f g h i j k l m n"));
            if (r)
            {
                rshell_command t[2] = {{nk.add("a"), RH[0], 0}, {0, 0, 0}};
                xbuf ob(4, 0);
                rshell_execute(line.p, t, &ret, 0, ob.p, 4);
            }
            else
            {
                mshell_command t[2] = {{nk.add("a"), MH[0], 0}, {0, 0, 0}};
                mshell_execute(line.p, t, &ret);
            }
            return g_argc;
        };
        plen_t plen = 0;
        o.result = "argcmax_m=" + std::to_string(argc_of(false)) + " argcmax_r=" + std::to_string(argc_of(true)) + " enoent=" + std::to_string(ENOENT) +
                   " ok=" + std::to_string(SSHELL_OK) + " plen=" + std::to_string(std::min<size_t>(sizeof(plen) * 8, 32)) + " size_t=" + std::to_string(sizeof(size_t) * 8) +
                   " bufsize=" + std::to_string(sizeof(decltype(igris::buffer().size())) * 8) + " int=" + std::to_string(sizeof(int) * 8) +
                   " char_signed=" + std::to_string((int)((char)0x80 < 0)) + " isprint=";
        // the isprint table dstring relies on, as a 256-bit set
        str bits;
        for (int c = 0; c < 256; c += 8)
        {
            int b = 0;
            for (int k = 0; k < 8; k++)
                if (isprint((int)(char)(c + k)) )
                    b |= 1 << k;
            bits.push_back((char)b);
        }
        o.result += H(bits);
        static_assert(std::is_convertible<decltype(path_next((const char *)0, &plen)), const char *>::value, "path_next returns a pointer into the path");
        o.tag(("plen-bits-" + std::to_string(sizeof(plen) * 8)).c_str());
        o.tag("consts");
        return true;
    }
    if (op == "rsubip")
    {
        // rsubip <block> <inlen> <sub> <rep>: replace_substrings IN PLACE, buffer == input ==
        // a block of <block> bytes (maxsize = block) whose first <inlen> bytes are the input.
        // Only for replen == sublen (or no occurrence): then every memcpy has dst == src.
        str blk = U(w[1]);
        size_t inlen = strtoul(w[2].c_str(), 0, 10);
        str a = U(w[3]), b = U(w[4]);
        xbuf m(blk), sub(a), rep(b);
        str in = blk.substr(0, inlen);
        replace_substrings(m.p, m.n, m.p, inlen, sub.p, sub.n, rep.p, rep.n);
        str got = m.get();
        o.result = H(got);
        str full = ref_replace(in, a, b);
        str want = full.substr(0, std::min(full.size(), blk.size() - 1)) + str(1, '\0');
        if (want.size() < blk.size())
            want += blk.substr(want.size());
        if (got != want)
            o.fail("in-place replace_substrings " + H(got) + " != substitution + NUL, rest of the block untouched " + H(want));
        o.tag(full == in ? "rsubip-no-hit" : "rsubip-hit");
        if (full.size() + 1 > blk.size()) o.tag("rsubip-truncated");
        return true;
    }
    return false;
}

