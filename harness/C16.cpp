// C16 harness: igris::timer_manager (igris/time/timer_manager.h) and the flag
// style stimer (igris/datastruct/stimer.c) against the Lean model IgrisModel/C16.
//
// Op lines (a case starts with `reset`):
//   reset <n>                 fresh manager with timers 0..n-1 (heap objects)
//   plan  <i> <start> <iv>    manager.plan(timer i, start, iv)
//   plan1 <i> <start> <iv>    timer i .set_start/.set_interval ; manager.plan(timer i)
//   unplan <i>                timer i .unplan()
//   exec <now> <rules>        manager.exec(now); the delegates execute the scripted rules
//        rules = "-" | rule;rule;...   rule = <id|*>@<k|*>:<act>,<act>...
//        the k-th callback (0-based, counted over this exec) running for timer id performs
//        the acts of every matching rule in order:  u<j> = timer j .unplan()
//                                                   p<j>.<start>.<iv> = manager.plan(timer j, start, iv)
//   q <now>                   only query the observables at time now
//   qmin <now>                minimal_interval(now) called unconditionally (normal stream: only when
//                             a timer is planned; on an empty manager: @F:C16-minimal-interval-empty)
//   reset s / sinit a b / splan a b / sstart a / sswift / sfinish / scheck t / speriodic t   (stimer)
//
// result  = "f=<id>:<deadline>,... t=<finish>/<is_planned>,... e=<empty> m=<minimal_interval|->"
// oracle  = an independent reference scheduler (map id -> (deadline, period) + multiset of
//           deadlines) that never looks at the manager's list: every callback must be the
//           reference's earliest pending deadline, not early, the re-arm rule is applied on
//           the reference, and is_planned / finish / empty / minimal_interval must agree.
#include "common/hv.h"
#include <igris/time/timer_manager.h>
#include <igris/datastruct/stimer.h>
#include <map>
#include <set>
#include <memory>
#include <algorithm>

typedef int64_t i64;
// view of hv::out whose tag() records each marker once per op line
struct out
{
    hv::out &b;
    std::string &result;
    explicit out(hv::out &x) : b(x), result(x.result) {}
    void fail(const std::string &why) { b.fail(why); }
    void tag(const char *t)
    {
        std::string x = "," + b.tags + ",";
        if (x.find("," + std::string(t) + ",") == std::string::npos) b.tag(t);
    }
};

static_assert(sizeof(long) == 8, "LP64 assumed by the stimer model");
static_assert(std::is_same<igris::timer_spec<int64_t>::difftime_t, int64_t>::value, "difftime_t is int64_t");

// ---------------------------------------------------------------------------
// scripted callbacks
// ---------------------------------------------------------------------------
struct act
{
    char kind; // 'u' | 'p'
    int j;
    i64 s, iv;
};
struct rule
{
    int id, k; // -1 = any
    std::vector<act> acts;
};

static std::vector<std::string> split(const std::string &s, char c)
{
    std::vector<std::string> v;
    size_t b = 0;
    for (;;)
    {
        size_t e = s.find(c, b);
        if (e == std::string::npos) { v.push_back(s.substr(b)); break; }
        v.push_back(s.substr(b, e - b));
        b = e + 1;
    }
    return v;
}
static std::vector<rule> parse_rules(const std::string &s)
{
    std::vector<rule> rs;
    if (s == "-") return rs;
    for (auto &r : split(s, ';'))
    {
        auto sa = split(r, ':');
        auto ik = split(sa[0], '@');
        rule x;
        x.id = ik[0] == "*" ? -1 : atoi(ik[0].c_str());
        x.k = ik[1] == "*" ? -1 : atoi(ik[1].c_str());
        if (sa.size() > 1 && !sa[1].empty())
            for (auto &a : split(sa[1], ','))
            {
                act t{a[0], 0, 0, 0};
                if (a[0] == 'u') t.j = atoi(a.c_str() + 1);
                else
                {
                    auto f = split(a.substr(1), '.');
                    t.j = atoi(f[0].c_str());
                    t.s = strtoll(f[1].c_str(), 0, 10);
                    t.iv = strtoll(f[2].c_str(), 0, 10);
                }
                x.acts.push_back(t);
            }
        rs.push_back(x);
    }
    return rs;
}

// ---------------------------------------------------------------------------
// reference scheduler: pending set as id -> (deadline, period); a multiset of
// deadlines gives "earliest".  Written from the property text, not from the code.
// ---------------------------------------------------------------------------
struct refsched
{
    std::map<int, std::pair<i64, i64>> pend;
    std::multiset<i64> dl;
    void unplan(int j)
    {
        auto it = pend.find(j);
        if (it == pend.end()) return;
        dl.erase(dl.find(it->second.first));
        pend.erase(it);
    }
    void plan(int j, i64 s, i64 iv)
    {
        unplan(j);
        pend[j] = {s + iv, iv};
        dl.insert(s + iv);
    }
    bool pending(int j) const { return pend.count(j) != 0; }
    bool empty() const { return dl.empty(); }
    i64 earliest() const { return *dl.begin(); }
};

// ---------------------------------------------------------------------------
// the case under test
// ---------------------------------------------------------------------------
struct world
{
    igris::timer_manager *mgr = nullptr;
    std::vector<igris::timer<int> *> tim;
    refsched ref;
    i64 cur = 0;
    // per exec
    std::vector<rule> rules;
    i64 now = 0;
    int k = 0;
    std::vector<std::pair<int, i64>> fires;
    std::set<int> planned_by_prev; // timers planned by the previous callback
    std::set<int> touched;         // timers targeted by any callback action in this exec
    i64 prev_deadline = 0;
    out *o = nullptr;
    bool in_exec = false;
    bool fires_seen = false; // an exec has happened in this case
};
static world W;

static void on_fire(int id)
{
    world &w = W;
    out &o = *w.o;
    igris::timer<int> &t = *w.tim[id];
    i64 d = t.finish();
    if (w.fires.size() < 100000) w.fires.push_back({id, d});
    // ---- oracle, on the real callback ----
    if (syslock_counter() != 0) o.fail("callback runs with the system lock held");
    if (!t.is_planned()) o.fail("callback of a timer that is not planned");
    if (d > w.now) o.fail("callback before the deadline: timer " + std::to_string(id));
    if (!w.ref.pending(id)) o.fail("callback of a timer the reference does not have pending: timer " + std::to_string(id));
    else
    {
        if (w.ref.pend[id].first != d) o.fail("deadline at callback differs from the reference deadline: timer " + std::to_string(id));
        if (w.ref.earliest() != w.ref.pend[id].first) o.fail("callback is not the earliest pending deadline: timer " + std::to_string(id));
    }
    if (w.k > 0 && d < w.prev_deadline && !w.planned_by_prev.count(id))
        o.fail("callbacks out of deadline order although the previous callback did not plan this timer");
    // ---- scripted actions, on the real manager and on the reference ----
    auto before = w.ref.pending(id) ? w.ref.pend[id] : std::make_pair((i64)0, (i64)0);
    bool was_pending = w.ref.pending(id);
    w.planned_by_prev.clear();
    for (auto &r : w.rules)
    {
        if ((r.id != -1 && r.id != id) || (r.k != -1 && r.k != w.k)) continue;
        for (auto &a : r.acts)
        {
            if (a.j < 0 || a.j >= (int)w.tim.size()) continue;
            w.touched.insert(a.j);
            if (a.kind == 'u')
            {
                w.tim[a.j]->unplan();
                w.ref.unplan(a.j);
                o.tag(a.j == id ? "cb-unplan-self" : "cb-unplan-other");
            }
            else
            {
                w.mgr->plan(*w.tim[a.j], a.s, a.iv);
                w.ref.plan(a.j, a.s, a.iv);
                w.planned_by_prev.insert(a.j);
                o.tag(a.j == id ? "cb-plan-self" : "cb-plan-other");
                if (a.s + a.iv <= w.now) o.tag("cb-plan-past");
                if (a.s + a.iv < d) o.tag("cb-plan-before-own-deadline");
            }
        }
    }
    // reference re-arm: still pending and not re-planned by its own callback -> one period later
    if (was_pending && w.ref.pending(id) && w.ref.pend[id] == before)
        w.ref.plan(id, before.first, before.second);
    w.prev_deadline = d;
    w.k++;
}

static void drop_world()
{
    for (auto *t : W.tim) delete t;
    W.tim.clear();
    delete W.mgr;
    W.mgr = nullptr;
    W.ref = refsched();
    W.cur = 0;
    W.fires_seen = false;
}

static std::string summary(out &o)
{
    world &w = W;
    std::string s = "t=";
    bool any = false;
    for (size_t i = 0; i < w.tim.size(); i++)
    {
        bool p = w.tim[i]->is_planned();
        i64 f = w.tim[i]->finish();
        if (i) s += ",";
        s += std::to_string(f) + "/" + (p ? "1" : "0");
        any |= p;
        // pending set equals the reference's
        if (p != w.ref.pending((int)i)) o.fail("is_planned differs from the reference pending set: timer " + std::to_string(i));
        else if (p && w.ref.pend[(int)i].first != f) o.fail("deadline differs from the reference: timer " + std::to_string(i));
    }
    bool e = w.mgr->empty();
    if (e != w.ref.empty()) o.fail("empty() differs from the reference");
    if (e == any) o.fail("empty() inconsistent with is_planned()");
    s += std::string(" e=") + (e ? "1" : "0") + " m=";
    if (e) s += "-"; // minimal_interval() on an empty manager is outside the property (reads the list head as a timer)
    else
    {
        i64 m = w.mgr->minimal_interval(w.cur);
        s += std::to_string(m);
        if (!w.ref.empty() && m != w.ref.earliest() - w.cur) o.fail("minimal_interval differs from the reference's time to the next deadline");
    }
    if (syslock_counter() != 0) o.fail("system lock count is not 0 after the call");
    return s;
}

static struct stimer_head ST;

static std::string show_st()
{
    return std::to_string(ST.start) + " " + std::to_string(ST.interval) + " " + std::to_string(ST.planed);
}

static void run_op(const std::vector<std::string> &w, const std::string &, hv::out &o_)
{
    out o(o_);
    world &W_ = W;
    const std::string &op = w[0];
    auto I = [&](size_t k) { return (i64)strtoll(w[k].c_str(), 0, 10); };
    if (op == "reset")
    {
        drop_world();
        if (w[1] == "s")
        {
            memset(&ST, 0, sizeof ST);
            o.result = "ok";
            return;
        }
        int n = atoi(w[1].c_str());
        W_.mgr = new igris::timer_manager;
        for (int i = 0; i < n; i++)
            W_.tim.push_back(new igris::timer<int>(igris::make_delegate(on_fire), (int)i));
        o.result = "ok";
        return;
    }
    W_.o = &o;
    if (op == "plan" || op == "plan1")
    {
        int i = (int)I(1);
        if (W_.tim[i]->is_planned()) o.tag("plan-while-planned");
        for (size_t j = 0; j < W_.tim.size(); j++)
            if ((int)j != i && W_.tim[j]->is_planned() && W_.tim[j]->finish() == I(2) + I(3)) { o.tag("plan-tie"); break; }
        if (op == "plan") W_.mgr->plan(*W_.tim[i], I(2), I(3));
        else
        {
            W_.tim[i]->set_start(I(2));
            W_.tim[i]->set_interval(I(3));
            W_.mgr->plan(*W_.tim[i]);
            o.tag("plan-1arg");
        }
        W_.ref.plan(i, I(2), I(3));
        o.result = summary(o);
        return;
    }
    if (op == "unplan")
    {
        int i = (int)I(1);
        o.tag(W_.tim[i]->is_planned() ? "unplan-planned" : "unplan-unplanned");
        W_.tim[i]->unplan();
        W_.ref.unplan(i);
        o.result = summary(o);
        return;
    }
    if (op == "qmin")
    {
        // minimal_interval() called unconditionally (finding C16-minimal-interval-empty: on an
        // empty manager the code reads start/interval through the list head; ASan aborts here)
        W_.cur = I(1);
        bool e = W_.mgr->empty();
        i64 m = W_.mgr->minimal_interval(W_.cur);
        o.result = e ? "fault" : std::to_string(m);
        if (e) o.fail("minimal_interval() on an empty manager returned " + std::to_string(m) + " (no next deadline exists)");
        else if (m != W_.ref.earliest() - W_.cur) o.fail("minimal_interval differs from the reference's time to the next deadline");
        o.tag(e ? "qmin-empty" : "qmin");
        return;
    }
    if (op == "q")
    {
        W_.cur = I(1);
        o.result = summary(o);
        return;
    }
    if (op == "exec")
    {
        i64 now = I(1);
        if (W_.fires_seen && now == W_.now) o.tag("exec-same-time");
        W_.fires_seen = true;
        W_.now = now;
        W_.cur = now;
        W_.rules = parse_rules(w[2]);
        W_.k = 0;
        W_.fires.clear();
        W_.planned_by_prev.clear();
        W_.touched.clear();
        // snapshot for the direct catch-up check
        auto before = W_.ref.pend;
        {
            std::set<i64> ds;
            size_t due = 0;
            for (auto &p : before)
                if (p.second.first <= now) { due++; ds.insert(p.second.first); }
            if (due > ds.size()) o.tag("tie-among-due");
            if (due >= 2) o.tag("several-due");
        }
        W_.in_exec = true;
        W_.mgr->exec(now);
        W_.in_exec = false;
        std::string f;
        for (auto &x : W_.fires)
        {
            if (!f.empty()) f += ",";
            f += std::to_string(x.first) + ":" + std::to_string(x.second);
        }
        if (f.empty()) f = "-";
        // ---- oracle after exec, directly on the real objects ----
        for (size_t i = 0; i < W_.tim.size(); i++)
            if (W_.tim[i]->is_planned() && W_.tim[i]->finish() <= now)
                o.fail("a planned timer whose deadline has passed did not run: timer " + std::to_string(i));
        if (!W_.ref.empty() && W_.ref.earliest() <= now) o.fail("reference still has a due timer after exec");
        // timers no callback touched: exactly one firing per elapsed period, no drift
        for (auto &p : before)
        {
            int id = p.first;
            i64 d = p.second.first, iv = p.second.second;
            std::vector<i64> got;
            for (auto &x : W_.fires)
                if (x.first == id) got.push_back(x.second);
            if (W_.touched.count(id)) continue;
            i64 want = d <= now ? (now - d) / iv + 1 : 0;
            if ((i64)got.size() != want) o.fail("timer " + std::to_string(id) + " fired " + std::to_string(got.size()) + " times, elapsed periods " + std::to_string(want));
            for (size_t k = 0; k < got.size(); k++)
                if (got[k] != d + (i64)k * iv) { o.fail("drift: firing deadline is not start + k*interval: timer " + std::to_string(id)); break; }
            if (!W_.tim[id]->is_planned() || W_.tim[id]->finish() != d + want * iv) o.fail("re-arm: deadline is not previous deadline + interval: timer " + std::to_string(id));
            if (want >= 2) o.tag("catch-up");
            if (want >= 10) o.tag("long-gap");
        }
        for (size_t i = 0; i < W_.tim.size(); i++)
            if (!before.count((int)i) && !W_.touched.count((int)i))
                for (auto &x : W_.fires)
                    if (x.first == (int)i) { o.fail("an unplanned timer fired: timer " + std::to_string(i)); break; }
        if (W_.fires.empty()) o.tag("nothing-due");
        else o.tag("fired");
        if (W_.fires.size() >= 2) o.tag("multi-fire");
        o.result = "f=" + f + " " + summary(o);
        return;
    }
    // ---------------- stimer ----------------
    if (op == "sinit") { stimer_init(&ST, I(1), I(2)); o.result = show_st(); o.tag("stimer"); return; }
    if (op == "splan") { stimer_plan(&ST, I(1), I(2)); o.result = show_st(); o.tag("stimer"); return; }
    if (op == "sstart") { stimer_start(&ST, I(1)); o.result = show_st(); o.tag("stimer"); return; }
    if (op == "sswift") { stimer_swift(&ST); o.result = show_st(); o.tag("stimer"); return; }
    if (op == "sfinish")
    {
        unsigned long f = stimer_finish(&ST);
        o.result = std::to_string(f);
        if ((unsigned long)((__int128)ST.start + ST.interval) != f) o.fail("stimer_finish != start + interval");
        o.tag("stimer");
        return;
    }
    if (op == "scheck")
    {
        int c = stimer_check(&ST, I(1));
        o.result = c ? "1" : "0";
        bool due = ST.planed && (__int128)I(1) >= (__int128)ST.start + ST.interval;
        if ((c != 0) != due) o.fail("stimer_check differs from planned && now >= start + interval");
        o.tag(c ? "stimer-due" : (ST.planed ? "stimer-not-due" : "stimer-unplanned"));
        return;
    }
    if (op == "speriodic")
    {
        struct stimer_head b = ST;
        bool fired = false;
        STIMER_PERIODIC(&ST, I(1)) { fired = true; }
        bool due = b.planed && (__int128)I(1) >= (__int128)b.start + b.interval;
        if (fired != due) o.fail("STIMER_PERIODIC body ran although not due (or did not run although due)");
        if (fired && (ST.start + ST.interval != b.start + 2 * b.interval || ST.interval != b.interval || !ST.planed))
            o.fail("STIMER_PERIODIC re-arm is not previous deadline + interval");
        if (!fired && (ST.start != b.start || ST.interval != b.interval || ST.planed != b.planed)) o.fail("STIMER_PERIODIC changed a timer that is not due");
        o.result = std::string(fired ? "1 " : "0 ") + show_st();
        o.tag(fired ? "stimer-periodic-fired" : "stimer-periodic-idle");
        return;
    }
    o.result = "bad-op";
    o.fail("unknown op");
}

// ---------------------------------------------------------------------------
// generator
// ---------------------------------------------------------------------------
static void emit(const std::string &s) { puts(s.c_str()); }
static std::string S(i64 v) { return std::to_string(v); }

// the directed cases every run starts with
static void gen_directed()
{
    // the library's own scenario shape: two periodic timers, one stops itself
    emit("reset 2");
    emit("plan 0 0 1000");
    emit("plan 1 0 2000");
    emit("exec 1001 -");
    emit("exec 2001 -");
    emit("exec 3001 -");
    emit("unplan 0");
    emit("exec 4001 1@*:u1");
    emit("plan1 0 6001 1000");
    emit("exec 8001 -");
    // equal deadlines, FIFO among ties, catch-up across many periods
    emit("reset 3");
    emit("plan 0 0 3");
    emit("plan 1 0 3");
    emit("plan 2 1 2");
    emit("exec 10 -");
    emit("exec 12 0@*:p0.12.5");      // a callback re-plans itself
    emit("exec 13 1@*:u1;2@*:u2");    // callbacks unplan themselves
    emit("exec 40 0@0:u0,p0.40.1");
    // callbacks acting on other timers
    emit("reset 4");
    emit("plan 0 0 2");
    emit("plan 1 0 4");
    emit("plan 2 0 4");
    emit("plan 3 5 5");
    emit("exec 4 0@0:u1;2@*:p1.4.1,p3.0.1");
    emit("exec 4 -");
    emit("exec 11 *@2:p0.3.2");       // re-plan into the past from the third callback
    emit("q 20");
    // unplanned timers never fire, empty manager
    emit("reset 2");
    emit("exec 100 -");
    emit("plan 0 5 5");
    emit("unplan 0");
    emit("unplan 0");
    emit("exec 100 -");
    emit("plan 1 1000000000000 7");
    emit("exec 1000000000006 -");
    emit("exec 1000000000007 -");
    emit("exec 1000000000700 1@99:u1");
    emit("qmin 1000000000700");
    // recorded finding: minimal_interval() on an empty manager (each probe ends its case: ASan abort)
    emit("reset 1");
    emit("@F:C16-minimal-interval-empty qmin 5");
    emit("reset 2");
    emit("plan 0 1 1");
    emit("unplan 0");
    emit("@F:C16-minimal-interval-empty qmin 0");
}

static std::string gen_rules(hv::rng &r, int n, i64 now, const std::vector<i64> &ivs)
{
    if (r.chance(45)) return "-";
    std::string s;
    int nr = (int)r.range(1, 3);
    for (int q = 0; q < nr; q++)
    {
        bool anyk = r.chance(55);
        std::string sel = (r.chance(25) ? std::string("*") : S(r.below(n))) + "@" + (anyk ? std::string("*") : S(r.below(4)));
        std::string acts;
        int na = (int)r.range(1, 2);
        for (int a = 0; a < na; a++)
        {
            if (!acts.empty()) acts += ",";
            int j = (int)r.below(n);
            if (r.chance(35)) acts += "u" + S(j);
            else
            {
                i64 iv = r.pick(ivs);
                i64 st;
                if (!anyk && r.chance(40)) st = now - iv - (i64)r.below(7); // into the past: only from a single callback
                else st = now - iv + 1 + (i64)r.below(6);                    // deadline strictly after now
                acts += "p" + S(j) + "." + S(st) + "." + S(iv);
            }
        }
        if (!s.empty()) s += ";";
        s += sel + ":" + acts;
    }
    return s;
}

static void gen_random_case(hv::rng &r, bool big)
{
    int n = (int)r.range(1, 6);
    emit("reset " + S(n));
    static const std::vector<i64> bases = {0, 0, 0, 1000000000000LL, -1000, 4611686018427387LL};
    i64 base = big ? r.pick(bases) : 0;
    std::vector<i64> ivs = {1, 1, 2, 2, 3, 5, 7, 10, 100};
    std::vector<i64> steps = {0, 0, 1, 1, 2, 2, 3, 7, 7, 50, 1000};
    if (!big) { ivs = {1, 2, 3, 5}; steps = {0, 1, 2, 7}; }
    i64 now = base;
    std::vector<i64> lastfin(n, base);
    int len = (int)r.range(4, 28);
    for (int q = 0; q < len; q++)
    {
        unsigned c = (unsigned)r.below(100);
        if (c < 38 || q < 2)
        {
            int i = (int)r.below(n);
            i64 iv = r.pick(ivs);
            i64 st;
            unsigned m = (unsigned)r.below(100);
            if (m < 40) st = now + r.range(-3, 3);
            else if (m < 65) st = lastfin[r.below(n)] - iv; // same deadline as another timer
            else if (m < 80) st = now;
            else st = now - (i64)r.below(40);
            lastfin[i] = st + iv;
            emit(std::string(r.chance(12) ? "plan1 " : "plan ") + S(i) + " " + S(st) + " " + S(iv));
        }
        else if (c < 50) emit("unplan " + S(r.below(n)));
        else if (c < 94)
        {
            now += r.pick(steps);
            emit("exec " + S(now) + " " + gen_rules(r, n, now, ivs));
        }
        else emit("q " + S(now + r.range(0, 3)));
    }
}

// 3 timers, starts/intervals from {1,2,3,5} (or unplanned), steps from {0,1,2,7}
static void gen_exhaustive_configs(hv::rng &r, bool thorough)
{
    static const i64 V[4] = {1, 2, 3, 5};
    static const i64 ST[4] = {0, 1, 2, 7};
    for (int c0 = 0; c0 < 17; c0++)
        for (int c1 = 0; c1 < 17; c1++)
            for (int c2 = 0; c2 < 17; c2++)
            {
                int cs[3] = {c0, c1, c2};
                int nseq = thorough ? 16 : 1;
                for (int sq = 0; sq < nseq; sq++)
                {
                    emit("reset 3");
                    for (int i = 0; i < 3; i++)
                        if (cs[i] < 16) emit("plan " + S(i) + " " + S(V[cs[i] / 4]) + " " + S(V[cs[i] % 4]));
                    i64 now = 0;
                    int a = thorough ? sq / 4 : (int)r.below(4), b = thorough ? sq % 4 : (int)r.below(4);
                    // first exec somewhere in 1..8 so that some timers are due and some not
                    now = 1 + ST[a];
                    emit("exec " + S(now) + " -");
                    now += ST[b];
                    emit("exec " + S(now) + " -");
                    now += ST[(a + b + sq) % 4] + (thorough ? 0 : (i64)r.below(2) * 7);
                    emit("exec " + S(now) + " -");
                }
            }
}

// every pair of callback scripts for timers 0 and 1 over small configurations
static void gen_exhaustive_callbacks(hv::rng &r, bool thorough)
{
    static const i64 V[3] = {1, 2, 3};
    static const i64 NOWS[3] = {2, 3, 7};
    int nv = thorough ? 3 : 2;
    for (int c = 0; c < nv * nv * nv * nv; c++)
    {
        i64 s0 = V[c % nv], i0 = V[c / nv % nv], s1 = V[c / nv / nv % nv], i1 = V[c / nv / nv / nv % nv];
        for (int ni = 0; ni < 3; ni++)
        {
            i64 now = NOWS[ni];
            // scripts for the callback of timer x acting on itself / on y / on timer 2 at time t
            auto scripts = [&](int x, int y, i64 t) {
                std::vector<std::string> v;
                std::string X = S(x), Y = S(y);
                v.push_back("");
                v.push_back(X + "@*:u" + X);
                v.push_back(X + "@*:u" + Y);
                v.push_back(X + "@*:p" + X + "." + S(t) + ".1");
                v.push_back(X + "@*:p" + X + "." + S(t - 1) + ".3");
                v.push_back(X + "@*:p" + Y + "." + S(t) + ".2");
                v.push_back(X + "@*:p2." + S(t - 1) + ".2");
                v.push_back(X + "@*:u" + X + ",p" + X + "." + S(t) + ".2");
                v.push_back(X + "@*:p" + X + "." + S(t) + ".2,u" + X);
                v.push_back("*@1:p" + X + "." + S(t - 2) + ".1"); // second callback re-plans x into the past
                v.push_back("*@0:p" + Y + ".0.1");                  // first callback plans y far into the past
                v.push_back(X + "@0:p" + X + "." + S(s0) + "." + S(i0)); // re-plan with (possibly) identical values
                return v;
            };
            auto join = [](const std::string &a, const std::string &b) {
                std::string rs = a;
                if (!b.empty()) rs += (rs.empty() ? "" : ";") + b;
                return rs.empty() ? std::string("-") : rs;
            };
            auto A = scripts(0, 1, now), B = scripts(1, 0, now);
            auto A2 = scripts(0, 1, now + 7), B2 = scripts(1, 0, now + 7);
            for (size_t a = 0; a < A.size(); a++)
                for (size_t b = 0; b < B.size(); b++)
                {
                    if (!thorough && !r.chance(50)) continue;
                    emit("reset 3");
                    emit("plan 0 " + S(s0) + " " + S(i0));
                    emit("plan 1 " + S(s1) + " " + S(i1));
                    emit("plan 2 1 5");
                    emit("exec " + S(now) + " " + join(A[a], B[b]));
                    emit("exec " + S(now + 1) + " -");
                    emit("exec " + S(now + 7) + " " + join(A2[a], B2[b]));
                }
        }
    }
}

static void gen_stimer(hv::rng &r, int cases)
{
    static const std::vector<i64> vals = {0, 1, 2, 3, 5, 7, 10, 100, -1, -5, 1000000000000LL, -1000000000000LL, 4611686018427387LL};
    for (int c = 0; c < cases; c++)
    {
        emit("reset s");
        i64 now = r.pick(vals);
        i64 st = 0, ivl = 0; // what the generator believes the timer holds (only to aim at the boundary)
        int len = (int)r.range(4, 14);
        for (int q = 0; q < len; q++)
        {
            unsigned m = (unsigned)r.below(100);
            i64 iv = r.pick(vals);
            if (iv <= 0) iv = 1 + (i64)r.below(9);
            if (m < 15) { st = now + r.range(-3, 3); ivl = iv; emit("splan " + S(st) + " " + S(iv)); }
            else if (m < 22) { st = now + r.range(-3, 3); ivl = iv; emit("sinit " + S(st) + " " + S(iv)); }
            else if (m < 30) { st = now + r.range(-3, 3); emit("sstart " + S(st)); }
            else if (m < 36) { st += ivl; emit("sswift"); }
            else if (m < 44) emit("sfinish");
            else
            {
                // half of the polls aim at deadline-1 / deadline / deadline+1 (time stays non-decreasing)
                i64 t = now + r.range(0, 4) * (r.chance(20) ? 5 : 1);
                if (r.chance(50) && st + ivl + 1 >= now) t = std::max(now, st + ivl + r.range(-1, 1));
                now = t;
                if (m < 70) emit("scheck " + S(now));
                else { emit("speriodic " + S(now)); if (now >= st + ivl) st += ivl; }
            }
        }
    }
}

static void gen(hv::rng &r, const std::string &tier)
{
    bool th = tier == "thorough";
    gen_directed();
    gen_exhaustive_configs(r, th);
    gen_exhaustive_callbacks(r, th);
    int nrand = th ? 30000 : 5000;
    for (int c = 0; c < nrand; c++) gen_random_case(r, c % 3 != 0);
    gen_stimer(r, th ? 5000 : 1000);
}

int main(int argc, char **argv)
{
    int rc = hv::main_(argc, argv, gen, run_op);
    drop_world();
    return rc;
}
