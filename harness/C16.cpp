// C16 harness: igris::timer_manager (igris/time/timer_manager.h) and the flag
// style stimer (igris/datastruct/stimer.c) against the Lean model IgrisModel/C16.
//
// Op lines (a case starts with `reset`):
//   reset <n>                 fresh manager with timers 0..n-1 (heap objects)
//   plan  <i> <start> <iv>    manager.plan(timer i, start, iv)
//   plan1 <i> <start> <iv>    timer i .set_start/.set_interval ; manager.plan(timer i)
//   unplan <i>                timer i .unplan()
//   exec <now> <rules>        manager.exec(now); the delegates execute the scripted rules
//        rules = "-" | rule;rule;...   rule = <id|*>@<k|*>:<act>,<act>...
//        the k-th callback (0-based, counted over this exec) running for timer id performs
//        the acts of every matching rule in order:  u<j> = timer j .unplan()
//                                                   p<j>.<start>.<iv> = manager.plan(timer j, start, iv)
//   q <now>                   only query the observables at time now
//   qmin <now>                minimal_interval(now) called unconditionally (normal stream: only when
//                             a timer is planned; on an empty manager: @F:C16-minimal-interval-empty)
//   reset s / sinit a b / splan a b / sstart a / sswift / sfinish / scheck t / speriodic t   (stimer)
//
// extensions
//   reset u <n> | reset U <n> the SAME manager over a wrapping counter: timer_manager_basic<timer_spec<uint32_t>>.
//                             Op lines carry UNBOUNDED tick values; the real code gets them modulo 2^32, the
//                             reference scheduler of the oracle keeps them unbounded ("u": the history respects
//                             the window precondition, oracle on; "U": it does not, only the model is compared)
//   reset z <n>               like reset <n>, the last timer has an UNARMED delegate (delegate::invoke returns R())
//   reset S                   stimer with tick values that may lie beyond LONG_MAX (given to the code modulo 2^64)
//   sets <i> <v> / seti <i> <v>   timer i .set_start(v) / .set_interval(v)  (also on a planned timer)
//   replan <i>                manager.plan(timer i)  with the fields the timer has
//   destroy <i>               delete timer i; a fresh timer object takes its slot
//   dropmgr                   delete the manager while timers may be planned (~dlist_base: pop_front), fresh manager
//   more callback acts:  s<j>.<v> set_start, i<j>.<v> set_interval, r<j> manager.plan(timer j),
//                        d<j> destroy timer j, x<now> manager.exec(now) from inside the callback
//   the delegates are of the three kinds of igris::delegate: plain function (id%3==0), member function
//   (id%3==1), external function + object (id%3==2)
//
// result  = "f=<id>:<deadline>,... t=<finish>/<is_planned>,... e=<empty> m=<minimal_interval|->"
// oracle  = an independent reference scheduler (map id -> (deadline, period) + multiset of
//           deadlines) that never looks at the manager's list: every callback must be the
//           reference's earliest pending deadline, not early, the re-arm rule is applied on
//           the reference, and is_planned / finish / empty / minimal_interval must agree.
#include "common/hv.h"
#include <igris/time/timer_manager.h>
#include <igris/datastruct/stimer.h>
#include <map>
#include <set>
#include <memory>
#include <algorithm>
#include <climits>
#include <limits>

typedef int64_t i64;
// view of hv::out whose tag() records each marker once per op line
struct out
{
    hv::out &b;
    std::string &result;
    explicit out(hv::out &x) : b(x), result(x.result) {}
    void fail(const std::string &why) { b.fail(why); }
    void tag(const char *t)
    {
        std::string x = "," + b.tags + ",";
        if (x.find("," + std::string(t) + ",") == std::string::npos) b.tag(t);
    }
};

static_assert(sizeof(long) == 8, "LP64 assumed by the stimer model");
// (round 3b: no static_assert on library types - widths / signedness of time_t and difftime_t of every instance are
// reported by the op `consts` and compared with the model at run time: a change shows as a VIOLATION, not as a build error)

// ---------------------------------------------------------------------------
// scripted callbacks
// ---------------------------------------------------------------------------
struct act
{
    char kind; // 'u' unplan | 'p' plan | 's' set_start | 'i' set_interval | 'r' plan(tim) | 'd' destroy | 'x' nested exec(s)
    int j;
    i64 s, iv;
};
struct rule
{
    int id, k; // -1 = any
    std::vector<act> acts;
};

static std::vector<std::string> split(const std::string &s, char c)
{
    std::vector<std::string> v;
    size_t b = 0;
    for (;;)
    {
        size_t e = s.find(c, b);
        if (e == std::string::npos) { v.push_back(s.substr(b)); break; }
        v.push_back(s.substr(b, e - b));
        b = e + 1;
    }
    return v;
}
static long parse_wide(const std::string &x);
static std::vector<rule> parse_rules(const std::string &s)
{
    std::vector<rule> rs;
    if (s == "-") return rs;
    for (auto &r : split(s, ';'))
    {
        auto sa = split(r, ':');
        auto ik = split(sa[0], '@');
        rule x;
        x.id = ik[0] == "*" ? -1 : atoi(ik[0].c_str());
        x.k = ik[1] == "*" ? -1 : atoi(ik[1].c_str());
        if (sa.size() > 1 && !sa[1].empty())
            for (auto &a : split(sa[1], ','))
            {
                act t{a[0], 0, 0, 0};
                if (a[0] == 'u' || a[0] == 'r' || a[0] == 'd') t.j = atoi(a.c_str() + 1);
                else if (a[0] == 'x') t.s = strtoll(a.c_str() + 1, 0, 10);
                else if (a[0] == 's' || a[0] == 'i')
                {
                    auto f = split(a.substr(1), '.');
                    t.j = atoi(f[0].c_str());
                    t.s = strtoll(f[1].c_str(), 0, 10);
                }
                else
                {
                    auto f = split(a.substr(1), '.');
                    t.j = atoi(f[0].c_str());
                    t.s = strtoll(f[1].c_str(), 0, 10);
                    t.iv = strtoll(f[2].c_str(), 0, 10);
                }
                x.acts.push_back(t);
            }
        rs.push_back(x);
    }
    return rs;
}

// ---------------------------------------------------------------------------
// reference scheduler: pending set as id -> (deadline, period); a multiset of
// deadlines gives "earliest".  Written from the property text, not from the code.
// Unbounded time (int64 far away from its limits).  `fld` = the (start, interval)
// fields every timer object holds (needed for set_start / set_interval / plan(tim)).
// ---------------------------------------------------------------------------
struct refsched
{
    std::map<int, std::pair<i64, i64>> pend;
    std::multiset<i64> dl;
    std::map<int, std::pair<i64, i64>> fld;
    void unplan(int j)
    {
        auto it = pend.find(j);
        if (it == pend.end()) return;
        dl.erase(dl.find(it->second.first));
        pend.erase(it);
    }
    void plan(int j, i64 s, i64 iv)
    {
        unplan(j);
        fld[j] = {s, iv};
        pend[j] = {s + iv, iv};
        dl.insert(s + iv);
    }
    void replan(int j) { plan(j, fld[j].first, fld[j].second); }
    bool pending(int j) const { return pend.count(j) != 0; }
    bool empty() const { return dl.empty(); }
    i64 earliest() const { return *dl.begin(); }
};

// ---------------------------------------------------------------------------
// the manager under test, for either TimeSpec
// ---------------------------------------------------------------------------
static void on_fire(int id);
struct firer
{
    int cookie = 0x5a5a;
    void fire(int id) { if (cookie != 0x5a5a) abort(); on_fire(id); }
};
static firer FIRER;
static void ext_fire(void *obj, int id)
{
    if (obj != (void *)&FIRER) abort();
    on_fire(id);
}

struct iface
{
    virtual ~iface() {}
    virtual size_t n() const = 0;
    virtual void plan(int i, i64 s, i64 iv) = 0;
    virtual void set_start(int i, i64 v) = 0;
    virtual void set_interval(int i, i64 v) = 0;
    virtual void plan1(int i) = 0;
    virtual void unplan(int i) = 0;
    virtual void exec(i64 now) = 0;
    virtual bool is_planned(int i) = 0;
    virtual i64 finish(int i) = 0;                // raw value as the code returns it
    virtual bool empty() = 0;
    virtual i64 minimal_interval(i64 cur) = 0;    // raw
    virtual void renew(int i) = 0;                // delete timer i, construct a fresh one in its slot
    virtual void renew_mgr() = 0;                 // delete the manager, construct a fresh one
    virtual i64 virt(i64 raw, i64 cur) = 0;       // the unbounded tick value nearest to cur that the code's value stands for
    virtual i64 raw_time(i64 v) = 0;              // an unbounded tick value as the code's time_t prints
    virtual i64 raw_diff(i64 v) = 0;              // an unbounded difference as the code's difftime_t prints
    virtual i64 diff_max() = 0;                   // numeric_limits<difftime_t>::max(): "no deadline" of minimal_interval()
};

template <class Spec> struct impl : iface
{
    using mgr_t = igris::timer_manager_basic<Spec>;
    using tim_t = igris::timer_basic<Spec, int>;
    // the tick type and the difference type as the public member functions show them (not the nested typedef names)
    using T = decltype(std::declval<tim_t &>().finish());
    using D = decltype(std::declval<mgr_t &>().minimal_interval(std::declval<T>()));
    mgr_t *mgr = nullptr;
    std::vector<tim_t *> tim;
    int unarmed = -1;
    unsigned long off = 0; // added (modulo 2^w) to every tick value handed to the code: moves the history next to the wrap
    using UT = typename std::make_unsigned<T>::type;
    using ST_ = typename std::make_signed<T>::type;
    T tt(i64 v) const { return (T)(UT)((unsigned long)v + off); }
    tim_t *make(int i)
    {
        if (i == unarmed) return new tim_t(igris::delegate<void, int>(), (int)i);
        switch (i % 3)
        {
        case 0: return new tim_t(igris::make_delegate(on_fire), (int)i);
        case 1: return new tim_t(igris::make_delegate(&firer::fire, &FIRER), (int)i);
        default: return new tim_t(igris::make_delegate(ext_fire, (void *)&FIRER), (int)i);
        }
    }
    impl(int n, int unarmed_, unsigned long off_ = 0) : unarmed(unarmed_), off(off_)
    {
        mgr = new mgr_t;
        for (int i = 0; i < n; i++) tim.push_back(make(i));
    }
    ~impl() override
    {
        for (auto *t : tim) delete t;
        delete mgr;
    }
    size_t n() const override { return tim.size(); }
    void plan(int i, i64 s, i64 iv) override { mgr->plan(*tim[i], tt(s), (D)iv); }
    void set_start(int i, i64 v) override { tim[i]->set_start(tt(v)); }
    void set_interval(int i, i64 v) override { tim[i]->set_interval((D)v); }
    void plan1(int i) override { mgr->plan(*tim[i]); }
    void unplan(int i) override { tim[i]->unplan(); }
    void exec(i64 now) override { mgr->exec(tt(now)); }
    bool is_planned(int i) override { return tim[i]->is_planned(); }
    i64 finish(int i) override { return (i64)tim[i]->finish(); }
    bool empty() override { return mgr->empty(); }
    i64 minimal_interval(i64 cur) override { return (i64)mgr->minimal_interval(tt(cur)); }
    void renew(int i) override
    {
        delete tim[i];
        tim[i] = make(i);
    }
    void renew_mgr() override
    {
        delete mgr;
        mgr = new mgr_t;
    }
    i64 virt(i64 raw, i64 cur) override
    {
        if (sizeof(T) == 8 && off == 0) return raw;
        return cur + (i64)(ST_)(UT)((UT)raw - (UT)tt(cur));
    }
    i64 raw_time(i64 v) override { return (i64)tt(v); }
    i64 raw_diff(i64 v) override { return (i64)(D)v; }
    i64 diff_max() override { return (i64)std::numeric_limits<D>::max(); }
};
typedef igris::timer_spec<uint32_t> spec_u32;
typedef igris::timer_spec<int32_t> spec_i32;
typedef igris::timer_spec<int64_t> spec_i64;
typedef igris::timer_spec<uint32_t, int32_t> spec_u32s; // unsigned ticks with an explicitly SIGNED difference type

// ---------------------------------------------------------------------------
// the case under test
// ---------------------------------------------------------------------------
struct ectx // one (possibly nested) exec call
{
    i64 now = 0;
    bool have_prev = false;
    i64 prev_deadline = 0;
    std::set<int> planned_by_prev; // timers planned by the previous callback of this exec call
    int cur_id = -1;               // the timer whose callback is running
};
struct world
{
    iface *t = nullptr;
    bool oracle_on = true; // false: history outside the precondition / outside the property, model comparison only
    bool dirty = false;    // a setter hit a planned timer: the list is no longer sorted by construction
    refsched ref;
    i64 cur = 0;
    // per exec
    std::vector<rule> rules;
    i64 now = 0;
    i64 maxnow = 0; // latest time any exec (also a nested one) of this case was given
    int k = 0;
    std::vector<std::pair<int, i64>> fires; // (id, raw deadline)
    std::set<int> touched;                  // timers targeted by any callback action in this exec
    std::vector<ectx> stack;
    bool nested_seen = false;
    // a timer that nobody re-planned must not fire twice for one deadline
    std::map<int, i64> last_fire;
    // no-drift over the history: timer planned at (s, iv) and left alone since: k-th firing is s + k*iv
    struct anchor { i64 s, iv, count; };
    std::map<int, anchor> anch;
    int unarmed = -1;                 // the timer whose delegate is unarmed (reset z)
    unsigned long self_touch_gen = 0; // bumped whenever a callback names the timer it runs for
    out *o = nullptr;
    bool in_exec = false;
    bool fires_seen = false; // an exec has happened in this case
    // ---- what the property leaves open: the order among timers with EQUAL deadlines (see tie_step) ----
    bool tainted = false; // the outcome of this case depends on the order inside a tie: result = "tie-dependent" until the next reset
    bool tdirty = false;  // a setter op hit a planned timer / an exec used setters in callbacks: the list may be unsorted
    bool hz = false;      // reset U|I|V (32-bit instances, histories outside the window): "deadline order" may be undefined
    struct tiegrp
    {
        bool open = false;
        i64 d = 0;
        std::set<int> G, fired;
        int k0 = 0;
        bool all1 = true, all2 = true;
    } tg;
};
static world W;
static void ofail(const std::string &why)
{
    if (W.oracle_on && !W.dirty) W.o->fail(why);
}
static void ref_touch(int j)
{
    for (auto &c : W.stack)
        if (j == c.cur_id) W.self_touch_gen++;
    W.touched.insert(j);
    W.last_fire.erase(j);
    W.anch.erase(j);
}

// the timer with the unarmed delegate runs (and is re-armed) without any callback the harness could see: the
// reference lets it run whenever its deadline lies before `bound` (or at it, when `inclusive`)
static void ref_unarmed(i64 bound, bool inclusive)
{
    world &w = W;
    int u = w.unarmed;
    if (u < 0) return;
    while (w.ref.pending(u) && (w.ref.pend[u].first < bound || (inclusive && w.ref.pend[u].first == bound)))
    {
        auto p = w.ref.pend[u];
        if (p.second <= 0) break;
        w.ref.plan(u, p.first, p.second);
    }
}

// ---------------------------------------------------------------------------
// The property orders callbacks by deadline and says nothing about timers with EQUAL deadlines.  The result line
// prints every maximal run of callbacks with one deadline sorted by timer id (canon_fires), and tie_step decides -
// with the same rules as the model driver (lean/IgrisModel/C16/Tie.lean) - whether the OUTCOME of this exec may
// depend on the order inside a tie (the callbacks act on timers of the tie, or act differently depending on which
// member runs at which index).  Such a case is compared by the oracle only from there on: the reference scheduler
// follows the order it observes.  Only the public API is used (is_planned(), finish()).
// ---------------------------------------------------------------------------
static bool act_eq(const act &a, const act &b) { return a.kind == b.kind && a.j == b.j && a.s == b.s && a.iv == b.iv; }
static bool acts_eq(const std::vector<act> &a, const std::vector<act> &b)
{
    if (a.size() != b.size()) return false;
    for (size_t i = 0; i < a.size(); i++)
        if (!act_eq(a[i], b[i])) return false;
    return true;
}
static std::vector<act> acts_for(int id, int k)
{
    std::vector<act> v;
    if (id == W.unarmed) return v;
    for (auto &r : W.rules)
    {
        if ((r.id != -1 && r.id != id) || (r.k != -1 && r.k != k)) continue;
        for (auto &a : r.acts) v.push_back(a);
    }
    return v;
}
static bool any_tie()
{
    iface &t = *W.t;
    std::set<i64> seen;
    for (size_t i = 0; i < t.n(); i++)
        if (t.is_planned((int)i) && !seen.insert(t.finish((int)i)).second) return true;
    return false;
}
// histories outside the window precondition: the comparison of deadlines by the sign of their difference is a strict
// total order on distinct deadlines only while the pending deadlines lie within half the counter range of each other.
// When it is not (two deadlines exactly 2^31 apart, or a cycle) where plan() inserts depends on how its scan is written.
static bool order_bad()
{
    iface &t = *W.t;
    std::vector<uint32_t> ds;
    for (size_t i = 0; i < t.n(); i++)
        if (t.is_planned((int)i)) ds.push_back((uint32_t)t.finish((int)i));
    auto e = [](uint32_t a, uint32_t b) { return (int32_t)(uint32_t)(a - b) < 0; };
    for (uint32_t a : ds)
        for (uint32_t b : ds)
        {
            if (a != b && e(a, b) == e(b, a)) return true;
            for (uint32_t c : ds)
                if (e(a, b) && e(b, c) && !e(a, c)) return true;
        }
    return false;
}
static bool unordered_state() { return (W.tdirty && any_tie()) || (W.hz && order_bad()); }
static void tie_step(int id, i64 raw, i64 d, int myk, i64 now)
{
    world &w = W;
    iface &t = *w.t;
    auto &g = w.tg;
    if (w.tainted) return;
    if (unordered_state()) { w.tainted = true; return; }
    if (g.open && raw != g.d) { w.tainted = true; return; } // a timer with another deadline runs before every member of the tie has run
    std::set<int> S;
    for (size_t i = 0; i < t.n(); i++)
        if (t.is_planned((int)i) && t.finish((int)i) == raw) S.insert((int)i);
    S.insert(id);
    // the timer with the unarmed delegate runs unseen: it belongs to the tie when the reference has it at this deadline
    if (w.unarmed >= 0 && w.ref.pending(w.unarmed) && w.ref.pend[w.unarmed].first == d) S.insert(w.unarmed);
    // outside the window a tie is never harmless: the states INSIDE the group differ with the order, and with them
    // whether the deadlines are still ordered
    if (w.hz && S.size() >= 2) { w.tainted = true; return; }
    if (g.open) g.G.insert(S.begin(), S.end());
    else if (S.size() >= 2)
    {
        g = world::tiegrp();
        g.open = true;
        g.d = raw;
        g.G = S;
        g.k0 = myk;
    }
    if (!g.open) return;
    if (w.unarmed >= 0 && g.G.count(w.unarmed)) g.fired.insert(w.unarmed);
    bool p1 = true, p2 = true;
    std::vector<act> first = acts_for(*g.G.begin(), myk);
    for (int m : g.G)
    {
        std::vector<act> L = acts_for(m, myk);
        if (!acts_eq(L, first)) p1 = false;
        if (!acts_eq(L, acts_for(m, g.k0))) p2 = false;
        for (auto &a : L)
        {
            if (a.kind != 'x' && g.G.count(a.j)) p1 = false;
            bool safe = a.kind == 'x' || (a.kind == 'u' && a.j == m) || (a.kind == 'p' && a.j == m && a.s + a.iv > now);
            if (!safe) p2 = false;
        }
    }
    g.all1 = g.all1 && p1;
    g.all2 = g.all2 && p2;
    g.fired.insert(id);
    if (!g.all1 && !g.all2) { w.tainted = true; return; }
    if (g.fired == g.G)
    {
        g.open = false;
        w.o->tag("tie-group-order-free"); // every order inside this tie gives the same outcome: compared with the model
        if (!first.empty() || !g.all1) w.o->tag("tie-group-with-callback-actions");
    }
}
static void canon_fires(std::vector<std::pair<int, i64>> &f)
{
    size_t b = 0;
    while (b < f.size())
    {
        size_t e = b + 1;
        while (e < f.size() && f[e].second == f[b].second) e++;
        if (e - b > 1) std::sort(f.begin() + b, f.begin() + e, [](const std::pair<int, i64> &x, const std::pair<int, i64> &y) { return x.first < y.first; });
        b = e;
    }
}

static void on_fire(int id)
{
    world &w = W;
    out &o = *w.o;
    iface &t = *w.t;
    ectx &c = w.stack.back();
    int myk = w.k++;
    if (w.stack.size() > 1) ofail("a callback ran inside an exec() called from a callback (a re-entrant exec must return at once)");
    i64 raw = t.finish(id);
    i64 d = t.virt(raw, c.now);
    ref_unarmed(d, false);
    if (w.fires.size() < 100000) w.fires.push_back({id, raw});
    if (w.stack.size() == 1) tie_step(id, raw, d, myk, c.now);
    // ---- oracle, on the real callback ----
    if (syslock_counter() != 0) ofail("callback runs with the system lock held");
    if (!t.is_planned(id)) ofail("callback of a timer that is not planned");
    if (d > c.now) ofail("callback before the deadline: timer " + std::to_string(id));
    if (!w.ref.pending(id)) ofail("callback of a timer the reference does not have pending: timer " + std::to_string(id));
    else
    {
        if (w.ref.pend[id].first != d) ofail("deadline at callback differs from the reference deadline: timer " + std::to_string(id));
        if (w.ref.earliest() != w.ref.pend[id].first) ofail("callback is not the earliest pending deadline: timer " + std::to_string(id));
    }
    if (c.have_prev && d < c.prev_deadline && !c.planned_by_prev.count(id))
        ofail("callbacks out of deadline order although the previous callback did not plan this timer");
    if (w.last_fire.count(id) && w.last_fire[id] >= d)
        ofail("timer " + std::to_string(id) + " fired twice for one deadline without being re-planned");
    if (w.anch.count(id))
    {
        auto &a = w.anch[id];
        a.count++;
        if (d != a.s + a.count * a.iv) ofail("drift over the history: firing number k is not at start + k*interval: timer " + std::to_string(id));
    }
    // ---- scripted actions, on the real manager and on the reference ----
    auto before = w.ref.pending(id) ? w.ref.pend[id] : std::make_pair((i64)0, (i64)0);
    auto before_fld = w.ref.fld[id];
    bool was_pending = w.ref.pending(id);
    c.planned_by_prev.clear();
    c.cur_id = id;
    unsigned long gen0 = w.self_touch_gen;
    for (size_t ri = 0; ri < w.rules.size(); ri++)
    {
        const rule r = w.rules[ri]; // copy: a nested exec does not change w.rules, but stay safe
        if ((r.id != -1 && r.id != id) || (r.k != -1 && r.k != myk)) continue;
        for (auto &a : r.acts)
        {
            if (a.kind == 'x')
            {
                // nested exec of the same manager
                ectx n;
                n.now = a.s;
                w.stack.push_back(n);
                // (fix-C16: exec() called from a callback returns at once - the running exec picks up what is due;
                // the reference scheduler does nothing here, any callback made inside is reported by on_fire)
                o.tag("cb-nested-exec");
                if (w.ref.pending(id) && w.ref.pend[id].first <= a.s) o.tag("cb-nested-exec-own-timer-still-due");
                t.exec(a.s);
                w.stack.pop_back();
                w.stack.back().cur_id = id;
                continue;
            }
            if (a.j < 0 || a.j >= (int)t.n()) continue;
            ectx &cc = w.stack.back();
            if (a.kind == 'u')
            {
                t.unplan(a.j);
                w.ref.unplan(a.j);
                ref_touch(a.j);
                o.tag(a.j == id ? "cb-unplan-self" : "cb-unplan-other");
            }
            else if (a.kind == 'p')
            {
                t.plan(a.j, a.s, a.iv);
                w.ref.plan(a.j, a.s, a.iv);
                ref_touch(a.j);
                w.anch[a.j] = {a.s, a.iv, 0};
                cc.planned_by_prev.insert(a.j);
                o.tag(a.j == id ? "cb-plan-self" : "cb-plan-other");
                if (a.s + a.iv <= cc.now) o.tag("cb-plan-past");
                if (a.s + a.iv == cc.now) o.tag("cb-plan-at-now");
                if (a.s + a.iv < d) o.tag("cb-plan-before-own-deadline");
            }
            else if (a.kind == 's' || a.kind == 'i')
            {
                if (t.is_planned(a.j)) { w.dirty = true; o.tag("cb-setter-on-planned"); }
                else o.tag("cb-setter-on-unplanned");
                if (a.kind == 's') { t.set_start(a.j, a.s); w.ref.fld[a.j].first = a.s; }
                else { t.set_interval(a.j, a.s); w.ref.fld[a.j].second = a.s; }
                ref_touch(a.j);
            }
            else if (a.kind == 'r')
            {
                t.plan1(a.j);
                w.ref.replan(a.j);
                ref_touch(a.j);
                cc.planned_by_prev.insert(a.j);
                o.tag(a.j == id ? "cb-replan-self" : "cb-replan-other");
            }
            else if (a.kind == 'd')
            {
                bool next = false;
                if (a.j != id && w.ref.pending(a.j) && w.ref.pending(id))
                {
                    // is j the one that would run next?
                    i64 dj = w.ref.pend[a.j].first;
                    size_t earlier = 0;
                    for (auto &p : w.ref.pend)
                        if (p.first != id && p.first != a.j && p.second.first < dj) earlier++;
                    next = earlier == 0;
                }
                o.tag(a.j == id ? "cb-destroy-self" : (w.ref.pending(a.j) ? (next ? "cb-destroy-next-pending" : "cb-destroy-other-pending") : "cb-destroy-unplanned"));
                t.renew(a.j);
                w.ref.unplan(a.j);
                w.ref.fld[a.j] = {0, 0};
                ref_touch(a.j);
            }
        }
    }
    // reference re-arm: still pending and not re-planned by its own callback -> one period later
    if (was_pending && w.ref.pending(id) && w.ref.pend[id] == before && w.ref.fld[id] == before_fld)
    {
        // (a callback that re-plans its own timer with the values it already has is "left alone" for the
        // code and for this reference alike; the history anchor is dropped then)
        bool self_touched = w.self_touch_gen != gen0;
        auto a = (w.anch.count(id) && !self_touched) ? w.anch[id] : world::anchor{0, 0, -1};
        w.ref.plan(id, before.first, before.second);
        if (a.count >= 0) w.anch[id] = a;
        else w.anch.erase(id);
        if (self_touched) w.last_fire.erase(id);
        else w.last_fire[id] = d;
    }
    else w.last_fire.erase(id);
    ectx &c2 = w.stack.back();
    c2.prev_deadline = d;
    c2.have_prev = true;
}

static void drop_world()
{
    delete W.t;
    W.t = nullptr;
    W.ref = refsched();
    W.cur = 0;
    W.fires_seen = false;
    W.oracle_on = true;
    W.unarmed = -1;
    W.dirty = false;
    W.tainted = false;
    W.tdirty = false;
    W.hz = false;
    W.tg = world::tiegrp();
    W.last_fire.clear();
    W.anch.clear();
    W.stack.clear();
}

static std::string summary(out &o)
{
    world &w = W;
    iface &t = *w.t;
    (void)o;
    std::string s = "t=";
    bool any = false;
    for (size_t i = 0; i < t.n(); i++)
    {
        bool p = t.is_planned((int)i);
        i64 f = t.finish((int)i);
        if (i) s += ",";
        s += std::to_string(f) + "/" + (p ? "1" : "0");
        any |= p;
        // pending set equals the reference's
        if (p != w.ref.pending((int)i)) ofail("is_planned differs from the reference pending set: timer " + std::to_string(i));
        else if (p && t.raw_time(w.ref.pend[(int)i].first) != f) ofail("deadline differs from the reference: timer " + std::to_string(i));
    }
    bool e = t.empty();
    if (e != w.ref.empty()) ofail("empty() differs from the reference");
    if (e == any) ofail("empty() inconsistent with is_planned()");
    s += std::string(" e=") + (e ? "1" : "0") + " m=";
    if (e)
    {
        // no next deadline: minimal_interval() says "never" = the largest difftime_t (fix-C16; it used to read the list
        // head as if it were a timer).  Printed as "-" as before.
        s += "-";
        i64 m = t.minimal_interval(w.cur);
        if (m != t.diff_max()) o.fail("minimal_interval() on an empty manager is not numeric_limits<difftime_t>::max()");
    }
    else
    {
        i64 m = t.minimal_interval(w.cur);
        s += std::to_string(m);
        if (!w.ref.empty() && m != t.raw_diff(w.ref.earliest() - w.cur)) ofail("minimal_interval differs from the reference's time to the next deadline");
    }
    if (syslock_counter() != 0) ofail("system lock count is not 0 after the call");
    return s;
}

static struct stimer_head ST;

static std::string show_st()
{
    return std::to_string(ST.start) + " " + std::to_string(ST.interval) + " " + std::to_string(ST.planed);
}

// a tick value that may lie beyond the int64 range of the op line's reader: parsed exactly, given modulo 2^64
static long parse_wide(const std::string &x)
{
    bool neg = !x.empty() && x[0] == '-';
    unsigned __int128 v = 0;
    for (size_t i = neg ? 1 : 0; i < x.size(); i++) v = v * 10 + (unsigned)(x[i] - '0');
    unsigned long u = (unsigned long)v;
    if (neg) u = 0ul - u;
    return (long)u;
}
static __int128 parse_big(const std::string &x)
{
    bool neg = !x.empty() && x[0] == '-';
    __int128 v = 0;
    for (size_t i = neg ? 1 : 0; i < x.size(); i++) v = v * 10 + (x[i] - '0');
    return neg ? -v : v;
}
static bool ST_WIDE = false;
static bool ST_LONG = false; // reset T: the op lines carry `long` values; oracle = the rule of stimer.c on 128-bit integers
static __int128 ST_VSTART = 0, ST_VIV = 0; // the unbounded values the stimer fields stand for (reset S)


// ---------------------------------------------------------------------------
// round 3: igris::delegate<void, int> on its own (reset D) - the delegate invoked is the one stored, with its
// argument, exactly once.  Targets: plain functions F1..F3, member functions (two non-virtual, one virtual) of
// objects O1..O3, external functions X1..X3 with an object pointer (possibly null), functor objects L1..L2.
//   dnew <slot> 0 | f <k> | m <obj> <k> | x <k> <obj> | l <k>      construct (default / function / method / extfunction / functor)
//   dcopy <a> <b>  (copy constructor + operator=)   dmove <a> <b>  (move assignment)   dclean <a>
//   dinv <a> <arg>    invoke      dreset <a> <arg>   invoke_and_reset      deq <a> <b>   operator==
//   dtim <a> <arg> <n>   the delegate inside a timer<int>(dlg, arg) planned at (0,1): exec(n) -> n callbacks
// result: "a=<armed> c=<call records>"; a call record is F<k>(<arg>) | M<obj>.<k>(<arg>) | X<k>[<obj>](<arg>) | L<k>(<arg>)
// oracle: a shadow description of every slot kept by the harness (never derived from the delegate's own fields)
// ---------------------------------------------------------------------------
static std::string DCALLS;
static void dfn1(int a) { DCALLS += "F1(" + std::to_string(a) + ")"; }
static void dfn2(int a) { DCALLS += "F2(" + std::to_string(a) + ")"; }
static void dfn3(int a) { DCALLS += "F3(" + std::to_string(a) + ")"; }
struct dbase { virtual ~dbase() {} int pad = 7; };
struct dobj : dbase
{
    int id = 0;
    int magic = 0x600d;
    void m1(int a) { if (magic != 0x600d) abort(); DCALLS += "M" + std::to_string(id) + ".1(" + std::to_string(a) + ")"; }
    void m2(int a) { if (magic != 0x600d) abort(); DCALLS += "M" + std::to_string(id) + ".2(" + std::to_string(a) + ")"; }
    virtual void m3(int a) { if (magic != 0x600d) abort(); DCALLS += "M" + std::to_string(id) + ".3(" + std::to_string(a) + ")"; }
};
static dobj DOBJ[4];
static void dext(int k, void *o, int a)
{
    int oid = 0;
    for (int i = 1; i <= 3; i++) if (o == (void *)&DOBJ[i]) oid = i;
    if (o != nullptr && oid == 0) abort();
    DCALLS += "X" + std::to_string(k) + "[" + std::to_string(oid) + "](" + std::to_string(a) + ")";
}
static void dx1(void *o, int a) { dext(1, o, a); }
static void dx2(void *o, int a) { dext(2, o, a); }
static void dx3(void *o, int a) { dext(3, o, a); }
struct dfun1 { int magic = 0xf1; void operator()(int a) { if (magic != 0xf1) abort(); DCALLS += "L1(" + std::to_string(a) + ")"; } };
struct dfun2 { int magic = 0xf2; void operator()(int a) { if (magic != 0xf2) abort(); DCALLS += "L2(" + std::to_string(a) + ")"; } };
static dfun1 DF1;
static dfun2 DF2;
typedef igris::delegate<void, int> dlg_t;
static const int DSLOTS = 4;
static dlg_t *DSL[DSLOTS];
struct dshadow { char kind = '0'; int k = 0, obj = 0; };
static dshadow DSH[DSLOTS];
static bool D_MODE = false;
static std::string dexpect(const dshadow &h, int a)
{
    std::string A = "(" + std::to_string(a) + ")";
    switch (h.kind)
    {
    case 'f': return "F" + std::to_string(h.k) + A;
    case 'm': return "M" + std::to_string(h.obj) + "." + std::to_string(h.k) + A;
    case 'x': return "X" + std::to_string(h.k) + "[" + std::to_string(h.obj) + "]" + A;
    case 'l': return "L" + std::to_string(h.k) + A;
    default: return "";
    }
}
static void d_reset()
{
    for (int i = 0; i < DSLOTS; i++) { delete DSL[i]; DSL[i] = new dlg_t(); DSH[i] = dshadow(); }
    for (int i = 0; i < 4; i++) DOBJ[i].id = i;
}
static void d_op(const std::vector<std::string> &w, out &o)
{
    const std::string &op = w[0];
    auto N = [&](size_t k) { return atoi(w[k].c_str()); };
    int a = N(1);
    if (a < 0 || a >= DSLOTS) { o.result = "bad-op"; o.fail("slot"); return; }
    auto show = [&](int s, const std::string &calls) { return std::string("a=") + (DSL[s]->armed() ? "1" : "0") + " c=" + (calls.empty() ? "-" : calls); };
    auto armed_ok = [&](int s) {
        if (DSL[s]->armed() != (DSH[s].kind != '0')) o.fail("armed() differs from what was stored");
        if ((bool)*DSL[s] != (DSH[s].kind != '0')) o.fail("operator bool differs from what was stored");
    };
    if (op == "dnew")
    {
        delete DSL[a];
        dshadow h;
        h.kind = w[2][0];
        if (h.kind == '0') DSL[a] = new dlg_t();
        else if (h.kind == 'f')
        {
            h.k = N(3);
            DSL[a] = new dlg_t(h.k == 1 ? dfn1 : h.k == 2 ? dfn2 : dfn3);
            o.tag("dlg-function");
        }
        else if (h.kind == 'm')
        {
            h.obj = N(3); h.k = N(4);
            DSL[a] = new dlg_t(h.k == 1 ? igris::make_delegate(&dobj::m1, &DOBJ[h.obj]) : h.k == 2 ? igris::make_delegate(&dobj::m2, &DOBJ[h.obj]) : igris::make_delegate(&dobj::m3, &DOBJ[h.obj]));
            o.tag(h.k == 3 ? "dlg-virtual-method" : "dlg-method");
        }
        else if (h.kind == 'x')
        {
            h.k = N(3); h.obj = N(4);
            DSL[a] = new dlg_t(h.k == 1 ? dx1 : h.k == 2 ? dx2 : dx3, h.obj ? (void *)&DOBJ[h.obj] : nullptr);
            o.tag(h.obj ? "dlg-extfunction" : "dlg-extfunction-null-object");
        }
        else if (h.kind == 'l')
        {
            h.k = N(3);
            DSL[a] = h.k == 1 ? new dlg_t(DF1) : new dlg_t(DF2);
            o.tag("dlg-functor");
        }
        else { DSL[a] = new dlg_t(); o.result = "bad-op"; o.fail("kind"); return; }
        DSH[a] = h;
        armed_ok(a);
        o.result = show(a, "");
        return;
    }
    if (op == "dcopy" || op == "dmove")
    {
        int b = N(2);
        if (op == "dcopy")
        {
            dlg_t tmp(*DSL[b]); // copy constructor
            *DSL[a] = tmp;      // operator=
            o.tag("dlg-copy");
        }
        else
        {
            dlg_t tmp(*DSL[b]);
            *DSL[a] = std::move(tmp);
            o.tag("dlg-move");
        }
        DSH[a] = DSH[b];
        armed_ok(a);
        o.result = show(a, "");
        return;
    }
    if (op == "dclean") { DSL[a]->clean(); DSH[a] = dshadow(); armed_ok(a); o.result = show(a, ""); o.tag("dlg-clean"); return; }
    if (op == "dinv" || op == "dreset")
    {
        int arg = N(2);
        DCALLS.clear();
        std::string want = dexpect(DSH[a], arg);
        if (op == "dinv") { (*DSL[a])(arg); DSL[a]->invoke(arg); want += want; }
        else { DSL[a]->invoke_and_reset(N(2)); DSH[a] = dshadow(); o.tag("dlg-invoke-and-reset"); }
        if (DCALLS != want) o.fail("the delegate did not call exactly what was stored, once, with its argument: got '" + DCALLS + "' want '" + want + "'");
        armed_ok(a);
        o.tag(want.empty() ? "dlg-invoke-unarmed" : "dlg-invoke");
        o.result = show(a, DCALLS);
        return;
    }
    if (op == "deq")
    {
        int b = N(2);
        bool e = *DSL[a] == *DSL[b];
        bool want = DSH[a].kind == DSH[b].kind && DSH[a].k == DSH[b].k && DSH[a].obj == DSH[b].obj;
        if (e != want) o.fail("operator== differs from 'same target'");
        o.result = e ? "1" : "0";
        o.tag(e ? "dlg-eq" : "dlg-ne");
        return;
    }
    if (op == "dtim")
    {
        // the delegate as the callback of a timer: one call per due deadline, each with the timer's argument
        int arg = N(2), n = N(3);
        DCALLS.clear();
        {
            igris::timer_manager mgr;
            igris::timer<int> tim(*DSL[a], (int)arg);
            mgr.plan(tim, 0, 1);
            mgr.exec(n);
            if (n >= 1 && (!tim.is_planned() || tim.finish() != n + 1)) o.fail("timer with this delegate is not re-armed one interval after the last deadline");
            tim.unplan();
        }
        std::string want;
        for (int q = 0; q < n; q++) want += dexpect(DSH[a], arg);
        if (DCALLS != want) o.fail("timer callbacks: the stored delegate was not called exactly once per due deadline with the timer's argument");
        o.tag("dlg-in-timer");
        o.result = show(a, DCALLS);
        return;
    }
    o.result = "bad-op";
    o.fail("unknown op");
}


// ---------------------------------------------------------------------------
// round 3: the library used BEFORE main() (static-initialisation order): an object with init_priority(101) runs a
// small scenario from its constructor - manager, two timers, exec, minimal_interval, stimer - into a POD buffer;
// the op `premain` (after reset C) reports it, the model computes the same scenario
// ---------------------------------------------------------------------------
static char PM_BUF[512];
static size_t PM_LEN = 0;
static int PM_FIRES = 0;
static igris::timer<int> *PM_T[2];
static void pm_put(const char *s) { while (*s && PM_LEN < sizeof PM_BUF - 1) PM_BUF[PM_LEN++] = *s++; }
static void pm_num(long v) { char t[32]; snprintf(t, sizeof t, "%ld", v); pm_put(t); }
static void pm_fire(int id)
{
    if (PM_FIRES++) pm_put(",");
    pm_num(id);
    pm_put(":");
    pm_num((long)PM_T[id]->finish());
}
struct premain_t
{
    premain_t()
    {
        igris::timer_manager *mgr = new igris::timer_manager;
        PM_T[0] = new igris::timer<int>(igris::make_delegate(pm_fire), 0);
        PM_T[1] = new igris::timer<int>(igris::make_delegate(pm_fire), 1);
        pm_put("f=");
        mgr->plan(*PM_T[0], 0, 3);
        mgr->plan(*PM_T[1], 0, 5);
        mgr->exec(7);
        pm_put(" m=");
        pm_num((long)mgr->minimal_interval(7));
        pm_put(mgr->empty() ? " e=1" : " e=0");
        PM_T[0]->unplan();
        PM_T[1]->unplan();
        pm_put(" n=");
        pm_num((long)mgr->minimal_interval(7));
        struct stimer_head h;
        stimer_plan(&h, 5250, LONG_MAX);
        pm_put(" s=");
        pm_num(stimer_check(&h, 5000));
        stimer_plan(&h, 0, 3);
        pm_num(stimer_check(&h, 3));
        pm_put(" l=");
        pm_num(syslock_counter());
        delete PM_T[0];
        delete PM_T[1];
        delete mgr;
    }
};
static premain_t PREMAIN __attribute__((init_priority(101)));

// ---------------------------------------------------------------------------
// round 3: type widths and constants the model embeds, read out of the compiled code (reset C / consts)
// ---------------------------------------------------------------------------
template <class X> static std::string tyname() { return std::to_string(sizeof(X)) + (std::is_signed<X>::value ? "s" : "u"); }
template <class Spec> static std::string mgr_types()
{
    using head = igris::timer_basic<Spec, int>;
    using mgr = igris::timer_manager_basic<Spec>;
    using T = decltype(std::declval<head &>().finish());
    using D = decltype(std::declval<mgr &>().minimal_interval(std::declval<T>()));
    return "time=" + tyname<T>() + ",diff=" + tyname<D>() + ",never=" + std::to_string((__int128)std::numeric_limits<D>::max() > (__int128)INT64_MAX ? (unsigned long long)std::numeric_limits<D>::max() : (unsigned long long)std::numeric_limits<D>::max());
}
static std::string consts_line()
{
    struct stimer_head h;
    std::string s;
    s += "long=" + tyname<long>();
    s += " stimer.start=" + tyname<decltype(h.start)>() + " stimer.interval=" + tyname<decltype(h.interval)>() + " stimer.planed=" + tyname<decltype(h.planed)>();
    s += " stimer_finish=" + tyname<decltype(stimer_finish(&h))>() + " stimer_check=" + tyname<decltype(stimer_check(&h, 0L))>();
    s += " mgr[" + mgr_types<igris::timer_spec<int64_t>>() + "]";
    s += " i32[" + mgr_types<spec_i32>() + "]";
    s += " u32[" + mgr_types<spec_u32>() + "]";
    s += " u32s[" + mgr_types<spec_u32s>() + "]";
    s += " default=" + std::string(std::is_same<decltype(std::declval<igris::timer<int> &>().finish()), int64_t>::value ? "int64" : "other");
    return s;
}

static const std::set<std::string> mgr_ops = {"plan", "plan1", "unplan", "sets", "seti", "replan", "destroy", "dropmgr", "qmin", "q", "exec"};
static void run_op_inner(const std::vector<std::string> &w, const std::string &, hv::out &o_);
static void run_op(const std::vector<std::string> &w, const std::string &line, hv::out &o_)
{
    const std::string &op = w[0];
    bool mgr = mgr_ops.count(op) && W.t && !D_MODE;
    bool tie_before = false, ord_before = false;
    if (mgr)
    {
        tie_before = any_tie();
        ord_before = W.hz && order_bad();
        if ((op == "sets" || op == "seti") && w.size() > 1)
        {
            int i = atoi(w[1].c_str());
            if (i >= 0 && i < (int)W.t->n() && W.t->is_planned(i)) W.tdirty = true;
        }
        if (op == "exec" && w.size() > 2)
            for (auto &r : parse_rules(w[2]))
                for (auto &a : r.acts)
                    if (a.kind == 's' || a.kind == 'i') W.tdirty = true;
    }
    run_op_inner(w, line, o_);
    if (mgr && W.t)
    {
        if ((W.tdirty && (tie_before || any_tie())) || (W.hz && (ord_before || order_bad()))) W.tainted = true;
        if (W.tainted)
        {
            // the order among equal deadlines (left open by the property) decides what happens from here on:
            // nothing is compared with the model until the next reset; the oracle keeps judging every op
            o_.result = "tie-dependent";
            out(o_).tag("tie-order-dependent");
        }
    }
}
static void run_op_inner(const std::vector<std::string> &w, const std::string &, hv::out &o_)
{
    out o(o_);
    world &W_ = W;
    const std::string &op = w[0];
    auto I = [&](size_t k) { return (i64)strtoll(w[k].c_str(), 0, 10); };
    if (op == "reset")
    {
        drop_world();
        D_MODE = w[1] == "D";
        if (D_MODE) { d_reset(); o.result = "ok"; return; }
        if (w[1] == "C") { o.result = "ok"; return; }
        if (w[1] == "s" || w[1] == "S" || w[1] == "T")
        {
            memset(&ST, 0, sizeof ST);
            ST_WIDE = w[1] == "S";
            ST_LONG = w[1] == "T";
            ST_VSTART = ST_VIV = 0;
            o.result = "ok";
            return;
        }
        if (w[1] == "u" || w[1] == "U")
        {
            W_.t = new impl<spec_u32>(atoi(w[2].c_str()), -1);
            W_.oracle_on = w[1] == "u";
            W_.hz = w[1] == "U";
        }
        else if (w[1] == "i" || w[1] == "I")
        {
            // timer_spec<int32_t>: a signed 32-bit tick counter (wraps after 2^31 ticks)
            W_.t = new impl<spec_i32>(atoi(w[2].c_str()), -1);
            W_.oracle_on = w[1] == "i";
            W_.hz = w[1] == "I";
        }
        else if (w[1] == "v" || w[1] == "V")
        {
            W_.t = new impl<spec_u32s>(atoi(w[2].c_str()), -1);
            W_.oracle_on = w[1] == "v";
            W_.hz = w[1] == "V";
        }
        else if (w[1] == "l")
        {
            // the shipped timer_spec<int64_t>; every tick value of the op lines is moved by <off> (modulo 2^64)
            // before the code sees it, so that a history around 0 runs across the wrap of the 64-bit counter
            W_.t = new impl<spec_i64>(atoi(w[2].c_str()), -1, (unsigned long)parse_wide(w[3]));
        }
        else if (w[1] == "z")
        {
            int n = atoi(w[2].c_str());
            W_.t = new impl<igris::timer_spec<int64_t>>(n, n - 1);
            W_.unarmed = n - 1;
        }
        else W_.t = new impl<igris::timer_spec<int64_t>>(atoi(w[1].c_str()), -1);
        o.result = "ok";
        return;
    }
    W_.o = &o;
    if (D_MODE) { d_op(w, o); return; }
    if (op == "consts")
    {
        o.result = consts_line();
        o.tag("consts");
        // sizeof(delegate) is not fixed by the property (padding, an extra member): reported as a tag, not compared
        o.tag(("sizeof-delegate-" + std::to_string(sizeof(igris::delegate<void, int>))).c_str());
        return;
    }
    if (op == "premain")
    {
        o.result = std::string(PM_BUF, PM_LEN);
        if (o.result != "f=0:3,1:5,0:6 m=2 e=0 n=9223372036854775807 s=01 l=0") o.fail("the scenario run before main() did not behave like the same scenario after main()");
        o.tag("before-main");
        return;
    }
    if (mgr_ops.count(op) && !W_.t)
    {
        o.result = "bad-op";
        o.fail("manager op without a manager");
        return;
    }
    iface *Tp = W_.t;
#define T (*Tp)
    if (op == "plan" || op == "plan1")
    {
        int i = (int)I(1);
        if (T.is_planned(i)) o.tag("plan-while-planned");
        for (size_t j = 0; j < T.n(); j++)
            if ((int)j != i && T.is_planned((int)j) && T.finish((int)j) == T.raw_time(I(2) + I(3))) { o.tag("plan-tie"); break; }
        if (op == "plan") T.plan(i, I(2), I(3));
        else
        {
            T.set_start(i, I(2));
            T.set_interval(i, I(3));
            T.plan1(i);
            o.tag("plan-1arg");
        }
        W_.ref.plan(i, I(2), I(3));
        W_.last_fire.erase(i);
        W_.anch[i] = {I(2), I(3), 0};
        o.result = summary(o);
        return;
    }
    if (op == "unplan")
    {
        int i = (int)I(1);
        o.tag(T.is_planned(i) ? "unplan-planned" : "unplan-unplanned");
        T.unplan(i);
        W_.ref.unplan(i);
        W_.last_fire.erase(i);
        W_.anch.erase(i);
        o.result = summary(o);
        return;
    }
    if (op == "sets" || op == "seti")
    {
        int i = (int)I(1);
        if (T.is_planned(i)) { W_.dirty = true; o.tag("setter-on-planned"); }
        else o.tag("setter-on-unplanned");
        if (op == "sets") { T.set_start(i, I(2)); W_.ref.fld[i].first = I(2); }
        else { T.set_interval(i, I(2)); W_.ref.fld[i].second = I(2); }
        W_.last_fire.erase(i);
        W_.anch.erase(i);
        o.result = summary(o);
        return;
    }
    if (op == "replan")
    {
        int i = (int)I(1);
        o.tag(T.is_planned(i) ? "replan-planned" : "replan-unplanned");
        T.plan1(i);
        W_.ref.replan(i);
        W_.last_fire.erase(i);
        W_.anch[i] = {W_.ref.fld[i].first, W_.ref.fld[i].second, 0};
        o.result = summary(o);
        return;
    }
    if (op == "destroy")
    {
        int i = (int)I(1);
        o.tag(T.is_planned(i) ? "destroy-planned" : "destroy-unplanned");
        T.renew(i);
        W_.ref.unplan(i);
        W_.ref.fld[i] = {0, 0};
        W_.last_fire.erase(i);
        W_.anch.erase(i);
        o.result = summary(o);
        return;
    }
    if (op == "dropmgr")
    {
        o.tag(T.empty() ? "dropmgr-empty" : "dropmgr-pending");
        T.renew_mgr();
        for (size_t i = 0; i < T.n(); i++) W_.ref.unplan((int)i);
        W_.last_fire.clear();
        W_.anch.clear();
        // every timer must have been unlinked by the manager's destructor
        for (size_t i = 0; i < T.n(); i++)
            if (T.is_planned((int)i)) ofail("timer " + std::to_string(i) + " is still linked after its manager was destroyed");
        o.result = summary(o);
        return;
    }
    if (op == "qmin")
    {
        // minimal_interval() called unconditionally (finding C16-minimal-interval-empty: on an
        // empty manager the code reads start/interval through the list head; ASan aborts here)
        W_.cur = I(1);
        bool e = T.empty();
        i64 m = T.minimal_interval(W_.cur);
        o.result = std::to_string(m);
        if (e) { if (m != T.diff_max()) o.fail("minimal_interval() on an empty manager returned " + std::to_string(m) + " (no next deadline exists: numeric_limits<difftime_t>::max() expected)"); }
        else if (m != T.raw_diff(W_.ref.earliest() - W_.cur)) ofail("minimal_interval differs from the reference's time to the next deadline");
        o.tag(e ? "qmin-empty" : "qmin");
        return;
    }
    if (op == "q")
    {
        W_.cur = I(1);
        o.result = summary(o);
        return;
    }
    if (op == "exec")
    {
        i64 now = I(1);
        if (W_.fires_seen && now == W_.now) o.tag("exec-same-time");
        if (W_.fires_seen && (T.raw_time(now) < T.raw_time(W_.now)) && now > W_.now) o.tag("exec-across-wrap");
        W_.maxnow = W_.fires_seen ? std::max(W_.maxnow, now) : now;
        W_.fires_seen = true;
        W_.now = now;
        W_.cur = now;
        W_.rules = parse_rules(w[2]);
        W_.k = 0;
        W_.fires.clear();
        W_.touched.clear();
        W_.nested_seen = false;
        W_.stack.clear();
        {
            ectx c;
            c.now = now;
            W_.stack.push_back(c);
        }
        // snapshot for the direct catch-up check
        auto before = W_.ref.pend;
        {
            std::set<i64> ds;
            size_t due = 0;
            for (auto &p : before)
                if (p.second.first <= now) { due++; ds.insert(p.second.first); }
            if (due > ds.size()) o.tag("tie-among-due");
            if (due >= 2) o.tag("several-due");
            for (auto &p : before)
                if (T.raw_time(p.second.first) < T.raw_time(p.second.first - p.second.second)) { o.tag("deadline-beyond-wrap"); break; }
        }
        W_.tg = world::tiegrp();
        W_.in_exec = true;
        T.exec(now);
        W_.in_exec = false;
        W_.stack.clear();
        ref_unarmed(now, true);
        std::string f;
        // (the oracle below reads W_.fires per timer only: sorting inside runs of one deadline does not change what it sees)
        canon_fires(W_.fires);
        for (auto &x : W_.fires)
        {
            if (!f.empty()) f += ",";
            f += std::to_string(x.first) + ":" + std::to_string(x.second);
        }
        if (f.empty()) f = "-";
        // ---- oracle after exec, directly on the real objects ----
        for (size_t i = 0; i < T.n(); i++)
            if (T.is_planned((int)i) && T.virt(T.finish((int)i), now) <= now)
                ofail("a planned timer whose deadline has passed did not run: timer " + std::to_string(i));
        if (!W_.ref.empty() && W_.ref.earliest() <= now) ofail("reference still has a due timer after exec");
        // timers no callback touched: exactly one firing per elapsed period, no drift
        int unarmed = W_.unarmed;
        for (auto &p : before)
        {
            int id = p.first;
            i64 d = p.second.first, iv = p.second.second;
            std::vector<i64> got;
            for (auto &x : W_.fires)
                if (x.first == id) got.push_back(T.virt(x.second, now));
            if (W_.touched.count(id) || W_.nested_seen) continue;
            i64 want = d <= now ? (now - d) / iv + 1 : 0;
            if (id == unarmed)
            {
                if (!got.empty()) ofail("an unarmed delegate made a callback");
                o.tag("unarmed-delegate");
            }
            else
            {
                if ((i64)got.size() != want) ofail("timer " + std::to_string(id) + " fired " + std::to_string(got.size()) + " times, elapsed periods " + std::to_string(want));
                for (size_t k = 0; k < got.size(); k++)
                    if (got[k] != d + (i64)k * iv) { ofail("drift: firing deadline is not start + k*interval: timer " + std::to_string(id)); break; }
            }
            if (!T.is_planned(id) || T.finish(id) != T.raw_time(d + want * iv)) ofail("re-arm: deadline is not previous deadline + interval: timer " + std::to_string(id));
            if (want >= 2) o.tag("catch-up");
            if (want >= 10) o.tag("long-gap");
        }
        // no drift over the whole history: a timer planned at (s, iv) and left alone has fired floor((now - s)/iv) times
        for (auto &a : W_.anch)
        {
            if (!W_.ref.pending(a.first) || a.first == unarmed || W_.nested_seen) continue;
            i64 s = a.second.s, iv = a.second.iv;
            if (iv <= 0) continue;
            i64 want = now >= s ? (now - s) / iv : 0;
            i64 most = W_.maxnow >= s ? (W_.maxnow - s) / iv : 0; // (a nested exec may have run with a later time)
            if (a.second.count > most) ofail("timer " + std::to_string(a.first) + " has fired more often than floor((now - start)/interval)");
            if (a.second.count < want && !W_.touched.count(a.first)) ofail("timer " + std::to_string(a.first) + " has fired less often than floor((now - start)/interval)");
            if (a.second.count >= 2) o.tag("history-no-drift-checked");
        }
        for (size_t i = 0; i < T.n(); i++)
            if (!before.count((int)i) && !W_.touched.count((int)i))
                for (auto &x : W_.fires)
                    if (x.first == (int)i) { ofail("an unplanned timer fired: timer " + std::to_string(i)); break; }
        if (W_.fires.empty()) o.tag("nothing-due");
        else o.tag("fired");
        if (W_.fires.size() >= 2) o.tag("multi-fire");
        o.result = "f=" + f + " " + summary(o);
        return;
    }
#undef T
    if (ST_LONG)
    {
        // stimer on `long` values exactly as given; the oracle evaluates the statement on 128-bit integers:
        //   stimer_check <-> planed && (elapsed = (curtime - start) reduced modulo 2^64 into [-2^63, 2^63)) >= interval
        //   and, whenever curtime - start itself lies in [-2^63, 2^63) (the admissible region of the transfer theorem):
        //   stimer_check <-> planed && start + interval <= curtime   over the integers (no wrap)
        typedef __int128 I128;
        const I128 P63_ = (I128)1 << 63, P64_ = (I128)1 << 64;
        auto red = [&](I128 v) { while (v >= P63_) v -= P64_; while (v < -P63_) v += P64_; return v; };
        auto judge = [&](long now, const struct stimer_head &b, bool &inwin) {
            I128 d = (I128)now - (I128)b.start;
            inwin = d >= -P63_ && d < P63_;
            return b.planed != 0 && red(d) >= (I128)b.interval;
        };
        auto tags = [&](long now, const struct stimer_head &b, bool inwin) {
            o.tag("stimer-long");
            if (!inwin) o.tag("stimer-outside-window");
            else if (now < b.start) o.tag("stimer-start-ahead-of-clock");
            if (b.interval >= LONG_MAX - 1 || b.interval == LONG_MIN) o.tag("stimer-huge-interval");
            if (b.interval <= 0) o.tag("stimer-nonpositive-interval");
            if ((I128)b.start + b.interval > LONG_MAX || (I128)b.start + b.interval < LONG_MIN) o.tag("stimer-deadline-beyond-wrap");
        };
        if (op == "sinit") { stimer_init(&ST, I(1), I(2)); if (ST.start != I(1) || ST.interval != I(2) || ST.planed != 0) o.fail("stimer_init: fields"); o.result = show_st(); o.tag("stimer-long"); return; }
        if (op == "splan") { stimer_plan(&ST, I(1), I(2)); if (ST.start != I(1) || ST.interval != I(2) || ST.planed != 1) o.fail("stimer_plan: fields"); o.result = show_st(); o.tag("stimer-long"); return; }
        if (op == "sstart") { struct stimer_head b = ST; stimer_start(&ST, I(1)); if (ST.start != I(1) || ST.interval != b.interval || ST.planed != 1) o.fail("stimer_start: fields"); o.result = show_st(); o.tag("stimer-long"); return; }
        if (op == "sswift")
        {
            struct stimer_head b = ST;
            stimer_swift(&ST);
            if ((I128)ST.start != red((I128)b.start + b.interval) || ST.interval != b.interval || ST.planed != b.planed) o.fail("stimer_swift: start is not (start + interval) modulo 2^64");
            o.result = show_st();
            o.tag("stimer-long");
            return;
        }
        if (op == "sfinish")
        {
            unsigned long f = stimer_finish(&ST);
            I128 want = (I128)ST.start + ST.interval;
            while (want < 0) want += P64_;
            while (want >= P64_) want -= P64_;
            if ((I128)f != want) o.fail("stimer_finish != (start + interval) modulo 2^64");
            o.result = std::to_string(f);
            o.tag("stimer-long");
            return;
        }
        if (op == "scheck" || op == "speriodic")
        {
            long now = I(1);
            struct stimer_head b = ST;
            bool inwin = false;
            bool due = judge(now, b, inwin);
            bool due_int = b.planed != 0 && (I128)b.start + b.interval <= (I128)now;
            tags(now, b, inwin);
            bool got;
            if (op == "scheck")
            {
                int c = stimer_check(&ST, now);
                got = c != 0;
                if (c != 0 && c != 1) o.fail("stimer_check returned neither 0 nor 1");
                o.result = c ? "1" : "0";
                if (ST.start != b.start || ST.interval != b.interval || ST.planed != b.planed) o.fail("stimer_check changed the timer");
                o.tag(c ? "stimer-due" : (ST.planed ? "stimer-not-due" : "stimer-unplanned"));
            }
            else
            {
                bool fired = false;
                STIMER_PERIODIC(&ST, now) { fired = true; }
                got = fired;
                if (fired && ((I128)ST.start != red((I128)b.start + b.interval) || ST.interval != b.interval || ST.planed != b.planed))
                    o.fail("STIMER_PERIODIC re-arm is not previous start + interval (modulo 2^64)");
                if (!fired && (ST.start != b.start || ST.interval != b.interval || ST.planed != b.planed)) o.fail("STIMER_PERIODIC changed a timer that is not due");
                o.result = std::string(fired ? "1 " : "0 ") + show_st();
                o.tag(fired ? "stimer-periodic-fired" : "stimer-periodic-idle");
            }
            if (got != due) o.fail("stimer: due differs from planed && elapsed (modulo 2^64, as signed) >= interval");
            if (inwin && got != due_int) o.fail("stimer: due differs from planed && start + interval <= curtime although curtime is within half the range of start");
            return;
        }
        o.result = "bad-op";
        o.fail("unknown op");
        return;
    }
    if (ST_WIDE)
    {
        // stimer fed with tick values modulo 2^64; oracle: the rule on the unbounded values
        auto WV = [&](size_t k) { return parse_wide(w[k]); };
        auto BV = [&](size_t k) { return parse_big(w[k]); };
        o.tag("stimer-wide");
        if (op == "sinit") { stimer_init(&ST, WV(1), WV(2)); ST_VSTART = BV(1); ST_VIV = BV(2); o.result = show_st(); return; }
        if (op == "splan") { stimer_plan(&ST, WV(1), WV(2)); ST_VSTART = BV(1); ST_VIV = BV(2); o.result = show_st(); return; }
        if (op == "sstart") { stimer_start(&ST, WV(1)); ST_VSTART = BV(1); o.result = show_st(); return; }
        if (op == "sswift")
        {
            stimer_swift(&ST);
            ST_VSTART += ST_VIV;
            if ((long)(unsigned long)ST_VSTART != ST.start) o.fail("stimer_swift: start is not (start + interval) modulo 2^64");
            o.result = show_st();
            return;
        }
        if (op == "sfinish")
        {
            unsigned long f = stimer_finish(&ST);
            o.result = std::to_string(f);
            if ((unsigned long)(ST_VSTART + ST_VIV) != f) o.fail("stimer_finish != start + interval modulo 2^64");
            return;
        }
        if (op == "scheck" || op == "speriodic")
        {
            __int128 now = BV(1);
            bool due = ST.planed && now >= ST_VSTART + ST_VIV;
            if ((long)(unsigned long)ST_VSTART > (long)(unsigned long)now) o.tag("stimer-across-wrap");
            if (op == "scheck")
            {
                int c = stimer_check(&ST, WV(1));
                o.result = c ? "1" : "0";
                if ((c != 0) != due) o.fail("stimer_check across the wrap differs from planned && now >= start + interval (unbounded time)");
                o.tag(c ? "stimer-due" : (ST.planed ? "stimer-not-due" : "stimer-unplanned"));
                return;
            }
            bool fired = false;
            long tnow = WV(1);
            STIMER_PERIODIC(&ST, tnow) { fired = true; }
            if (fired != due) o.fail("STIMER_PERIODIC across the wrap: body ran although not due (or did not run although due)");
            if (fired) ST_VSTART += ST_VIV;
            if ((long)(unsigned long)ST_VSTART != ST.start || (long)(unsigned long)ST_VIV != ST.interval)
                o.fail("STIMER_PERIODIC across the wrap: start is not the previous start + interval (modulo 2^64)");
            o.result = std::string(fired ? "1 " : "0 ") + show_st();
            o.tag(fired ? "stimer-periodic-fired" : "stimer-periodic-idle");
            return;
        }
        o.result = "bad-op";
        o.fail("unknown op");
        return;
    }
    // ---------------- stimer ----------------
    if (op == "sinit") { stimer_init(&ST, I(1), I(2)); o.result = show_st(); o.tag("stimer"); return; }
    if (op == "splan") { stimer_plan(&ST, I(1), I(2)); o.result = show_st(); o.tag("stimer"); return; }
    if (op == "sstart") { stimer_start(&ST, I(1)); o.result = show_st(); o.tag("stimer"); return; }
    if (op == "sswift") { stimer_swift(&ST); o.result = show_st(); o.tag("stimer"); return; }
    if (op == "sfinish")
    {
        unsigned long f = stimer_finish(&ST);
        o.result = std::to_string(f);
        if ((unsigned long)((__int128)ST.start + ST.interval) != f) o.fail("stimer_finish != start + interval");
        o.tag("stimer");
        return;
    }
    if (op == "scheck")
    {
        int c = stimer_check(&ST, I(1));
        o.result = c ? "1" : "0";
        bool due = ST.planed && (__int128)I(1) >= (__int128)ST.start + ST.interval;
        if ((c != 0) != due) o.fail("stimer_check differs from planned && now >= start + interval");
        o.tag(c ? "stimer-due" : (ST.planed ? "stimer-not-due" : "stimer-unplanned"));
        return;
    }
    if (op == "speriodic")
    {
        struct stimer_head b = ST;
        bool fired = false;
        STIMER_PERIODIC(&ST, I(1)) { fired = true; }
        bool due = b.planed && (__int128)I(1) >= (__int128)b.start + b.interval;
        if (fired != due) o.fail("STIMER_PERIODIC body ran although not due (or did not run although due)");
        if (fired && (ST.start + ST.interval != b.start + 2 * b.interval || ST.interval != b.interval || !ST.planed))
            o.fail("STIMER_PERIODIC re-arm is not previous deadline + interval");
        if (!fired && (ST.start != b.start || ST.interval != b.interval || ST.planed != b.planed)) o.fail("STIMER_PERIODIC changed a timer that is not due");
        o.result = std::string(fired ? "1 " : "0 ") + show_st();
        o.tag(fired ? "stimer-periodic-fired" : "stimer-periodic-idle");
        return;
    }
    o.result = "bad-op";
    o.fail("unknown op");
}

// the generator is in harness/C16_gen.cpp
void c16_gen(hv::rng &r, const std::string &tier);

int main(int argc, char **argv)
{
    int rc = hv::main_(argc, argv, c16_gen, run_op);
    drop_world();
    return rc;
}
