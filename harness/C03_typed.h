// C03 harness: igris::ring<T> against a std::deque reference (instantiated in C03_tint.cpp / C03_tchar.cpp)
#ifndef IGRIS_VERIF_C03_TYPED_H
#define IGRIS_VERIF_C03_TYPED_H
#include "C03_common.h"

// ================================================================== typed ring
template <class T> struct TR
{
    std::unique_ptr<igris::ring<T>> t;
    std::deque<T> q;
    static constexpr bool is_char = sizeof(T) == 1;

    std::string state()
    {
        auto &x = *t;
        return S(x.head_index()) + " " + S(x.tail_index()) + " " + S(x.avail()) + " " + S(x.room()) + " " +
               S(x.size()) + " " + S(x.empty() ? 1 : 0) + " " + S(std::min<uint64_t>(acc::bufsize(x), acc::rsize(x)));
    }
    void resync()
    {
        auto &x = *t;
        q.clear();
        uint64_t size = acc::rsize(x);
        if (!size || acc::rhead(x) >= size || acc::rtail(x) >= size || acc::bufsize(x) < size) return;
        for (uint64_t i = acc::rtail(x); i != acc::rhead(x); i = (i + 1) % size) q.push_back(acc::slot(x, i));
    }
    void check(out &o)
    {
        auto &x = *t;
        uint64_t size = acc::rsize(x);
        if (acc::bufsize(x) < size)
            o.fail("ring size " + S(size) + " exceeds its buffer of " + S(acc::bufsize(x)) + " elements");
        if (!(acc::rhead(x) < size)) o.fail("head outside [0,size)");
        if (!(acc::rtail(x) < size)) o.fail("tail outside [0,size)");
        if ((uint64_t)x.avail() + x.room() != size - 1) o.fail("avail+room != size-1");
        if (x.avail() != q.size()) o.fail("avail " + S(x.avail()) + " != reference " + S(q.size()));
        if (x.empty() != q.empty()) o.fail("empty() disagrees with reference");
        if (acc::rhead(x) < acc::rtail(x)) o.tag("wrapped");
        if (size & (size - 1)) o.tag("nonpow2");
        if (acc::rhead(x) == 0) o.tag("head0");
        // stored elements = reference queue, in order
        if (acc::bufsize(x) >= size && acc::rtail(x) < size && x.avail() == q.size())
        {
            uint64_t i = acc::rtail(x);
            for (size_t k = 0; k < q.size(); k++, i = (i + 1) % size)
                if (acc::slot(x, i) != q[k]) { o.fail("stored element " + S(k) + " differs from reference"); break; }
        }
    }
    void run(const std::vector<std::string> &w, out &o)
    {
        auto &x = *t;
        const std::string &op = w[0];
        int64_t size = acc::rsize(x);
        std::string ret = "-";
        if (op == "push" || op == "emplace")
        {
            T v = (T)strtol(w[1].c_str(), 0, 10);
            bool full = (int64_t)q.size() == size - 1;
            if (op == "push") x.push(v); else x.emplace(v);
            if (full) { resync(); o.tag("overmove"); } else q.push_back(v);
        }
        else if (op == "pop")
        {
            bool empty = q.empty();
            x.pop();
            if (empty) { resync(); o.tag("overmove"); } else q.pop_front();
        }
        else if (op == "pushfull" || op == "popempty")
        { // the property's clause "a full ring rejects writes / an empty ring rejects reads without
          // changing state", judged on push()/pop() of the typed ring (recorded finding: they do not test)
            unsigned h0 = acc::rhead(x), t0 = acc::rtail(x), a0 = x.avail();
            if (op == "pushfull") x.push((T)strtol(w[1].c_str(), 0, 10)); else x.pop();
            bool applies = op == "pushfull" ? (int64_t)q.size() == size - 1 : q.empty();
            if (applies && (acc::rhead(x) != h0 || acc::rtail(x) != t0 || x.avail() != a0))
                o.fail(op == "pushfull" ? "push on a full ring was not rejected: " + S(a0) + " stored elements became " + S(x.avail())
                                        : "pop on an empty ring was not rejected: avail became " + S(x.avail()));
            else if (!applies) { if (op == "pushfull") q.push_back((T)strtol(w[1].c_str(), 0, 10)); else q.pop_front(); }
            if (applies) { resync(); o.tag("overmove"); }
        }
        else if (op == "pushalias")
        { // the argument aliases the slot that push() constructs into
            bool full = (int64_t)q.size() == size - 1;
            T v = x.head_place();
            x.push(x.head_place());
            if (full) { resync(); o.tag("overmove"); } else q.push_back(v);
            o.tag("alias");
        }
        else if (op == "clear") { x.clear(); q.clear(); if (!x.empty()) o.fail("not empty after clear"); }
        else if (op == "mh1") { x.move_head_one(); resync(); }
        else if (op == "mt1") { x.move_tail_one(); resync(); }
        else if (op == "rst")
        {
            x.reset(); q.clear();
            if (x.size() != acc::bufsize(x)) o.fail("reset: ring size != buffer size");
        }
        else if (op == "resize")
        {
            size_t n = strtoul(w[1].c_str(), 0, 10);
            x.resize(n); q.clear();
            if (x.room() != n) o.fail("resize(" + S(n) + "): room " + S(x.room()));
        }
        else if (op == "tail")
        {
            T &e = x.tail();
            ret = S((int)e) + "@" + S(x.index_of(&e));
            if (x.index_of(&e) != (int)acc::rtail(x)) o.fail("tail() addresses slot " + S(x.index_of(&e)));
            if (!q.empty() && e != q.front()) o.fail("tail() is not the oldest element");
        }
        else if (op == "last")
        {
            T &e = x.last();
            int idx = x.index_of(&e);
            ret = S((int)e) + "@" + S(idx);
            if (idx != emod((int64_t)acc::rhead(x) - 1, size))
                o.fail("last() addresses slot " + S(idx) + " at head " + S(acc::rhead(x)) + " size " + S(size));
            else if (!q.empty() && e != q.back()) o.fail("last() is not the newest element");
        }
        else if (op == "headplace") ret = S((int)x.head_place());
        else if (op == "get") ret = S((int)x.get((int)strtol(w[1].c_str(), 0, 10)));
        else if (op == "getlast")
        {
            int off = (int)strtol(w[1].c_str(), 0, 10), cnt = (int)strtol(w[2].c_str(), 0, 10);
            bool fe = w[3] == "1";
            std::vector<T> v = x.get_last(off, cnt, fe);
            ret = "";
            for (int i = 0; i < cnt; i++) ret += (i ? "," : "") + S((int)v[i]);
            if (cnt == 0) ret = "-";
            for (int i = 0; i < cnt; i++)
            {
                int64_t back = fe ? (int64_t)off + i : (int64_t)off + cnt - 1 - i; // 0 = newest
                int64_t slot = emod((int64_t)acc::rhead(x) - 1 - back, size);
                if (v[i] != acc::slot(x, slot))
                    o.fail("get_last element " + S(i) + " is not slot " + S(slot));
                else if (back >= 0 && back < (int64_t)q.size() && v[i] != q[q.size() - 1 - back])
                    o.fail("get_last element " + S(i) + " is not the " + S(back) + "-th previous element");
            }
            if (off + cnt > (int64_t)acc::rhead(x)) o.tag("getlast-wrap");
        }
        else if (op == "fixup")
        {
            int i = (int)strtol(w[1].c_str(), 0, 10);
            int v = x.fixup_index(i);
            ret = S(v);
            if (v != emod(i, size)) o.fail("fixup_index(" + S(i) + ") = " + S(v) + " for size " + S(size));
            if (i < 0) o.tag("fix-neg");
        }
        else if (op == "distance")
        {
            int a = (int)strtol(w[1].c_str(), 0, 10), b = (int)strtol(w[2].c_str(), 0, 10);
            int v = x.distance(a, b);
            ret = S(v);
            if (v != emod((int64_t)a - b, size)) o.fail("distance(" + S(a) + "," + S(b) + ") = " + S(v));
            if (a < b) o.tag("distance-wrap");
        }
        else if (op == "setlast")
        {
            int i = (int)strtol(w[1].c_str(), 0, 10);
            x.set_last_index(i);
            if ((int64_t)acc::rhead(x) != emod((int64_t)i + 1, size)) o.fail("set_last_index: head " + S(acc::rhead(x)));
            resync();
        }
        else if (op == "settail")
        { // `r` is a public member ("direct control"): place the tail, e.g. next to an index-width boundary
            acc::set_tail(x, (unsigned)strtoul(w[1].c_str(), 0, 10));
            resync();
        }
        else if (op == "fillbuf")
        { // the buffer is public too: slot i := i + 1, so that a store to a wrong slot is visible
            for (size_t i = 0; i < acc::bufsize(x); i++) acc::slot(x, i) = (T)(i + 1);
            resync();
        }
        else if (op == "copy")
        { // implicit copy constructor; the original is destroyed, the copy carries on
            std::unique_ptr<igris::ring<T>> c(new igris::ring<T>(x));
            if (acc::storage(*c) == acc::storage(x)) o.fail("copy shares the storage");
            t = std::move(c);
            o.tag("copy");
        }
        else if (op == "assign")
        { // implicit copy assignment into a ring of another size
            std::unique_ptr<igris::ring<T>> c(new igris::ring<T>(3));
            c->push((T)9);
            *c = x;
            if (acc::storage(*c) == acc::storage(x)) o.fail("assignment shares the storage");
            t = std::move(c);
            o.tag("copy");
        }
        else if (op == "move")
        { // implicit move constructor; what is left in the moved-from object is printed
            std::unique_ptr<igris::ring<T>> c(new igris::ring<T>(std::move(x)));
            ret = S(acc::bufsize(x, 0)) + " " + S(acc::rsize(x)); // (without the member: a moved-from ring is predicted to own nothing)
            t = std::move(c);
            o.tag("move");
        }
        else if (op == "moveback")
        { // the moved-from ring is brought back to life by resize(); the moved-to object is dropped
            size_t n = strtoul(w[1].c_str(), 0, 10);
            { igris::ring<T> c(std::move(x)); }
            x.resize(n); q.clear();
            if (x.room() != n || acc::bufsize(x) != n + 1) o.fail("resize of a moved-from ring: room " + S(x.room()));
            o.tag("move");
        }
        else if (op == "writebig" || op == "readbig")
        { // round 3b: a request of 2^32 + k elements (the parameter is a size_t).  No ring can take / deliver more
          // than size - 1 elements, so a source / destination of size + 1 elements is all such a call may touch.
            if constexpr (is_char)
            {
                size_t k = strtoul(w[1].c_str(), 0, 10), req = ((size_t)1 << 32) + k;
                if (op == "writebig")
                {
                    bytes d = unhex(w[2]);
                    if (d.size() < (size_t)size + 1) { o.result = "bad-op"; return; }
                    exact_buf src(d);
                    size_t acc = (size_t)(size - 1) - q.size();
                    size_t rc = x.write((const char *)src.p, req);
                    ret = S(rc);
                    if (rc != acc) o.fail("write of 2^32+" + S(k) + " elements returned " + S(rc) + ", room was " + S(acc));
                    for (size_t i = 0; i < acc; i++) q.push_back((char)d[i]);
                }
                else
                {
                    exact_buf dst((size_t)size + 1);
                    size_t n = q.size();
                    size_t rc = x.read((char *)dst.p, req);
                    ret = S(rc) + " " + hex(dst.p, std::min(rc, (size_t)size + 1));
                    if (rc != n) o.fail("read of 2^32+" + S(k) + " elements returned " + S(rc) + " with " + S(n) + " stored");
                    for (size_t i = 0; i < n; i++)
                    {
                        if (i < rc && (char)dst.p[i] != q.front()) o.fail("read: byte " + S(i) + " altered");
                        q.pop_front();
                    }
                }
                o.tag("size_t-request");
            }
            else { o.result = "bad-op"; return; }
        }
        else if (op == "write" || op == "read")
        {
            if constexpr (is_char)
            {
                if (op == "write")
                {
                    bytes d = unhex(w[1]);
                    exact_buf src(d);
                    size_t acc = std::min(d.size(), (size_t)(size - 1) - q.size());
                    size_t rc = x.write((const char *)src.p, d.size());
                    ret = S(rc);
                    if (rc != acc) o.fail("write returned " + S(rc) + ", room was " + S(acc));
                    for (size_t i = 0; i < acc; i++) q.push_back((char)d[i]);
                }
                else
                {
                    size_t n = strtoul(w[1].c_str(), 0, 10);
                    exact_buf dst(n);
                    size_t k = std::min(n, q.size());
                    size_t rc = x.read((char *)dst.p, n);
                    ret = S(rc) + " " + hex(dst.p, std::min(rc, n));
                    if (rc != k) o.fail("read returned " + S(rc) + " with " + S(q.size()) + " stored");
                    for (size_t i = 0; i < k; i++)
                    {
                        if (i < rc && (char)dst.p[i] != q.front()) o.fail("read: byte " + S(i) + " altered");
                        if ((uint8_t)q.front() == 0xff) o.tag("ff");
                        q.pop_front();
                    }
                }
            }
            else { o.result = "bad-op"; return; }
        }
        else { o.result = "bad-op"; return; }
        check(o);
        o.result = ret + " " + state();
    }
};
#endif
