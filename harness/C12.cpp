// C12 harness: float <-> text.
//   igris/util/numconvert.c (igris_f32toa/f64toa/ftoa, igris_atof32/atof64/strtod; #included by
//   harness/C12_libc.c so that the static rounders[] table is visible),
//   compat/libc/stdlib/strtod.c (renamed igv_strtod/igv_atof), igris/binreader.h
//   (read_ascii_decimal_float), igris/dprint/dprint_func_impl.c (debug_printdec_double_prec /
//   debug_printdec_float_prec) against the Lean model IgrisModel/C12.
//
// Operations (one per line, all stateless).  Floating-point values travel ONLY as the hex of their
// IEEE-754 encoding; nothing is ever compared through a decimal rendering of another library.
//   f32  BITS8  PREC        igris_f32toa(float(BITS8), buf, (int8_t)PREC)
//   f64  BITS16 PREC        igris_f64toa(double(BITS16), buf, PREC);  `ftoa` = igris_ftoa
//                           result: <hex of the text up to the NUL> r<offset of the returned pointer>
//                           (run twice: in a 0xA5-filled 48-byte block to find the text and check that
//                           nothing behind the NUL was written, then in a block that ends exactly at
//                           the NUL so that ASan sees any write beyond the text)
//   f32h START N STRIDE PREC  the same for the N patterns START + k*STRIDE (mod 2^32) that are not in
//                           the recorded out-of-range class; result: FNV-1a hash of text+NUL+ret
//   sweep START N PRECS     oracle only on N consecutive patterns x the listed precisions; "swept N"
//   a32 / a32n / a64 / strtod / atof / brf   HEX
//                           HEX = the bytes of an exactly sized allocation holding the NUL-terminated
//                           string; igris_atof32 (with / without end pointer), igris_atof64,
//                           compat strtod, compat atof, igris::binreader::read_ascii_decimal_float
//                           result: <bits of the value> e<end offset>   (atof / a32n: bits only)
//   dpd BITS16 PREC / dpf BITS8 PREC   debug_printdec_double_prec / debug_printdec_float_prec;
//                           result: hex of the characters given to debug_putchar
//   sf OP A [B]             hardware arithmetic on the operand encodings (validation of the model's
//                           software binary32/binary64): result = encoding of the result
//   tbl                     the rounders[] table of the compiled code: bits of the 11 doubles and of
//                           their conversions to float
#include "common/hv.h"
#include <climits>
#include <cmath>
#include <cfloat>
#include <cctype>
#include <algorithm>
#include <igris/util/numconvert.h>
#include <igris/dprint/dprint.h>
#include <igris/binreader.h>

static_assert(sizeof(float) == 4 && sizeof(double) == 8 && sizeof(long double) >= 10, "IEEE binary32/64 + x87 extended");
static_assert(std::numeric_limits<float>::is_iec559 && std::numeric_limits<double>::is_iec559, "IEEE 754");
static_assert(FLT_EVAL_METHOD == 0, "float expressions are evaluated in float (model: one rounding per operation)");
static_assert(CHAR_MIN < 0, "char is signed");
static_assert(LDBL_MANT_DIG >= 64, "oracle arithmetic needs a 64-bit significand");

extern "C"
{
    double igv_strtod(const char *, char **);
    double igv_atof(const char *);
    const double *igv_rounders(void);
    int igv_max_precision(void);
    // the WITHOUT_ATOF64 build flavour (harness/C12_libc32.c)
    double igv32_igris_strtod(const char *, char **);
    char *igv32_igris_ftoa(float, char *, int8_t);
    double igv32_strtod(const char *, char **);
    double igv32_atof(const char *);
    int igv32_sizeof_ftoa_arg(void);
}

static std::string g_out;
extern "C" void debug_putchar(char c) { g_out.push_back(c); }

using namespace hv;
typedef std::vector<uint8_t> bytes;
typedef long double ld;
static uint64_t g_seed = 1;

static float f_of(uint32_t b) { float f; memcpy(&f, &b, 4); return f; }
static double d_of(uint64_t b) { double f; memcpy(&f, &b, 8); return f; }
static uint32_t bits(float f) { uint32_t b; memcpy(&b, &f, 4); return b; }
static uint64_t bits(double f) { uint64_t b; memcpy(&b, &f, 8); return b; }
static std::string fbits(float f) { return std::isnan(f) ? "nan" : hexn(bits(f), 8); }
static std::string dbits(double f) { return std::isnan(f) ? "nan" : hexn(bits(f), 16); }

// ---------------------------------------------------------------------------------------------
// recorded out-of-range class of the renderer: the value converted to float has magnitude >= 2^31
// (int32_t cast of the integer part is undefined).  Written on the encoding, not with the code.
static bool f32_out_of_range(uint32_t b)
{
    uint32_t e = (b >> 23) & 0xff;
    return e >= 158 && e != 255;
}
static bool is_special32(uint32_t b) { return ((b >> 23) & 0xff) == 255; }

static ld POW10[32];
static void init_pow()
{
    POW10[0] = 1;
    for (int i = 1; i < 32; i++) POW10[i] = POW10[i - 1] * 10; // exact up to 10^27 in a 64-bit significand
}
static ld ulp32_of(ld a) // ulp of the binary32 binade containing a (>= 2^-149)
{
    if (a < (ld)FLT_MIN) return ldexpl(1, -149);
    int e;
    frexpl(a, &e);
    return ldexpl(1, e - 24);
}
static ld ulp64_of(ld a)
{
    if (a < (ld)DBL_MIN) return ldexpl(1, -1074);
    int e;
    frexpl(a, &e);
    return ldexpl(1, e - 53);
}

// ---------------------------------------------------------------------------------------------
// oracle for the renderers.  xa = the argument (exact, as long double), fa = it converted to float
// (what the renderer works on), prec = requested precision, text = what was written.
// Checks, independent of the code and of the model:
//   * inf/nan tokens
//   * shape [-]digits[.digits], integer part without leading zero, '-' exactly for negative arguments,
//     exactly p fraction digits (p = min(prec,10); automatic table for prec < 0), no '.' for p = 0
//   * value: with u = 10^-p and r = u/2 (p > 0; the code adds r and truncates) or r = 0 (p = 0):
//        -(u - r) - S  <  t - |x|  <=  r + S,   S = 4 ulp_binary32(|x| + r) (+ 1 ulp for a double argument)
static int auto_prec(float a)
{
    return a < 1.0f ? 6 : a < 10.0f ? 5 : a < 100.0f ? 4 : a < 1000.0f ? 3 : a < 10000.0f ? 2 : a < 100000.0f ? 1 : 0;
}
struct ftoa_verdict { const char *why; bool carry; };
static const char *check_ftoa_text(ld x, float fx, int prec8, const char *s, size_t len, bool from_double, bool *carry = 0)
{
    if (std::isnan(fx)) return (len == 3 && !memcmp(s, "nan", 3)) ? 0 : "nan-token";
    if (std::isinf(fx) && !(from_double && std::isfinite((double)x)))
        return (len == 4 && !memcmp(s, fx > 0 ? "+inf" : "-inf", 4)) ? 0 : "inf-token";
    float fa = fabsf(fx);
    ld a = fabsl(x);
    int p = prec8 > 10 ? 10 : prec8;
    if (p < 0) p = auto_prec(fa);
    size_t i = 0;
    bool neg = false;
    if (i < len && s[i] == '-') neg = true, i++;
    if (neg != (fx < 0)) return "sign";
    size_t i0 = i;
    ld ip = 0;
    while (i < len && s[i] >= '0' && s[i] <= '9') ip = ip * 10 + (s[i] - '0'), i++;
    size_t ni = i - i0;
    if (ni == 0) return "no-integer-digits";
    if (ni > 10) return "integer-part-too-long";
    if (ni > 1 && s[i0] == '0') return "leading-zero";
    ld fp = 0;
    size_t nf = 0;
    if (p > 0)
    {
        if (i >= len || s[i] != '.') return i < len ? "non-numeric-character" : "missing-point";
        i++;
        size_t j0 = i;
        while (i < len && s[i] >= '0' && s[i] <= '9') fp = fp * 10 + (s[i] - '0'), i++;
        nf = i - j0;
    }
    if (i != len) return "non-numeric-character";
    if ((int)nf != p) return "fraction-digit-count";
    ld u = 1 / POW10[p];
    ld r = p ? u / 2 : 0;
    ld t = ip + fp / POW10[p];
    ld S = (from_double ? 5 : 4) * ulp32_of(a + r);
    ld e = t - a;
    if (!(e <= r + S)) return "value-too-large";
    if (!(e > -(u - r) - S)) return "value-too-small";
    if (carry) *carry = ip > floorl(a);
    return 0;
}

// ROUND 3b: the canonical "nearest decimal" of an argument (glibc printf is correctly rounded, ties to even on the
// exact binary value): `-` exactly for arguments below zero
static std::string canon_dec(double x, int p)
{
    char g[512];
    snprintf(g, sizeof g, "%.*f", p, fabs(x));
    return std::string(x < 0 ? "-" : "") + g;
}
static int eff_prec(float fx, int prec8)
{
    int p = prec8 > 10 ? 10 : prec8;
    if (p < 0) p = auto_prec(fabsf(fx));
    return p;
}
// compared result of a renderer op: canonical text, returned offset, verdict of the oracle on the text written
static std::string canon_ftoa(ld x, float fx, int prec8, long ret, bool within)
{
    std::string c = std::isnan(fx) || std::isnan((double)x) ? "nan" : std::isinf((double)x) ? (x > 0 ? "+inf" : "-inf") : canon_dec((double)x, eff_prec(fx, prec8));
    return hex(c) + " r" + std::to_string(ret) + (within ? " within" : " outside");
}
static std::string twin_f32toa(float f, int8_t precision);
// the precision clamp, measured: fraction digits of 0.1f rendered with precision 127
static int measured_max_precision()
{
    char b[200];
    memset(b, 0, sizeof b);
    igris_f32toa(0.1f, b, 127);
    const char *dot = strchr(b, '.');
    return dot ? (int)strlen(dot + 1) : 0;
}

struct ftoa_out { std::string text; long ret; bool clean; };
// kind 0: f32toa, 1: f64toa, 2: ftoa
static ftoa_out run_ftoa(int kind, uint64_t b, int8_t prec)
{
    ftoa_out o;
    auto call = [&](char *buf) -> char * {
        switch (kind)
        {
        case 0: return igris_f32toa(f_of((uint32_t)b), buf, prec);
        case 1: return igris_f64toa(d_of(b), buf, prec);
        case 2: return igris_ftoa(d_of(b), buf, prec);
        default: return igv32_igris_ftoa(d_of(b), buf, prec); // the double is converted to float32_t at the call
        }
    };
    const size_t BIG = 48;
    exact_buf b1(BIG);
    char *r1 = call((char *)b1.p);
    size_t n = 0;
    while (n < BIG && b1.p[n]) n++;
    o.clean = n < BIG;
    for (size_t k = n + 1; k < BIG; k++)
        if (b1.p[k] != 0xA5) o.clean = false;
    o.text.assign((char *)b1.p, n);
    o.ret = r1 - (char *)b1.p;
    // second run: the block ends exactly behind the NUL
    exact_buf b2(n + 1);
    char *r2 = call((char *)b2.p);
    if (memcmp(b2.p, b1.p, n + 1) || r2 - (char *)b2.p != o.ret) o.clean = false;
    return o;
}

static uint64_t fnv(uint64_t h, const void *p, size_t n)
{
    const uint8_t *q = (const uint8_t *)p;
    for (size_t i = 0; i < n; i++) h = (h ^ q[i]) * 0x100000001b3ull;
    return h;
}

// ---------------------------------------------------------------------------------------------
// independent matcher for the literal grammar  [+-] d* [ . d* ] [ (e|E) [+-] d+ ]
struct lit
{
    size_t end = 0;
    bool neg = false, sign = false, dot = false, hasexp = false;
    std::string ip, fp;
    long ex = 0;       // decimal exponent (saturated at +-1000000)
    size_t expdigits = 0;
};
static bool dig(uint8_t c) { return c >= '0' && c <= '9'; }
static lit match_literal(const uint8_t *s)
{
    lit L;
    size_t i = 0;
    if (s[i] == '+' || s[i] == '-') L.sign = true, L.neg = s[i] == '-', i++;
    while (dig(s[i])) L.ip.push_back(s[i++]);
    if (s[i] == '.')
    {
        L.dot = true, i++;
        while (dig(s[i])) L.fp.push_back(s[i++]);
    }
    if (s[i] == 'e' || s[i] == 'E')
    {
        size_t j = i + 1;
        bool eneg = false;
        if (s[j] == '+' || s[j] == '-') eneg = s[j] == '-', j++;
        if (dig(s[j]))
        {
            long e = 0;
            while (dig(s[j]))
            {
                if (e < 1000000) e = e * 10 + (s[j] - '0');
                j++, L.expdigits++;
            }
            L.hasexp = true, L.ex = eneg ? -e : e, i = j;
        }
    }
    L.end = i;
    return L;
}
static size_t sigdigits(const lit &L)
{
    std::string m = L.ip + L.fp;
    size_t z = 0;
    while (z < m.size() && m[z] == '0') z++;
    return m.size() - z;
}
// decimal value of the literal through glibc (correctly rounded); the literal is re-assembled so that
// glibc's grammar accepts it (it needs a mantissa digit) and must be consumed completely
static bool ref_value(const lit &L, bool single, ld *out)
{
    if (L.ip.empty() && L.fp.empty()) { *out = L.neg ? -0.0L : 0.0L; return true; }
    std::string c = (L.neg ? "-" : "") + (L.ip.empty() ? std::string("0") : L.ip) + "." + L.fp + "e" + std::to_string(L.ex);
    char *e = 0;
    ld v = single ? (ld)strtof(c.c_str(), &e) : (ld)strtod(c.c_str(), &e);
    if (*e) return false;
    *out = v;
    return true;
}
// recorded class of igris_atof32: integer part >= 2^32 (atou32 wraps) or more than 18 fraction
// digits (local_pow overflows int64_t)
static bool a32_out_of_range(const lit &L)
{
    std::string ip = L.ip;
    size_t z = 0;
    while (z < ip.size() && ip[z] == '0') z++;
    ip = ip.substr(z);
    if (ip.size() > 10 || (ip.size() == 10 && ip > "4294967295")) return true;
    return L.fp.size() > 18;
}

// recorded class of igris_atof64: the digit string, read as an integer, is not below 2^1022 (309 or more
// significant integer+fraction digits): it overflows to +inf before the scaling loop can bring it back
static bool a64_mantissa_overflow(const lit &L)
{
    std::string m = L.ip + L.fp;
    size_t z = 0;
    while (z < m.size() && m[z] == '0') z++;
    return m.size() - z >= 308;
}
// theorem budget of a literal in half units of 2^-53 (atofCost of the Lean model, closed form): the class
// with budget <= 6 is guaranteed within 3.03 * 2^-53 * |value| by theorem atof64_error_bound_partial
static bool a64_small_budget(const lit &L)
{
    long d = L.ex - (long)L.fp.size();
    return sigdigits(L) <= 15 && labs(d) <= 2 && (L.ip.size() + L.fp.size()) <= 15;
}

// glibc strtod/strtof RESTRICTED TO THE DECIMAL GRAMMAR of the property: the string is cut at the first
// character that cannot occur in a decimal literal (so glibc never sees a hex float, inf, nan), and leading
// white space - which glibc skips and the property's grammar does not have - means "no conversion".
// Yields the end offset and the correctly rounded value; a string without a mantissa digit converts nothing
// (end 0, value 0: C11 7.22.1.3p4/p7).
struct gref { long end; ld val; };
// per-string cache (exhaustive batches call nine entry points on one string: two glibc conversions instead of 27)
struct refcache { const uint8_t *s = 0; bool haveg[2] = {false, false}, haver[2] = {false, false}, rok[2] = {false, false}; gref g[2]; ld r[2]; };
static refcache *g_cache = 0;
static gref glibc_decimal_raw(const uint8_t *s, bool single);
static gref glibc_decimal(const uint8_t *s, bool single)
{
    if (g_cache && g_cache->s == s)
    {
        if (!g_cache->haveg[single]) g_cache->g[single] = glibc_decimal_raw(s, single), g_cache->haveg[single] = true;
        return g_cache->g[single];
    }
    return glibc_decimal_raw(s, single);
}
static gref glibc_decimal_raw(const uint8_t *s, bool single)
{
    gref g{0, 0};
    if (isspace(s[0])) return g;
    std::string c;
    for (size_t i = 0; s[i] && strchr("+-.eE0123456789", (char)s[i]); i++) c.push_back((char)s[i]);
    char *e = 0;
    g.val = single ? (ld)strtof(c.c_str(), &e) : (ld)strtod(c.c_str(), &e);
    g.end = e - c.c_str();
    return g;
}

static bool atof_within(const lit &L, bool single, bool strict, ld v, bool vnan, ld ref, char *why, size_t nwhy);
static void check_atof(out &o, const lit &L, bool single, ld v, bool vnan, long end, bool has_end, bool strict = false, const uint8_t *str = 0)
{
    // "no digits -> no conversion": a literal of the grammar without a mantissa digit ("-", ".", "+.", ".e5") is not a number
    bool nodigits = L.ip.empty() && L.fp.empty();
    long want = nodigits ? 0 : (long)L.end;
    if (has_end && end != want) { o.fail("end offset " + std::to_string(end) + ", the literal ends at " + std::to_string(want)); return; }
    gref g{want, 0};
    if (str)
    {
        g = glibc_decimal(str, single);
        if (has_end && end != g.end) { o.fail("end offset " + std::to_string(end) + ", glibc strtod (decimal grammar) stops at " + std::to_string(g.end)); return; }
        if (g.end != want) { o.fail("oracle: glibc stops at " + std::to_string(g.end) + ", the grammar matcher at " + std::to_string(want)); return; }
    }
    ld ref;
    if (nodigits) ref = 0;
    else if (g_cache && g_cache->s == str && g_cache->haver[single])
    {
        if (!g_cache->rok[single]) { o.fail("oracle: glibc did not accept the re-assembled literal"); return; }
        ref = g_cache->r[single];
    }
    else
    {
        bool okr = ref_value(L, single, &ref);
        if (g_cache && g_cache->s == str) g_cache->haver[single] = true, g_cache->rok[single] = okr, g_cache->r[single] = ref;
        if (!okr) { o.fail("oracle: glibc did not accept the re-assembled literal"); return; }
    }
    if (str && !nodigits && !(g.val == ref)) { o.fail("oracle: glibc value of the string differs from glibc value of the re-assembled literal"); return; }
    char why[160];
    if (!atof_within(L, single, strict, v, vnan, ref, why, sizeof why)) o.fail(why);
}

// ---------------------------------------------------------------------------------------------
// oracle for the debug printers:  [-] d+ [ . d{p} ],  p = clamp(prec, 0, 18);  |t - |x|| <= u/2 + S
static const char *check_dprint(double x, int prec, const std::string &s)
{
    if (std::isnan(x)) return s == "nan" ? 0 : "nan-token";
    if (std::isinf(x)) return s == (x > 0 ? "+inf" : "-inf") ? 0 : "inf-token";
    int p = prec < 0 ? 0 : prec > 18 ? 18 : prec;
    size_t i = 0, len = s.size();
    bool neg = false;
    if (i < len && s[i] == '-') neg = true, i++;
    if (neg != (x < 0)) return "sign";
    size_t i0 = i;
    ld ip = 0;
    while (i < len && dig(s[i])) ip = ip * 10 + (s[i] - '0'), i++;
    size_t ni = i - i0;
    if (!ni) return "no-integer-digits";
    if (ni > 20) return "integer-part-too-long";
    if (ni > 1 && s[i0] == '0') return "leading-zero";
    ld fp = 0;
    size_t nf = 0;
    if (p > 0)
    {
        if (i >= len || s[i] != '.') return "missing-point";
        i++;
        size_t j0 = i;
        while (i < len && dig(s[i])) fp = fp * 10 + (s[i] - '0'), i++;
        nf = i - j0;
    }
    if (i != len) return "non-numeric-character";
    if ((int)nf != p) return "fraction-digit-count";
    ld a = fabsl((ld)x), u = 1 / POW10[p];
    ld t = ip + fp / POW10[p];
    ld S = (p + 3) * ldexpl(1, -53) * (a < 1 ? a : 1) + 2 * ulp64_of(a) + ldexpl(1, -62) * (a + 1);
    if (!(fabsl(t - a) <= u / 2 + S)) return "value";
    return 0;
}
static bool dprint_out_of_range(double x) { return std::isfinite(x) && fabs(x) >= 18446744073709551616.0; }

// ---------------------------------------------------------------------------------------------
// the parser entry points
enum { E_A64, E_ISTD, E_STRTOD, E_ATOF, E_A32, E_BRF, E_ISTD32, E_STRTOD32, E_ATOF32C, E_HASHED, E_A32N = E_HASHED, E_A64U, E_N };
static const char *ENAME[E_N] = {"a64", "istd", "strtod", "atof", "a32", "brf", "istd32", "strtod32", "atof32c", "a32n", "a64u"};
static int entry_index(const std::string &op)
{
    for (int k = 0; k < E_N; k++)
        if (op == ENAME[k]) return k;
    return -1;
}
// is32: the value is a float32_t; single: accuracy of binary32 (is32, or a float widened to double by the
// WITHOUT_ATOF64 flavour of igris_strtod / strtod / atof)
struct pres { bool is32 = false, single = false, has_end = true, unset = false; long end = 0; float vf = 0; double vd = 0; };
// the reader's position after the call.  bind_buffer(ptr, 0) is a public member, but not one the property names:
// when it is renamed / removed the position is taken from the object representation (the reader holds exactly one
// `const char *`) - a probe, not a compile error
template <class R> static const char *reader_position(R &br)
{
    const char *q = 0;
    if constexpr (requires { br.bind_buffer(q, (size_t)0); }) br.bind_buffer(q, 0);
    else
    {
        static_assert(sizeof(R) >= sizeof(const char *));
        memcpy(&q, &br, sizeof q);
    }
    return q;
}
static pres call_entry(int k, const char *s)
{
    pres r;
    char *const UNSET = (char *)16;
    char *end = UNSET;
    switch (k)
    {
    case E_A64: case E_A64U: r.vd = igris_atof64(s, &end); break;
    case E_ISTD: r.vd = igris_strtod(s, &end); break;
    case E_STRTOD: r.vd = igv_strtod(s, &end); break;
    case E_ATOF: r.vd = igv_atof(s), r.has_end = false; break;
    case E_A32: r.vf = igris_atof32(s, &end), r.is32 = r.single = true; break;
    case E_A32N: r.vf = igris_atof32(s, 0), r.is32 = r.single = true, r.has_end = false; break;
    case E_BRF:
    {
        igris::binreader br(s);
        br.read_ascii_decimal_float(&r.vf);
        end = (char *)reader_position(br);
        r.is32 = r.single = true;
        break;
    }
    case E_ISTD32: r.vd = igv32_igris_strtod(s, &end), r.single = true; break;
    case E_STRTOD32: r.vd = igv32_strtod(s, &end), r.single = true; break;
    case E_ATOF32C: r.vd = igv32_atof(s), r.single = true, r.has_end = false; break;
    }
    if (r.has_end)
    {
        if (end == UNSET) r.unset = true;
        else r.end = end - s;
    }
    return r;
}
static void judge_entry(out &o, int k, const uint8_t *s, const pres &r, const lit &L)
{
    if (r.has_end && r.unset) { o.fail("the end pointer was not stored"); return; }
    if (!r.is32 && r.single && !std::isnan(r.vd) && (double)(float)r.vd != r.vd) { o.fail("the WITHOUT_ATOF64 flavour returned a value that is not a float"); return; }
    ld v = r.is32 ? (ld)r.vf : (ld)r.vd;
    bool vnan = r.is32 ? std::isnan(r.vf) : std::isnan(r.vd);
    check_atof(o, L, r.single, v, vnan, r.end, r.has_end, k == E_A64U, s);
}
// ---------------------------------------------------------------------------------------------
// ROUND 3b: the TOLERANT observable.  The property grants a parser "a few ulps" and a renderer "one unit of the last
// printed digit plus the binary representation error": the compared result of an op therefore never carries the
// routine's own bits / digits but
//   * the CORRECTLY ROUNDED reference, a function of the input alone (glibc strtod / strtof / printf here, exact
//     rational arithmetic in the Lean driver),
//   * what the property fixes exactly (sign, class, END OFFSET, returned pointer, tokens),
//   * the verdict `within` / `outside`: the routine's own result lies within the allowance of the oracle.
// A harmless change of the arithmetic keeps the line; a change that leaves the allowance flips the verdict on the
// real code (and fails the oracle with the input).  Bit-exactness is kept as a statistic: frozen twins of the
// arithmetic the Lean model transcribes (below) are run next to the real code and the ops are tagged
// `bits-same-as-frozen-twin` / `bits-differ-from-frozen-twin` (renderers: `text-same-...`).
static bool atof_within(const lit &L, bool single, bool strict, ld v, bool vnan, ld ref, char *why, size_t nwhy)
{
    if (vnan) { if (why) snprintf(why, nwhy, "result is NaN"); return false; }
    ld top = single ? ldexpl(1, 128) : ldexpl(1, 1024);
    if (std::isinf(v)) v = v > 0 ? top : -top;
    if (std::isinf(ref)) ref = ref > 0 ? top : -top;
    long nfrac = (long)L.fp.size();
    ld steps, unit, tiny;
    if (single)
    {
        steps = 4 + 1.5L * labs(L.ex);
        unit = ldexpl(1, -24), tiny = ldexpl(1, -149);
    }
    else
    {
        size_t nd = sigdigits(L);
        long d = L.ex - nfrac;
        steps = 2 + 2.0L * (nd > 15 ? nd - 15 : 0) + 1.5L * labs(d);
        if (strict) steps = 4; // op a64u: the property's "within a few ulps of strtod" taken literally
        unit = ldexpl(1, -53), tiny = ldexpl(1, -1074);
    }
    ld allowed = steps * unit * fabsl(ref) + 2 * tiny;
    if (!(fabsl(v - ref) <= allowed))
    {
        if (why) snprintf(why, nwhy, "value off by %.3Lg units of 2^%d*|ref| (allowed %.1Lf)", fabsl(v - ref) / (unit * fabsl(ref) + tiny), single ? -24 : -53, steps);
        return false;
    }
    if ((v < 0) != (ref < 0) && ref != 0) { if (why) snprintf(why, nwhy, "sign"); return false; }
    return true;
}
// class codes: 0 edge, 1 nan, 2 +i, 3 -i, 4 +z, 5 -z, 6 +f, 7 -f
static const char *const CLSNAME[8] = {"edge", "nan", "+i", "-i", "+z", "-z", "+f", "-f"};
static int cls_of(bool nan, bool inf, bool neg, bool zero)
{
    if (nan) return 1;
    return (inf ? 2 : zero ? 4 : 6) + (neg ? 1 : 0);
}

// frozen twins: the arithmetic of igris_atof64 / igris_atof32 / igris_f32toa as the Lean model transcribes it
// (statistics only; never part of the compared result or of the oracle)
static double twin_atof64(const char *p)
{
    double val = 0.0;
    int d = 0, sign = 1;
    { const char *q = p; if (*q == '+' || *q == '-') q++; if (*q == '.') q++; if (!(*q >= '0' && *q <= '9')) return 0.0; }
    if (*p == '+') p++; else if (*p == '-') sign = -1, p++;
    while (*p >= '0' && *p <= '9') val = val * 10.0 + (*p - '0'), p++;
    if (*p == '.') { p++; while (*p >= '0' && *p <= '9') val = val * 10.0 + (*p - '0'), p++, d--; }
    if (*p == 'e' || *p == 'E')
    {
        const char *e = p + 1;
        int es = 1, ev = 0;
        if (*e == '+') e++; else if (*e == '-') e++, es = -1;
        if (*e >= '0' && *e <= '9')
        {
            while (*e >= '0' && *e <= '9') { if (ev < 100000) ev = ev * 10 + (*e - '0'); e++; }
            d += ev * es;
        }
    }
    while (d > 0) val *= 10.0, d--;
    while (d < 0) val *= 0.1, d++;
    return sign * val;
}
static float twin_atof32(const char *p)
{
    { const char *q = p; if (*q == '+' || *q == '-') q++; if (*q == '.') q++; if (!(*q >= '0' && *q <= '9')) return 0; }
    bool minus = false;
    if (*p == '+') p++; else if (*p == '-') minus = true, p++;
    uint32_t u = 0;
    while (*p >= '0' && *p <= '9') u = u * 10 + (uint32_t)(*p - '0'), p++;
    float ret = (float)u;
    if (*p == '.')
    {
        p++;
        uint64_t dd = 0, pw = 1;
        int n = 0;
        while (*p >= '0' && *p <= '9') dd = dd * 10 + (uint64_t)(*p - '0'), p++, n++;
        if (n > 18) return NAN; // the recorded class (signed overflow in the real code)
        while (n--) pw *= 10;
        ret = (float)u + (float)((double)(int64_t)dd / (double)(int64_t)pw);
    }
    if (*p == 'e' || *p == 'E')
    {
        const char *e = p + 1;
        int es = 1, ev = 0;
        if (*e == '+') e++; else if (*e == '-') e++, es = -1;
        if (*e >= '0' && *e <= '9')
        {
            while (*e >= '0' && *e <= '9') { if (ev < 100000) ev = ev * 10 + (*e - '0'); e++; }
            if (es > 0) while (ev--) ret *= 10.0f;
            else while (ev--) ret /= 10.0f;
        }
    }
    return minus ? -ret : ret;
}
static std::string twin_f32toa(float f, int8_t precision)
{
    std::string t;
    if (std::isinf(f)) return f > 0 ? "+inf" : "-inf";
    if (std::isnan(f)) return "nan";
    if (precision > 10) precision = 10;
    if (f < 0) f = -f, t.push_back('-');
    if (precision < 0) precision = (int8_t)auto_prec(f);
    if (precision) f += (float)strtod(("0.5e-" + std::to_string((int)precision)).c_str(), 0);
    if (!(f < 2147483648.0f)) return "?";
    int32_t ip = (int32_t)f;
    f -= ip;
    t += std::to_string(ip);
    if (precision)
    {
        t.push_back('.');
        while (precision--)
        {
            f *= 10.0;
            char c = (char)f;
            t.push_back((char)('0' + c));
            f -= c;
        }
    }
    return t;
}

// the compared result of a parser op (see above) as a record, and as the text of a result line
struct prec_t { uint64_t refbits; int refbytes; int cls; bool ok; };
static prec_t canon_parse_rec(const uint8_t *s, const pres &r, const lit &L, bool strict)
{
    prec_t c;
    gref g = glibc_decimal(s, r.single);
    bool hasdig = !(L.ip.empty() && L.fp.empty());
    ld ref = hasdig ? g.val : 0.0L;
    bool edge;
    bool sig = sigdigits(L) > 0;
    if (r.single)
    {
        float rf = (float)ref;
        uint32_t mag = bits(rf) & 0x7fffffffu;
        edge = sig && (mag <= 8 || mag >= 0x7f000000u);
        c.refbytes = r.is32 ? 4 : 8;
        c.refbits = r.is32 ? (uint64_t)bits(rf) : bits((double)rf);
    }
    else
    {
        double rd = (double)ref;
        uint64_t mag = bits(rd) & 0x7fffffffffffffffull;
        edge = sig && (mag <= 8 || mag >= 0x7fe0000000000000ull);
        c.refbytes = 8, c.refbits = bits(rd);
    }
    c.cls = edge ? 0
            : r.is32 ? cls_of(std::isnan(r.vf), std::isinf(r.vf), std::signbit(r.vf), r.vf == 0)
                     : cls_of(std::isnan(r.vd), std::isinf(r.vd), std::signbit(r.vd), r.vd == 0);
    ld v = r.is32 ? (ld)r.vf : (ld)r.vd;
    bool vnan = r.is32 ? std::isnan(r.vf) : std::isnan(r.vd);
    c.ok = atof_within(L, r.single, strict, v, vnan, ref, 0, 0);
    return c;
}
static std::string canon_parse(const uint8_t *s, const pres &r, const lit &L, bool strict)
{
    prec_t c = canon_parse_rec(s, r, L, strict);
    std::string line = hexn(c.refbits, c.refbytes * 2) + " " + CLSNAME[c.cls];
    if (r.has_end) line += r.unset ? std::string(" e-unset") : " e" + std::to_string(r.end);
    return line + (c.ok ? " within" : " outside");
}
// statistics: is the real code bit-identical to the frozen twin of the model's arithmetic?
static bool same_as_twin(int k, const char *s, const pres &r)
{
    if (r.single)
    {
        float t = twin_atof32(s), v = r.is32 ? r.vf : (float)r.vd;
        return !std::isnan(t) && !std::isnan(v) && bits(t) == bits(v);
    }
    (void)k;
    double t = twin_atof64(s);
    return !std::isnan(r.vd) && bits(t) == bits(r.vd);
}
static void run_parse_op(out &o, const std::string &op, const bytes &m)
{
    int k = entry_index(op);
    exact_buf s(m);
    lit L = match_literal(s.p);
    pres r = call_entry(k, (const char *)s.p);
    o.result = canon_parse(s.p, r, L, k == E_A64U);
    judge_entry(o, k, s.p, r, L);
    o.tag(op.c_str());
    o.tag(same_as_twin(k, (const char *)s.p, r) ? "bits-same-as-frozen-twin" : "bits-differ-from-frozen-twin");
    if (L.sign) o.tag(L.neg ? "minus" : "plus");
    if (L.ip.empty()) o.tag("no-integer-digits");
    if (L.ip.empty() && L.fp.empty()) o.tag("no-digits-no-conversion");
    if (L.dot) o.tag(L.fp.empty() ? "point-without-digits" : "fraction");
    if (L.hasexp) o.tag(L.ex < 0 ? "negative-exponent" : "exponent");
    if (L.expdigits > 6) o.tag("exponent-saturates");
    if (m[L.end] != 0) o.tag("tail");
    if ((m[L.end] | 0x20) == 'e') o.tag("tail-looks-like-exponent");
    if (sigdigits(L) > 17) o.tag("long-mantissa");
    if (L.ip.size() + L.fp.size() >= 1000) o.tag("1000-digits");
}
// exhaustive small strings: the string number c of length len over GXA (first character = least significant digit)
static const char GXA[10] = {'+', '-', '.', 'e', 'E', '0', '1', '9', ' ', 'x'};
static bytes gx_string(int len, uint64_t c)
{
    bytes m;
    for (int k = 0; k < len; k++) m.push_back((uint8_t)GXA[c % 10]), c /= 10;
    m.push_back(0);
    return m;
}

static const int PM_ENTRY[5] = {E_A64, E_A32, E_ISTD, E_STRTOD, E_ISTD32};
static const char *const PM_TEXT[5] = {"-12.5e-1x", "3.25e1", "7.", ".5e1", "2.5"};
// calls made BEFORE main(): the constructor of an object with init_priority(101) runs ahead of every ordinary
// static initialiser of the program (static-initialisation-order dependencies of the routines would show here)
struct premain_t
{
    pres r[5];
    char t32[48], tftoa[48];
    long ret32, retftoa;
    premain_t()
    {
        for (int i = 0; i < 5; i++) r[i] = call_entry(PM_ENTRY[i], PM_TEXT[i]);
        memset(t32, 0, sizeof t32), memset(tftoa, 0, sizeof tftoa);
        ret32 = igris_f32toa(0.1f, t32, 6) - t32;
        retftoa = igris_ftoa(1234.5678, tftoa, -1) - tftoa;
    }
};
static premain_t g_premain __attribute__((init_priority(101)));

// ---------------------------------------------------------------------------------------------
static volatile float vf1, vf2;
static volatile double vd1, vd2;
static std::string do_sf(const std::vector<std::string> &w)
{
    const std::string &op = w[1];
    uint64_t A = strtoull(w[2].c_str(), 0, 16), B = w.size() > 3 ? strtoull(w[3].c_str(), 0, 16) : 0;
    if (op == "add32") { vf1 = f_of(A), vf2 = f_of(B); float r = vf1 + vf2; return fbits(r); }
    if (op == "sub32") { vf1 = f_of(A), vf2 = f_of(B); float r = vf1 - vf2; return fbits(r); }
    if (op == "mul32") { vf1 = f_of(A), vf2 = f_of(B); float r = vf1 * vf2; return fbits(r); }
    if (op == "add64") { vd1 = d_of(A), vd2 = d_of(B); double r = vd1 + vd2; return dbits(r); }
    if (op == "sub64") { vd1 = d_of(A), vd2 = d_of(B); double r = vd1 - vd2; return dbits(r); }
    if (op == "mul64") { vd1 = d_of(A), vd2 = d_of(B); double r = vd1 * vd2; return dbits(r); }
    if (op == "div32") { vf1 = f_of(A), vf2 = f_of(B); float r = vf1 / vf2; return fbits(r); }
    if (op == "div64") { vd1 = d_of(A), vd2 = d_of(B); double r = vd1 / vd2; return dbits(r); }
    // one rounding of M * 2^E (M a 64-bit integer, E = B - 4096) into the format: x87 extended holds
    // M * 2^E exactly, the cast is the FPU's round-to-nearest-even -> ties `roundPack` to the hardware
    if (op == "rp32") { volatile ld v = ldexpl((ld)A, (int)B - 4096); float r = (float)v; return fbits(r); }
    if (op == "rp64") { volatile ld v = ldexpl((ld)A, (int)B - 4096); double r = (double)v; return dbits(r); }
    if (op == "cvt") { vd1 = d_of(A); float r = (float)vd1; return fbits(r); }
    if (op == "ext") { vf1 = f_of(A); double r = (double)vf1; return dbits(r); }
    if (op == "m10") { vf1 = f_of(A); float f = vf1; f *= 10.0; return fbits(f); } // the statement of the digit loop
    if (op == "i2f") { volatile int64_t n = (int64_t)A; float r = (float)n; return fbits(r); }
    if (op == "u2f") { volatile uint32_t n = (uint32_t)A; float r = (float)n; return fbits(r); }
    if (op == "i2d") { volatile int64_t n = (int64_t)A; double r = (double)n; return dbits(r); }
    if (op == "u2d") { volatile uint64_t n = A; double r = (double)n; return dbits(r); }
    if (op == "lt32") { vf1 = f_of(A), vf2 = f_of(B); return vf1 < vf2 ? "1" : "0"; }
    if (op == "lt64") { vd1 = d_of(A), vd2 = d_of(B); return vd1 < vd2 ? "1" : "0"; }
    if (op == "tr32")
    { // truncation toward zero, as a decimal integer; outside int64 / not finite: "ovf"
        vf1 = f_of(A);
        float f = vf1;
        if (((A >> 23) & 0xff) >= 127 + 63) return "ovf"; // |f| >= 2^63, inf, nan
        return std::to_string((long long)f);
    }
    if (op == "tr64")
    {
        vd1 = d_of(A);
        double f = vd1;
        if (((A >> 52) & 0x7ff) >= 1023 + 63) return "ovf";
        return std::to_string((long long)f);
    }
    return "bad-op";
}

// ---------------------------------------------------------------------------------------------
static void run_op(const std::vector<std::string> &w, const std::string &, out &o)
{
    // per-op watchdog: 20 s; the oracle-only sweeps of 2^16 patterns x 6 precisions (2-3 s on an idle machine) get 90 s -
    // on the shared machine (load average 60-200) ten of them were descheduled beyond 20 s in a thorough run (round 3b)
    hv::arm(!w.empty() && w[0] == "sweep" ? 90 : 20);
    if (w.empty()) { o.result = "bad-op"; return; }
    const std::string &op = w[0];
    if (op == "tbl")
    {
        // ROUND 3b.  What the property fixes is the BEHAVIOUR the table produces (precisions 0..10, round half up at
        // every precision), not a table: the compared result is the clamp measured by rendering with precision 127 and,
        // for every precision p, the canonical lines of 0.55e-p (must round up) and 0.45e-p (must round down).  The
        // table itself - when numconvert.c still has a `static const double rounders[]` - is a TAG.
        int mp = measured_max_precision();
        o.result = "maxprec=" + std::to_string(mp);
        for (int p = 1; p <= 10; p++)
            for (const char *m : {"0.55e-", "0.45e-"})
            {
                float f = (float)strtod((m + std::to_string(p)).c_str(), 0);
                ftoa_out r = run_ftoa(0, bits(f), (int8_t)p);
                const char *why = check_ftoa_text(f, f, p, r.text.data(), r.text.size(), false);
                o.result += " " + canon_ftoa(f, f, p, r.ret, !why);
                if (why || !r.clean || r.ret) o.fail(std::string(why ? why : "buffer / returned pointer") + " at " + m + std::to_string(p) + " text=`" + r.text + "`");
            }
        if (mp != 10) o.fail("precisions are clamped to " + std::to_string(mp) + ", the property renders 0..10");
        const double *t = igv_rounders();
        int macro = igv_max_precision();
        o.tag(macro < 0 ? "MAX_PRECISION-macro-not-found" : macro == mp ? "MAX_PRECISION-macro-agrees" : "MAX_PRECISION-macro-differs-from-behaviour");
        if (t[0] == 0) o.tag("rounders-table-not-found");
        else
        {
            bool as_modelled = true;
            for (int i = 0; i <= (macro < 0 ? 0 : macro); i++)
            {
                // oracle (only while the table exists): the entry is the double nearest to 0.5 * 10^-i
                std::string lit = "0.5e-" + std::to_string(i);
                if (t[i] != strtod(lit.c_str(), 0)) as_modelled = false, o.fail("rounders[" + std::to_string(i) + "] is not 0.5e-" + std::to_string(i));
            }
            o.tag(as_modelled ? "rounders-table-as-modelled" : "rounders-table-differs");
        }
        return;
    }
    if (op == "f32" || op == "f64" || op == "ftoa" || op == "ftoa32")
    {
        int kind = op == "f32" ? 0 : op == "f64" ? 1 : op == "ftoa" ? 2 : 3; // 3: igris_ftoa of the WITHOUT_ATOF64 build (takes a float32_t)
        uint64_t b = strtoull(w[1].c_str(), 0, 16);
        int prec = atoi(w[2].c_str());
        ftoa_out r = run_ftoa(kind, b, (int8_t)prec);
        ld x = kind == 0 ? (ld)f_of((uint32_t)b) : (ld)d_of(b);
        float fx = kind == 0 ? f_of((uint32_t)b) : (float)d_of(b);
        if (!r.clean) o.fail("bytes behind the terminating NUL were written, or the two runs differ");
        if (r.text.size() + 1 > 23) o.fail("text longer than sign + 10 + '.' + 10");
        if (r.ret != 0) o.fail("the returned pointer is buf+" + std::to_string(r.ret) + ", not buf");
        bool carry = false;
        const char *why = check_ftoa_text(x, fx, (int8_t)prec, r.text.data(), r.text.size(), kind != 0, &carry);
        o.result = canon_ftoa(x, fx, (int8_t)prec, r.ret, !why);
        if (why) o.fail(std::string(why) + " text=`" + r.text + "`");
        o.tag(op.c_str());
        o.tag(twin_f32toa(fx, (int8_t)prec) == r.text ? "text-same-as-frozen-twin" : "text-differs-from-frozen-twin");
        if (std::isnan(fx) || std::isinf(fx)) o.tag("token");
        else
        {
            if (fx < 0) o.tag("negative");
            if ((int8_t)prec < 0) o.tag("auto-precision");
            else if ((int8_t)prec == 0) o.tag("precision-0");
            else if ((int8_t)prec > 10) o.tag("precision-clamped");
            if (carry) o.tag("rounds-up-integer-part");
            if (fabsf(fx) >= 16777216.f) o.tag("no-fraction-bits");
            if (fabsf(fx) < FLT_MIN && fx != 0) o.tag("subnormal");
            if (f32_out_of_range(bits(fx))) o.tag("out-of-range");
            // statistics only: does the text agree with glibc's correctly rounded rendering?
            char g[80];
            int p = (int8_t)prec > 10 ? 10 : (int8_t)prec;
            if (p < 0) p = auto_prec(fabsf(fx));
            snprintf(g, sizeof g, "%.*f", p, (double)fx);
            o.tag(r.text == g ? "same-as-glibc" : "differs-from-glibc-within-bound");
        }
        return;
    }
    if (op == "f32h")
    {
        uint32_t start = (uint32_t)strtoull(w[1].c_str(), 0, 16);
        uint64_t n = strtoull(w[2].c_str(), 0, 10), stride = strtoull(w[3].c_str(), 0, 10);
        int prec = atoi(w[4].c_str());
        uint64_t h = 0xcbf29ce484222325ull, done = 0, twin_diff = 0;
        for (uint64_t k = 0; k < n; k++)
        {
            uint32_t b = (uint32_t)(start + k * stride);
            if (f32_out_of_range(b)) continue;
            ftoa_out r = run_ftoa(0, b, (int8_t)prec);
            if (!r.clean) o.fail("write behind the NUL at " + hexn(b, 8));
            const char *why = check_ftoa_text(f_of(b), f_of(b), (int8_t)prec, r.text.data(), r.text.size(), false);
            std::string line = canon_ftoa(f_of(b), f_of(b), (int8_t)prec, r.ret, !why);
            h = fnv(h, line.data(), line.size());
            if (twin_f32toa(f_of(b), (int8_t)prec) != r.text) twin_diff++;
            if (why) o.fail(std::string(why) + " at " + hexn(b, 8) + " text=`" + r.text + "`");
            if (r.ret) o.fail("returned pointer at " + hexn(b, 8));
            done++;
        }
        o.result = hexn(h, 16) + " " + std::to_string(done);
        o.tag("hashed-range");
        o.tag(twin_diff ? "text-differs-from-frozen-twin" : "text-same-as-frozen-twin");
        return;
    }
    if (op == "sweep")
    {
        uint32_t start = (uint32_t)strtoull(w[1].c_str(), 0, 16);
        uint64_t n = strtoull(w[2].c_str(), 0, 10);
        std::vector<int> precs;
        {
            std::stringstream ss(w[3]);
            std::string t;
            while (std::getline(ss, t, ',')) precs.push_back(atoi(t.c_str()));
        }
        char buf[64];
        uint64_t bad = 0;
        for (uint64_t k = 0; k < n; k++)
        {
            uint32_t b = (uint32_t)(start + k);
            if (f32_out_of_range(b)) continue;
            float f = f_of(b);
            for (int p : precs)
            {
                memset(buf, 0xA5, 32);
                char *r = igris_f32toa(f, buf, (int8_t)p);
                size_t len = strnlen(buf, 32);
                const char *why = len >= 24 ? "too-long" : (uint8_t)buf[len + 1] != 0xA5 ? "write-behind-NUL" : r != buf ? "returned-pointer" : check_ftoa_text(f, f, p, buf, len, false);
                if (why && !bad++) o.fail(std::string(why) + " at " + hexn(b, 8) + " precision " + std::to_string(p) + " text=`" + std::string(buf, len) + "`");
            }
        }
        o.result = "swept " + std::to_string(n);
        o.tag("sweep");
        return;
    }
    if (entry_index(op) >= 0)
    {
        bytes m = unhex(w[1]);
        if (m.empty() || std::find(m.begin(), m.end(), 0) == m.end()) { o.result = "bad-op"; return; }
        run_parse_op(o, op, m);
        return;
    }
    if (op == "lng" && w.size() >= 4 && entry_index(w[1]) >= 0)
    {
        // lng KIND B1 N1 B2 N2 ...: the string is N1 times the byte B1, then N2 times B2, ... (run-length coded:
        // long literals); the NUL is part of the list
        bytes m;
        for (size_t i = 2; i + 1 < w.size(); i += 2)
            m.insert(m.end(), (size_t)strtoull(w[i + 1].c_str(), 0, 10), (uint8_t)strtoul(w[i].c_str(), 0, 16));
        if (m.empty() || std::find(m.begin(), m.end(), 0) == m.end()) { o.result = "bad-op"; return; }
        run_parse_op(o, w[1], m);
        o.tag("run-length-coded");
        if (m.size() >= 300 * 1024) o.tag("300KiB");
        return;
    }
    if ((op == "gx" || op == "gxo") && w.size() >= 4)
    {
        // gx LEN START COUNT: the strings number START .. START+COUNT-1 of length LEN over the alphabet GXA,
        // through EVERY entry point; result = FNV-1a over the canonical records (canon_parse_rec: reference bits, class, end offset, verdict) of the nine entry points
        int len = atoi(w[1].c_str());
        uint64_t c0 = strtoull(w[2].c_str(), 0, 10), cnt = strtoull(w[3].c_str(), 0, 10);
        uint64_t h = 0xcbf29ce484222325ull, twin_diff = 0;
        for (uint64_t c = c0; c < c0 + cnt; c++)
        {
            bytes m = gx_string(len, c);
            exact_buf s(m);
            lit L = match_literal(s.p);
            refcache cache;
            cache.s = s.p, g_cache = &cache;
            for (int k = 0; k < E_HASHED; k++)
            {
                pres r = call_entry(k, (const char *)s.p);
                if (op == "gx")
                {
                    prec_t c = canon_parse_rec(s.p, r, L, false);
                    uint8_t rec[12];
                    memcpy(rec, &c.refbits, 8); // little-endian
                    size_t n = (size_t)c.refbytes;
                    rec[n++] = (uint8_t)c.cls;
                    rec[n++] = r.has_end ? (r.unset ? 0xfe : (uint8_t)r.end) : 0xff;
                    rec[n++] = c.ok ? 1 : 0;
                    h = fnv(h, rec, n);
                }
                if (!same_as_twin(k, (const char *)s.p, r)) twin_diff++;
                if (o.oracle == "ok")
                {
                    out t;
                    judge_entry(t, k, s.p, r, L);
                    if (t.oracle != "ok") o.fail(std::string(ENAME[k]) + " " + hex(m) + ": " + t.oracle.substr(5));
                }
            }
            g_cache = 0;
        }
        o.result = op == "gx" ? hexn(h, 16) + " " + std::to_string(cnt) : "judged " + std::to_string(cnt);
        o.tag(op == "gx" ? "exhaustive-small-strings" : "exhaustive-small-strings-oracle-only");
        o.tag(("gx-len-" + std::to_string(len)).c_str());
        o.tag(twin_diff ? "bits-differ-from-frozen-twin" : "bits-same-as-frozen-twin");
        return;
    }
    if (op == "sz")
    {
        // type widths the model embeds, read out of the compiled code
        char *e;
        o.result = "float32_t=" + std::to_string(sizeof(float32_t)) + " float64_t=" + std::to_string(sizeof(float64_t)) +
                   " atof32=" + std::to_string(sizeof(igris_atof32("0", &e))) + " atof64=" + std::to_string(sizeof(igris_atof64("0", &e))) +
                   " strtod=" + std::to_string(sizeof(igris_strtod("0", &e))) + " strtod32=" + std::to_string(sizeof(igv32_igris_strtod("0", &e))) +
                   " ftoa32arg=" + std::to_string(igv32_sizeof_ftoa_arg()) + " int=" + std::to_string(sizeof(int)) +
                   " maxprec=" + std::to_string(measured_max_precision());
        return;
    }
    if (op == "premain")
    {
        // results of calls made from a constructor with init_priority(101), i.e. before main() and before
        // every ordinary static initialiser
        const premain_t &P = g_premain;
        static const char *const NAME[5] = {"a64", "a32", "istd", "strtod", "istd32"};
        for (int i = 0; i < 5; i++)
        {
            lit L = match_literal((const uint8_t *)PM_TEXT[i]);
            o.result += std::string(i ? " " : "") + NAME[i] + "=" + canon_parse((const uint8_t *)PM_TEXT[i], P.r[i], L, false);
            out t;
            judge_entry(t, PM_ENTRY[i], (const uint8_t *)PM_TEXT[i], P.r[i], L);
            if (t.oracle != "ok" && o.oracle == "ok") o.fail(std::string("a call made before main() gave a wrong result: ") + NAME[i] + " " + PM_TEXT[i] + ": " + t.oracle.substr(5));
        }
        const char *w1 = P.ret32 ? "returned-pointer" : check_ftoa_text(0.1f, 0.1f, 6, P.t32, strlen(P.t32), false);
        const char *w2 = P.retftoa ? "returned-pointer" : check_ftoa_text(1234.5678, (float)1234.5678, -1, P.tftoa, strlen(P.tftoa), true);
        o.result += " f32=" + canon_ftoa(0.1f, 0.1f, 6, P.ret32, !w1) + " ftoa=" + canon_ftoa(1234.5678, (float)1234.5678, -1, P.retftoa, !w2);
        if ((w1 || w2) && o.oracle == "ok") o.fail(std::string("a call made before main() gave a wrong result: ") + (w1 ? w1 : w2) + " text=`" + (w1 ? P.t32 : P.tftoa) + "`");
        o.tag("before-main");
        return;
    }
    if (op == "dpd" || op == "dpf")
    {
        uint64_t b = strtoull(w[1].c_str(), 0, 16);
        int prec = atoi(w[2].c_str());
        g_out.clear();
        double x;
        if (op == "dpd") x = d_of(b), debug_printdec_double_prec(x, prec);
        else x = f_of((uint32_t)b), debug_printdec_float_prec(f_of((uint32_t)b), prec);
        const char *why = check_dprint(x, prec, g_out);
        {
            std::string c = std::isnan(x) ? "nan" : std::isinf(x) ? (x > 0 ? "+inf" : "-inf") : canon_dec(x, prec < 0 ? 0 : prec > 18 ? 18 : prec);
            o.result = hex(c) + (why ? " outside" : " within");
            o.tag(c == g_out ? "same-as-glibc" : "differs-from-glibc-within-bound");
        }
        if (why) o.fail(std::string(why) + " text=`" + g_out + "`");
        o.tag(op.c_str());
        if (x < 0) o.tag("negative");
        if (prec <= 0) o.tag("precision-0");
        if (prec > 18) o.tag("precision-clamped");
        if (std::isfinite(x))
        {
            ld a = fabsl((ld)x), sc = (a - floorl(a)) * POW10[prec < 0 ? 0 : prec > 18 ? 18 : prec];
            if (sc + 0.5L >= POW10[prec < 0 ? 0 : prec > 18 ? 18 : prec]) o.tag("carry-into-integer-part");
            if (a == floorl(a)) o.tag("integer-value");
        }
        else o.tag("token");
        return;
    }
    if (op == "sf" && w.size() >= 3)
    {
        o.result = do_sf(w);
        o.tag(("sf-" + w[1]).c_str());
        if ((w[1] == "rp32" || w[1] == "rp64") && w.size() >= 4)
        {
            // independent oracle: the result is a nearest value of the format (ties to even), i.e. the exact
            // M * 2^E lies between the midpoints to the two neighbours of the result
            bool s32 = w[1] == "rp32";
            uint64_t M = strtoull(w[2].c_str(), 0, 16);
            int E = (int)strtoull(w[3].c_str(), 0, 16) - 4096;
            ld v = ldexpl((ld)M, E);
            ld r, dn, up;
            bool even, inf;
            if (s32)
            {
                float f = (float)v;
                inf = std::isinf(f), r = f, dn = nextafterf(f, -INFINITY), up = nextafterf(f, INFINITY), even = !(bits(f) & 1);
                if (inf) { if (!(v >= ldexpl(1, 128) - ldexpl(1, 103))) o.fail("rp32: overflow although below the rounding boundary"); }
                else if (std::isinf((float)up)) up = ldexpl(1, 128);
            }
            else
            {
                double f = (double)v;
                inf = std::isinf(f), r = f, dn = nextafter(f, -INFINITY), up = nextafter(f, INFINITY), even = !(bits(f) & 1);
                if (inf) { if (!(v >= ldexpl(1, 1024) - ldexpl(1, 970))) o.fail("rp64: overflow although below the rounding boundary"); }
                else if (std::isinf((double)up)) up = ldexpl(1, 1024);
            }
            if (!inf)
            {
                ld lo = (dn + r) / 2, hi = (r + up) / 2; // exact: at most 54 significant bits
                bool ok = (v > lo && v < hi) || ((v == lo || v == hi) && even);
                if (!ok) o.fail("rounding of M*2^E is not to nearest even");
                if (v == lo || v == hi) o.tag("sf-tie");
                if (r != 0 && fabsl(r) < (s32 ? ldexpl(1, -126) : ldexpl(1, -1022))) o.tag("sf-subnormal-result");
            }
            else o.tag("sf-overflow");
        }
        return;
    }
    o.result = "bad-op";
}

// =============================================================================================
// generator
// =============================================================================================
static const unsigned NPART = 16; // = thorough_seeds in checks/C12.json

static uint32_t nextf(uint32_t b, int k) { return (uint32_t)(b + k); } // k ulps away in magnitude

static std::vector<uint32_t> boundary_f32(rng &r, int nrand)
{
    std::vector<uint32_t> v;
    auto add = [&](float f) {
        uint32_t b = bits(f);
        for (int k = -2; k <= 2; k++)
        {
            uint32_t c = nextf(b, k);
            v.push_back(c), v.push_back(c ^ 0x80000000u);
        }
    };
    v.insert(v.end(), {0u, 0x80000000u, 1u, 0x80000001u, 0x007fffffu, 0x00800000u, 0x7f7fffffu, 0xff7fffffu, 0x7f800000u, 0xff800000u,
                       0x7fc00000u, 0xffc00000u, 0x7f800001u, 0x7fffffffu, 0xffa00000u, 0x4effffffu, 0xceffffffu});
    for (int k = -12; k <= 9; k++) add((float)powl(10, k));
    for (int k = 0; k <= 11; k++)
    { // rounding boundaries of every precision: d.ddd5, 0.99..95, 9.99..95
        add((float)(0.5L * powl(10, -k)));
        add((float)(1 - 0.5L * powl(10, -k)));
        add((float)(10 - 0.5L * powl(10, -k)));
        add((float)(1 + 0.5L * powl(10, -k)));
        add((float)(0.1L + 0.5L * powl(10, -k)));
    }
    for (float f : {0.5f, 1.5f, 2.5f, 0.1f, 0.2f, 0.3f, 0.7f, 0.9f, 0.95f, 0.05f, 9.5f, 99.5f, 999.5f, 9999.5f, 99999.5f, 999999.5f,
                    16777216.f, 8388608.f, 8388607.5f, 4194303.75f, 2147483520.f, 1073741824.f, 123456.789f, 3.14159265f, 2.71828f,
                    1e-7f, 5e-11f, 4.9e-11f, 1.0e-10f, 42.f, 307582293.333333f})
        add(f);
    for (int i = 0; i < nrand; i++)
    {
        uint32_t b;
        switch (r.below(5))
        {
        case 0: b = (uint32_t)r.next(); break;                                                            // any pattern
        case 1: b = (uint32_t)(r.below(158) << 23 | r.below(1u << 23)) | (r.chance(30) ? 0x80000000u : 0); break; // in range, uniform exponent
        case 2: b = (uint32_t)((100 + r.below(58)) << 23 | r.below(1u << 23)) | (r.chance(30) ? 0x80000000u : 0); break; // 2^-27 .. 2^31
        case 3:
        { // decimal data: k / 10^j
            float f = (float)((ld)r.below(r.chance(50) ? 100000 : 2000000000) / powl(10, r.below(8)));
            b = bits(f) | (r.chance(30) ? 0x80000000u : 0);
            break;
        }
        default:
        { // close below an integer or a digit boundary
            float f = (float)((ld)r.below(100000) / powl(10, r.below(5)));
            b = nextf(bits(f), -(int)r.below(4));
        }
        }
        v.push_back(b);
    }
    return v;
}
static int pick_prec(rng &r)
{
    static const int P[] = {-1, 0, 1, 2, 3, 4, 5, 6, 7, 8, 9, 10, 11, 12, 127, -128, -2, 6, 10, 1};
    return P[r.below(sizeof P / sizeof *P)];
}

static std::string digits_str(rng &r, size_t n, bool lead_zero_ok = true)
{
    std::string s;
    for (size_t i = 0; i < n; i++) s.push_back((char)('0' + (r.chance(15) ? (r.chance(50) ? 0 : 9) : r.below(10))));
    if (!lead_zero_ok && n && s[0] == '0') s[0] = '1';
    return s;
}
static std::string hexstr(const std::string &s) { return hex(bytes(s.begin(), s.end())) + "00"; }
static void emit_lit(const std::string &kind, const std::string &text)
{
    std::string h = text.empty() ? "00" : hexstr(text);
    // route literals of atof32's recorded class to the finding probes
    if (kind == "a32" || kind == "a32n" || kind == "brf" || kind == "istd32" || kind == "strtod32" || kind == "atof32c")
    {
        bytes m(text.begin(), text.end());
        m.push_back(0);
        lit L = match_literal(m.data());
        if (a32_out_of_range(L))
        {
            // more than 18 fraction digits abort under UBSan (one harness restart each): keep them few
            static int aborting = 0;
            if (L.fp.size() > 18 && ++aborting > 10) return;
            printf("@F:C12-atof32-digit-count %s %s\n", kind.c_str(), h.c_str());
            return;
        }
    }
    if (kind == "a64" || kind == "strtod" || kind == "atof" || kind == "istd")
    {
        bytes m(text.begin(), text.end());
        m.push_back(0);
        lit L = match_literal(m.data());
        if (a64_mantissa_overflow(L))
        {
            printf("@F:C12-atof64-mantissa-overflow %s %s\n", kind.c_str(), h.c_str());
            return;
        }
    }
    printf("%s %s\n", kind.c_str(), h.c_str());
}

static void gen(rng &r, const std::string &tier)
{
    bool th = tier == "thorough";
    puts("tbl");
    puts("sz");
    puts("premain");
    // ---------------- (1) renderers: boundary patterns x precisions
    std::vector<uint32_t> pool = boundary_f32(r, th ? 6000 : 1500);
    for (uint32_t b : pool)
    {
        int np = th ? 3 : 2;
        for (int k = 0; k < np; k++)
        {
            int p = pick_prec(r);
            if (f32_out_of_range(b)) printf("@F:C12-ftoa-int32-range f32 %08x %d\n", b, p);
            else printf("f32 %08x %d\n", b, p);
        }
    }
    // every precision of int8_t on a few values
    for (uint32_t b : {0x3dcccccdu, 0xc2f6e979u, 0x7f800000u})
        for (int p = -128; p <= 127; p++) printf("f32 %08x %d\n", b, p);
    // doubles: the float pool widened, neighbours in double, values that round across a boundary
    for (size_t i = 0; i < pool.size(); i += th ? 2 : 5)
    {
        double d = (double)f_of(pool[i]);
        uint64_t db = bits(d);
        if (r.chance(60)) db += r.range(-3, 3) * (r.chance(50) ? 1 : (1ll << 28)); // between two floats
        float fx = (float)d_of(db);
        const char *k = r.chance(40) ? "f64" : r.chance(50) ? "ftoa" : "ftoa32";
        if (f32_out_of_range(bits(fx)) || (std::isinf(fx) && std::isfinite(d_of(db)))) printf("@F:C12-ftoa-int32-range %s %016llx %d\n", k, (unsigned long long)db, pick_prec(r));
        else printf("%s %016llx %d\n", k, (unsigned long long)db, pick_prec(r));
    }
    for (double d : {1e300, -1e300, 3.5e38, 2147483647.9, 2147483583.9, 1e-300, 4.9e-324, 0.1, 1.0 / 3, 2.0 / 3, 1e10, -4e9})
    {
        float fx = (float)d;
        bool oor = f32_out_of_range(bits(fx)) || (std::isinf(fx) && std::isfinite(d));
        printf("%sf64 %016llx %d\n", oor ? "@F:C12-ftoa-int32-range " : "", (unsigned long long)bits(d), 3);
    }
    // round 3b: doubles from 100000 up whose FRACTION rounds up to 1.0 at the requested precision (the carry has to
    // reach the integer digits), and floats of the same kind
    for (int i = 0; i < (th ? 600 : 160); i++)
    {
        int p = 1 + (int)r.below(3);
        uint64_t k = 100000 + r.below(r.chance(50) ? 900000 : 8000000);
        double d = (double)k + 1.0 - 0.5 * pow(10.0, -p) + (double)r.range(-2, 6) / 1024.0;
        if (r.chance(30)) d = -d;
        const char *kd = r.chance(40) ? "f64" : r.chance(50) ? "ftoa" : "ftoa32";
        if (r.chance(20)) printf("f32 %08x %d\n", bits((float)d), p);
        else printf("%s %016llx %d\n", kd, (unsigned long long)bits(d), r.chance(85) ? p : pick_prec(r));
    }
    // ---------------- (2) hashed ranges model vs code
    {
        int nr = th ? 60 : 24;
        for (int i = 0; i < nr; i++)
        {
            uint32_t start = r.chance(50) ? (uint32_t)r.next() : (uint32_t)(r.below(158) << 23 | r.below(1u << 23));
            uint64_t stride = r.chance(40) ? 1 : r.chance(50) ? (1 + r.below(1000)) : (1 + r.below(1u << 24));
            printf("f32h %08x %d %llu %d\n", start, th ? 2000 : 400, (unsigned long long)stride, pick_prec(r));
        }
    }
    // ---------------- (3) parsers
    static const char *TAILS[] = {"", "", "", "x", " ", "e", "E", "e+", "e-", "E+x", "ex", ".", "..", "-", "+", "+5", "-5", "f", ",", "\n", "e5", ".5", "1", "0x", "inf", "nan"};
    static const char *KINDS[] = {"a64", "a64", "a32", "a32", "strtod", "atof", "a32n", "brf", "istd", "istd", "istd32", "strtod32", "atof32c"};
    auto tail = [&](const std::string &lit) -> std::string {
        std::string t = TAILS[r.below(sizeof TAILS / sizeof *TAILS)];
        return lit + t;
    };
    // exhaustive small strings over a reduced alphabet
    {
        const char A[] = {'1', '0', '.', 'e', '-', '+', 'x'};
        int maxlen = th ? 5 : 4;
        for (int len = 0; len <= maxlen; len++)
        {
            uint64_t total = 1;
            for (int k = 0; k < len; k++) total *= 7;
            for (uint64_t c = 0; c < total; c++)
            {
                // the exhaustive set goes to both parsers; other entry points take a share
                std::string s;
                uint64_t x = c;
                for (int k = 0; k < len; k++) s.push_back(A[x % 7]), x /= 7;
                emit_lit("a64", s);
                emit_lit("a32", s);
                if (c % 7 == (uint64_t)len) emit_lit("strtod", s);
            }
        }
    }
    // structured literals
    int nl = th ? 12000 : 3000;
    for (int i = 0; i < nl; i++)
    {
        std::string kind = KINDS[r.below(sizeof KINDS / sizeof *KINDS)];
        bool single = kind[1] == '3' || kind == "brf" || kind.find("32") != std::string::npos;
        std::string s;
        if (r.chance(45)) s += r.chance(70) ? "-" : "+";
        size_t ni = r.chance(10) ? 0 : r.chance(75) ? 1 + r.below(single ? 9 : 12) : 1 + r.below(single ? 12 : 25);
        s += digits_str(r, ni, r.chance(20));
        size_t nf = 0;
        if (r.chance(65))
        {
            s += ".";
            nf = r.chance(10) ? 0 : r.chance(75) ? 1 + r.below(8) : 1 + r.below(single ? 21 : 25);
            s += digits_str(r, nf);
        }
        if (r.chance(45))
        {
            s += r.chance(50) ? "e" : "E";
            int sg = (int)r.below(3);
            if (sg == 1) s += "+";
            if (sg == 2) s += "-";
            long lim = single ? 50 : 340;
            long e = r.chance(70) ? (long)r.below(25) : (long)r.below(lim);
            if (r.chance(10)) s += "00";
            s += std::to_string(e);
        }
        emit_lit(kind, tail(s));
    }
    // round 3b: fractions that begin with zeros (integer part 0 or absent): the significant digits lie behind the
    // 9th / 15th fraction position
    for (int i = 0; i < (th ? 1200 : 300); i++)
    {
        std::string kind = KINDS[r.below(sizeof KINDS / sizeof *KINDS)];
        bool single = kind[1] == '3' || kind == "brf" || kind.find("32") != std::string::npos;
        std::string s;
        if (r.chance(30)) s += r.chance(70) ? "-" : "+";
        if (r.chance(60)) s += r.chance(80) ? "0" : "00";
        size_t nz = 1 + r.below(single ? 10 : 14);
        size_t nd = 1 + r.below(single ? 18 - nz : 22);
        s += "." + std::string(nz, '0') + digits_str(r, nd, false);
        if (r.chance(25)) s += (r.chance(50) ? "e" : "E") + std::string(r.chance(50) ? "-" : "") + std::to_string(r.below(12));
        emit_lit(kind, r.chance(80) ? s : tail(s));
    }
    // round trip of rendered values and classic literals
    for (const char *c : {"1e-2", "1E-2", "1e+2", "1.5", "-1.5", "+1.5", ".5", "-.5", "1e5", "abc", "", "1.", "0", "-0", "-0.0", "1e", "1e+", "1ex",
                          "-", "+", ".", "e5", "1.5e3", "1E-3", "0.1e1", "307582293.333333", "56789", "-56789", "42", "3.14159265358979",
                          "2.2250738585072014e-308", "1.7976931348623157e308", "4.9e-324", "1e-400", "1e400", "1e308", "1e-320", "0.1", "0.2", "0.3",
                          "  1", "1 ", "0x10", "1e1e1", "1.2.3", "--1", "+-1", "1e--1", "9007199254740993", "123456789012345678901234567890",
                          "0.000000000000000000000000000001", "4294967295", "4294967295.999999999999999999", "0.999999999999999999", "16777217", "1e38", "1e-45", "3.4028235e38", "1e39"})
    {
        emit_lit("a64", c), emit_lit("a32", c), emit_lit("strtod", c), emit_lit("atof", c), emit_lit("brf", c), emit_lit("a32n", c);
        emit_lit("istd", c), emit_lit("istd32", c), emit_lit("strtod32", c), emit_lit("atof32c", c);
    }
    // "no digits -> no conversion", a point without fraction digits, an exponent letter without exponent digits: every entry point
    for (const char *c : {"-", "+", ".", "-.", "+.", "5.", "-5.", "5.e", "5.e+", "5.e-x", ".e5", "-.e5", "+.E-5", "5.e3", ".5", "5", "e", "E5", "+e5", "-4096.x", "0.", "0.e", "-0.",
                          " 5", "\t5", "5 ", "- 5", "-+5", "+-5", ". 5", "5e 5", "5e+ 5", "0x5", "0x.8p1", "x", "inf", "nan", "-inf", "1e5x", "1E+05.", "1.e1", "00.00e00"})
        for (const char *k : {"a64", "istd", "strtod", "atof", "a32", "a32n", "brf", "istd32", "strtod32", "atof32c"}) emit_lit(k, c);
    // ---------------- (3b) exhaustive: EVERY string of length <= 6 (thorough: 7) over {+ - . e E 0 1 9 space x}
    // through EVERY entry point (op gx: hashed batches; the oracle judges every string)
    {
        // quick: lengths 0..5 and a seed-dependent 16th of length 6 through model AND code (gx), the rest of
        // length 6 judged by the oracle only (gxo); thorough: all of length 6 and a 16th of length 7 per seed through both
        const uint64_t B = 4000;
        uint64_t total = 1;
        for (int len = 0; len <= 5; len++, total *= 10)
            for (uint64_t c = 0; c < total; c += B) printf("gx %d %llu %llu\n", len, (unsigned long long)c, (unsigned long long)std::min(B, total - c));
        if (!th)
        {
            for (uint64_t c = 0, i = 0; c < 1000000; c += B, i++)
                printf("%s 6 %llu %llu\n", i % 16 == g_seed % 16 ? "gx" : "gxo", (unsigned long long)c, (unsigned long long)B); // round 3b: a 16th (was a tenth) through the model
        }
        else
        {
            uint64_t part = g_seed % NPART;
            for (uint64_t c = 0, i = 0; c < 1000000; c += B, i++)
                printf("%s 6 %llu %llu\n", i % NPART == part ? "gx" : "gxo", (unsigned long long)c, (unsigned long long)B);
            uint64_t span = 10000000ull / NPART;
            for (uint64_t c = part * span; c < (part + 1) * span; c += B)
                printf("gx 7 %llu %llu\n", (unsigned long long)c, (unsigned long long)std::min(B, (part + 1) * span - c));
        }
    }
    // ---------------- (3c) long literals (run-length coded, op lng): 1000 digits, 300 KiB of zeros before / behind the
    // point and in the exponent, exponents beyond int / long long; termination, value, end pointer
    {
        auto lng = [&](const char *kind, std::initializer_list<std::pair<const char *, unsigned long>> runs, const char *probe = 0) {
            std::string l = std::string(probe ? std::string("@F:") + probe + " " : std::string()) + "lng " + kind;
            for (auto &pr : runs)
                for (const char *q = pr.first; *q; q++) { char b[40]; snprintf(b, sizeof b, " %02x %lu", (unsigned)(uint8_t)*q, pr.second); l += b; }
            l += " 00 1";
            puts(l.c_str());
        };
        // KM: zeros in the mantissa (each one a soft-float step of the model), KE: zeros / nines in the exponent.
        // quick: ONE 300 KiB mantissa (igris_atof64) and 300 KiB exponents for igris_atof64 / igris_strtod /
        // igris_atof32 / igris_strtod(WITHOUT_ATOF64); the other inputs have 3000 characters.  thorough: all 300 KiB
        const unsigned long K300 = 300 * 1024;
        int nth = 0;
        for (const char *k : {"a64", "istd", "strtod", "atof"})
        {
            const unsigned long KM = th || nth == 0 ? K300 : 3000, KM2 = th ? K300 : 3000, KE = th || nth < 2 ? K300 : 3000;
            nth++;
            lng(k, {{"0", KM}, {"1", 1}, {".", 1}, {"5", 1}});                          // zeros before the point
            lng(k, {{"-", 1}, {"0", 1}, {".", 1}, {"0", nth == 1 ? K300 : KM2}, {"1", 1}}); // ... behind the point: d = -(n+1) (int d counts down 300 Ki times), underflow to -0
            lng(k, {{"0", 1}, {".", 1}, {"0", KM2}});                                   // zero with a long fraction
            lng(k, {{"1", 1}, {"e", 1}, {"0", KE}, {"5", 1}, {"x", 1}});                // leading zeros in the exponent
            lng(k, {{"1", 1}, {"e", 1}, {"-", 1}, {"9", th || nth == 1 ? KE : 5}});     // exponent far beyond long long: saturates, 0 (10^6 scaling steps)
            lng(k, {{"0", 1}, {".", 1}, {"0", 700}, {"1", 1}, {"2", 1}, {"9", 298}, {"e", 1}, {"+", 1}, {"7", 1}, {"0", 2}}); // 1000 digits, 300 significant
            lng(k, {{"0", 900}, {"1", 1}, {"2", 99}, {".", 1}, {"5", 1}});              // 1000 integer digits, 100 significant
            lng(k, {{"1", 1}, {"0", KM2}}, 0);                                          // 1e3000 / 1e307200 = inf for strtod as well
            lng(k, {{"9", 1000}, {"e", 1}, {"-", 1}, {"9", 1}, {"0", 2}}, "C12-atof64-mantissa-overflow"); // 9.99e99 with 1000 digits
            lng(k, {{"1", 1}, {".", 1}, {"0", KM2}}, "C12-atof64-mantissa-overflow");   // 1.000...0 = 1
        }
        nth = 0;
        for (const char *k : {"a32", "istd32", "a32n", "brf", "strtod32", "atof32c"})
        {
            const unsigned long K = th || nth < 2 ? K300 : 3000;
            nth++;
            lng(k, {{"0", K}, {"1", 1}, {".", 1}, {"5", 1}});
            lng(k, {{"1", 1}, {"e", 1}, {"0", K}, {"5", 1}, {"x", 1}});
            lng(k, {{"1", 1}, {"e", 1}, {"-", 1}, {"9", th ? K : 5}}); // round 3b: the 300 KiB exponent of nines (10^6 scaling steps) of the float parser only in the thorough tier (quick: igris_atof64)
            lng(k, {{"-", 1}, {"0", 900}, {"4", 1}, {"2", 1}, {".", 1}, {"0", 17}, {"1", 1}, {"E", 1}, {"0", 50}, {"2", 1}});
            if (nth == 1) lng(k, {{"0", 1}, {".", 1}, {"0", 3000}, {"1", 1}}, "C12-atof32-digit-count");
        }
    }
    // ---------------- (4) debug printers
    {
        std::vector<double> dv;
        for (uint32_t b : pool)
            if (r.chance(th ? 40 : 15)) dv.push_back((double)f_of(b));
        for (int k = 0; k <= 18; k++)
            for (ld base : {1.0L, 0.1L, 10.0L, 123.0L})
                for (int j = -2; j <= 2; j++)
                {
                    double d = (double)(base - 0.5L * powl(10, -k));
                    dv.push_back(d_of(bits(d) + j));
                    d = (double)(base * 0 + 0.5L * powl(10, -k));
                    dv.push_back(d_of(bits(d) + j));
                }
        for (double d : {0.096, 0.96, 0.5, 0.0, -0.0, 1.0, 0.001, 2.7, 123.456, -0.05, 0.9999, 0.999999999, 1e19, 1.8446744073709550e19, 1e15, 9007199254740993.0,
                         4.9e-324, 1e-300, (double)INFINITY, -(double)INFINITY, (double)NAN, 0.1, 0.25, 0.125, 1.0 / 3})
            dv.push_back(d);
        for (int i = 0; i < (th ? 3000 : 600); i++)
        {
            switch (r.below(3))
            {
            case 0: dv.push_back(d_of(r.next())); break;
            case 1: dv.push_back((double)((ld)r.below(1000000000) / powl(10, r.below(10))) * (r.chance(30) ? -1 : 1)); break;
            default: dv.push_back(d_of((uint64_t)(1023 - 40 + r.below(104)) << 52 | r.below(1ull << 52))); break;
            }
        }
        static const int DP[] = {0, 1, 2, 3, 8, 8, 8, 6, 4, 5, 7, 9, 10, 12, 15, 17, 18, 19, 25, 100, -1, -5};
        for (double d : dv)
        {
            int p = DP[r.below(sizeof DP / sizeof *DP)];
            const char *pre = dprint_out_of_range(d) ? "@F:C12-dprint-uint64-range " : "";
            float f = (float)d;
            if (r.chance(25) && (double)f == d) printf("%sdpf %08x %d\n", dprint_out_of_range(d) ? pre : "", bits(f), p);
            else printf("%sdpd %016llx %d\n", pre, (unsigned long long)bits(d), p);
        }
    }
    // ---------------- (5) hardware vs software arithmetic
    {
        std::vector<uint32_t> fp = boundary_f32(r, th ? 800 : 200);
        std::vector<uint64_t> dp;
        for (uint32_t b : fp) dp.push_back(bits((double)f_of(b)));
        for (int i = 0; i < (th ? 600 : 150); i++)
            dp.push_back(r.chance(50) ? r.next() : ((uint64_t)r.below(2047) << 52 | r.below(1ull << 52) | (r.chance(30) ? 1ull << 63 : 0)));
        for (uint64_t d : {0x0000000000000001ull, 0x000fffffffffffffull, 0x0010000000000000ull, 0x7fefffffffffffffull, 0x7ff0000000000000ull,
                           0x7ff8000000000000ull, 0x3fb999999999999aull, 0x4024000000000000ull, 0x3ff0000000000000ull, 0x8000000000000000ull,
                           0x36a0000000000000ull, 0x369fffffffffffffull, 0x3690000000000000ull, 0x3690000000000001ull, 0x47efffffe0000000ull,
                           0x47effffff0000000ull, 0x47efffffefffffffull, 0x380fffffffffffffull, 0x3810000000000000ull})
            dp.push_back(d);
        int n = th ? 8000 : 2500;
        for (int i = 0; i < n; i++)
        {
            uint32_t a = r.pick(fp), b = r.pick(fp);
            if (r.chance(30)) b = (a ^ (r.chance(50) ? 0x80000000u : 0)) + (uint32_t)r.range(-4, 4); // near cancellation
            if (r.chance(20)) b = (uint32_t)(a + (r.range(-30, 30) << 23));
            static const char *O[] = {"add32", "sub32", "mul32", "lt32"};
            printf("sf %s %08x %08x\n", O[r.below(4)], a, b);
        }
        for (int i = 0; i < n; i++)
        {
            uint64_t a = r.pick(dp), b = r.pick(dp);
            if (r.chance(30)) b = (a ^ (r.chance(50) ? 1ull << 63 : 0)) + (uint64_t)r.range(-4, 4);
            if (r.chance(20)) b = a + ((uint64_t)r.range(-60, 60) << 52);
            static const char *O[] = {"add64", "sub64", "mul64", "div64", "lt64", "mul64"};
            printf("sf %s %016llx %016llx\n", O[r.below(6)], (unsigned long long)a, (unsigned long long)b);
            if (i % 4 == 0) printf("sf div32 %08x %08x\n", r.pick(fp), r.chance(50) ? 0x41200000u : r.pick(fp));
        }
        for (uint64_t d : dp)
        {
            printf("sf cvt %016llx\n", (unsigned long long)d);
            printf("sf tr64 %016llx\n", (unsigned long long)d);
            // scaling steps of the parser
            printf("sf mul64 %016llx 3fb999999999999a\n", (unsigned long long)d);
            printf("sf mul64 %016llx 4024000000000000\n", (unsigned long long)d);
        }
        for (uint32_t b : fp)
        {
            printf("sf ext %08x\n", b);
            printf("sf m10 %08x\n", b);
            printf("sf tr32 %08x\n", b);
        }
        // single roundings of M * 2^E: random and tie significands, results in the subnormal / normal / overflow range
        for (int i = 0; i < (th ? 12000 : 3000); i++)
        {
            bool s32 = r.chance(50);
            int keep = s32 ? 24 : 53;
            int len = 1 + (int)r.below(64);
            uint64_t M = r.next() >> (64 - len) | 1ull << (len - 1);
            if (len > keep && r.chance(60))
            {
                // exact tie / one below / one above the tie, with even or odd kept part
                int cut = len - keep + (r.chance(30) ? (int)r.below(3) : 0); // bits dropped (more when the result is subnormal)
                if (cut >= 1 && cut < 64)
                {
                    M = (M >> cut << cut) | 1ull << (cut - 1);
                    int k = (int)r.below(3);
                    if (k == 1) M -= 1;
                    if (k == 2) M += 1;
                }
            }
            int T; // exponent of the leading bit of the value
            switch (r.below(4))
            {
            case 0: T = (s32 ? -152 : -1077) + (int)r.below(30); break;   // subnormal results, underflow to 0
            case 1: T = (s32 ? 124 : 1020) + (int)r.below(6); break;       // around the overflow boundary
            case 2: T = -20 + (int)r.below(60); break;
            default: T = (s32 ? -126 : -1022) + (int)r.below(s32 ? 254 : 2046); break;
            }
            int E = T - (len - 1);
            printf("sf %s %016llx %x\n", s32 ? "rp32" : "rp64", (unsigned long long)M, (unsigned)(E + 4096));
        }
        for (int i = 0; i < (th ? 2000 : 500); i++)
        {
            uint64_t v = r.chance(50) ? r.next() >> r.below(64) : (1ull << r.below(64)) + (uint64_t)r.range(-3, 3);
            printf("sf i2f %016llx\n", (unsigned long long)v);
            printf("sf i2d %016llx\n", (unsigned long long)v);
            printf("sf u2d %016llx\n", (unsigned long long)v);
            printf("sf u2f %08x\n", (unsigned)(v & 0xffffffffu));
        }
    }
}

// thorough: every binary32 pattern, oracle only.  bin/check runs the seeds s*1000+0..NPART-1 in
// parallel; seed % NPART selects the share of the pattern space.
static void gen_wrapper(rng &r, const std::string &tier)
{
    gen(r, tier);
    const uint64_t CH = 1ull << 16;
    if (tier != "thorough")
    {
        // quick: 64 chunks of 2^12 consecutive patterns, spread over the exponent range
        for (int i = 0; i < 64; i++)
        {
            uint32_t start = (uint32_t)(r.below(158) << 23 | r.below(1u << 23)) | (r.chance(30) ? 0x80000000u : 0);
            printf("sweep %08x %d -1,0,1,3,6,10\n", start, 4096);
        }
        return;
    }
    uint64_t part = g_seed % NPART, span = (1ull << 32) / NPART;
    for (uint64_t lo = part * span; lo < (part + 1) * span; lo += CH)
        printf("sweep %08llx %llu -1,0,1,2,6,10\n", (unsigned long long)lo, (unsigned long long)CH);
}

int main(int argc, char **argv)
{
    init_pow();
    if (argc >= 3) g_seed = strtoull(argv[2], 0, 10);
    return main_(argc, argv, gen_wrapper, run_op);
}
