// C18 harness: hexascii / base64 codecs of igris against the Lean model
// (IgrisModel/C18) and against an independent RFC 4648 / printf reference.
#include "common/hv.h"
#include <igris/util/hexascii.h>
#include <igris/string/hexascii_string.h>
#include <igris/util/base64.h>
// Round 3b (fragility sweep): base64.cpp is no longer #included (the file-static `base64_charset` was named
// here); it is compiled and linked as a library file (checks/C18.json repo_sources) and the table is read by
// PROBING the encoder and the decoder (op `alpha`).  Only names of the public headers are used below.
#include <climits>
#include <new>
#include <set>
#include <stdexcept>
#include <type_traits>
#include <functional>
#include <sys/wait.h>
#include <fcntl.h>

static_assert(CHAR_MIN < 0, "model assumes plain char is signed");
static_assert(__BYTE_ORDER__ == __ORDER_LITTLE_ENDIAN__, "model assumes little-endian byte lanes");

// hexascii_string.h declares string decoders; on the unchanged tree they are
// not defined anywhere.  Weak references turn "does not link" into a concrete
// failing operation.
namespace igris
{
    std::string hexascii_decode(std::string const &str) __attribute__((weak));
    std::string hexascii_decode(igris::buffer const &buf) __attribute__((weak));
}

using namespace hv;
typedef std::vector<uint8_t> bytes;

// ---------------------------------------------------------------- optional names (round 3b)
// access.h: HIHALF / LOHALF (functions) and the lane macros are helpers of the fixed-width routines.  A
// library that renames or drops them must still build this harness: an ellipsis overload loses against any
// real declaration and marks the name as absent; the lane macros are tested with #if defined.
struct c18_absent {};
#ifndef HIHALF
static c18_absent HIHALF(...);
#endif
#ifndef LOHALF
static c18_absent LOHALF(...);
#endif
#if defined(UINT16_HI) && defined(UINT16_LO) && defined(UINT32_HHI) && defined(UINT32_HLO) && defined(UINT32_LHI) && defined(UINT32_LLO) && \
    defined(UINT64_HHHI) && defined(UINT64_HHLO) && defined(UINT64_HLHI) && defined(UINT64_HLLO) && defined(UINT64_LHHI) && \
    defined(UINT64_LHLO) && defined(UINT64_LLHI) && defined(UINT64_LLLO)
#define C18_HAVE_LANES 1
#else
#define C18_HAVE_LANES 0
#endif

// ---------------------------------------------------------------- allocation-failure injector (round 3b)
// The replaced global operator new (it takes precedence over the sanitizer's; malloc/free below are still
// ASan's, so red zones and use-after-free checks stay) can make the k-th allocation inside a window fail with
// std::bad_alloc and records which blocks allocated inside the window are still alive.
namespace oomi
{
    static bool track = false;
    static long countdown = -1; // >= 0: that many allocations succeed, the next one throws
    static long allocs = 0;
    static void *blocks[512];
    static int nblocks = 0;
    static bool overflow = false;
    static void *alloc(size_t n)
    {
        if (track)
        {
            if (countdown == 0) { countdown = -1; throw std::bad_alloc(); }
            if (countdown > 0) countdown--;
            allocs++;
        }
        void *p = malloc(n ? n : 1);
        if (!p) throw std::bad_alloc();
        if (track) { if (nblocks < 512) blocks[nblocks++] = p; else overflow = true; }
        return p;
    }
    static void release(void *p)
    {
        if (!p) return;
        for (int i = 0; i < nblocks; i++)
            if (blocks[i] == p) { blocks[i] = blocks[--nblocks]; break; }
        free(p);
    }
}
void *operator new(size_t n) { return oomi::alloc(n); }
void *operator new[](size_t n) { return oomi::alloc(n); }
void *operator new(size_t n, const std::nothrow_t &) noexcept { try { return oomi::alloc(n); } catch (...) { return nullptr; } }
void *operator new[](size_t n, const std::nothrow_t &) noexcept { try { return oomi::alloc(n); } catch (...) { return nullptr; } }
void operator delete(void *p) noexcept { oomi::release(p); }
void operator delete[](void *p) noexcept { oomi::release(p); }
void operator delete(void *p, size_t) noexcept { oomi::release(p); }
void operator delete[](void *p, size_t) noexcept { oomi::release(p); }
void operator delete(void *p, const std::nothrow_t &) noexcept { oomi::release(p); }
void operator delete[](void *p, const std::nothrow_t &) noexcept { oomi::release(p); }

// ---------------------------------------------------------------- references
// RFC 4648 written as bit-string regrouping (no shifts/masks shared with igris)
static const char *const STD_ALPHA = "ABCDEFGHIJKLMNOPQRSTUVWXYZabcdefghijklmnopqrstuvwxyz0123456789+/";
static const char *const URL_ALPHA = "ABCDEFGHIJKLMNOPQRSTUVWXYZabcdefghijklmnopqrstuvwxyz0123456789-_";

static std::string ref_b64_encode(const bytes &m, const char *alpha)
{
    std::string bits;
    for (uint8_t b : m)
        for (int i = 7; i >= 0; i--)
            bits.push_back(((b >> i) & 1) ? '1' : '0');
    while (bits.size() % 6)
        bits.push_back('0');
    std::string out;
    for (size_t i = 0; i < bits.size(); i += 6)
        out.push_back(alpha[strtoul(bits.substr(i, 6).c_str(), 0, 2)]);
    while (out.size() % 4)
        out.push_back('=');
    return out;
}
// decodes up to the first character outside the alphabet; whole bytes only
static bytes ref_b64_decode(const std::string &t, const char *alpha)
{
    std::string bits;
    for (char c : t)
    {
        const char *p = c ? (const char *)memchr(alpha, c, 64) : 0;
        if (!p)
            break;
        unsigned v = (unsigned)(p - alpha);
        for (int i = 5; i >= 0; i--)
            bits.push_back(((v >> i) & 1) ? '1' : '0');
    }
    bytes out;
    for (size_t i = 0; i + 8 <= bits.size(); i += 8)
        out.push_back((uint8_t)strtoul(bits.substr(i, 8).c_str(), 0, 2));
    return out;
}
static std::string ref_hex(const bytes &m)
{
    std::string s;
    char b[4];
    for (uint8_t x : m)
    {
        snprintf(b, sizeof b, "%02X", x);
        s += b;
    }
    return s;
}
static bool only(const std::string &s, const std::string &alphabet)
{
    return s.find_first_not_of(alphabet) == std::string::npos;
}
static std::string str(const bytes &m) { return std::string(m.begin(), m.end()); }
static bytes byt(const std::string &s) { return bytes(s.begin(), s.end()); }
// (constructed with priority 101, in front of the pre-main battery object below, which uses them)
__attribute__((init_priority(101))) static const std::string HEXA = "0123456789ABCDEF";
__attribute__((init_priority(101))) static const std::string HEXANY = "0123456789ABCDEFabcdef";
// strtoul-based parse of a hex text of either case (pairs -> bytes, odd tail dropped)
static bytes ref_unhex_anycase(const std::string &t)
{
    bytes out;
    for (size_t i = 0; i + 1 < t.size(); i += 2)
        out.push_back((uint8_t)strtoul(t.substr(i, 2).c_str(), 0, 16));
    return out;
}
static std::string ascii_lower(std::string t)
{
    for (char &c : t) if (c >= 'A' && c <= 'Z') c = (char)(c + 32);
    return t;
}
static std::string ascii_upper(std::string t)
{
    for (char &c : t) if (c >= 'a' && c <= 'z') c = (char)(c - 32);
    return t;
}


// FNV-1a, 64 bit: digest of a long output (the driver computes the same)
static uint64_t fnv64(const uint8_t *p, size_t n)
{
    uint64_t h = 0xcbf29ce484222325ull;
    for (size_t i = 0; i < n; i++) { h ^= p[i]; h *= 0x100000001b3ull; }
    return h;
}
static uint64_t fnv64(const std::string &s) { return fnv64((const uint8_t *)s.data(), s.size()); }
// the byte pattern of the long / every-length ops: data[i] = (a*i + b) mod 256
static bytes pattern(size_t n, unsigned a, unsigned b)
{
    bytes m(n);
    for (size_t i = 0; i < n; i++) m[i] = (uint8_t)(a * i + b);
    return m;
}
// widths and signedness of the types the model fixes ("s4" = signed, 4 bytes)
template <class T> static std::string tw()
{
    return std::string(std::is_signed<T>::value ? "s" : "u") + std::to_string(sizeof(T));
}
template <class R, class A, class B, class... C> static B arg2_of(R (*)(A, B, C...));
template <class R, class... A> static R ret_of(R (*)(A...));
// the 48 bytes whose sextets are 0,1,...,63: encoding them prints the alphabet the build uses
static bytes sextet_ramp()
{
    bytes m;
    for (unsigned g = 0; g < 64; g += 4)
    {
        unsigned v = (g << 18) | ((g + 1) << 12) | ((g + 2) << 6) | (g + 3);
        m.push_back((uint8_t)(v >> 16)); m.push_back((uint8_t)(v >> 8)); m.push_back((uint8_t)v);
    }
    return m;
}
static bool main_entered = false;            // constant-initialised; set first thing in main()
static int make_marker() { return (int)getpid() | 1; }
static int default_priority_marker = make_marker(); // dynamic, default priority: still 0 while the battery runs

// ---------------------------------------------------------------- run
template <class T> static void fixed_to(const std::string &arg, out &o, void (*to_hex)(char *, T), T (*from_hex)(const char *))
{
    const int W = 2 * (int)sizeof(T);
    T v = (T)strtoull(arg.c_str(), 0, 16);
    exact_buf t((size_t)W); // no room for a terminator: none may be written
    to_hex((char *)t.p, v);
    std::string text((char *)t.p, W);
    T back = from_hex((const char *)t.p);
    o.result = hex(text) + " " + hexn((uint64_t)back, W);
    char ref[40];
    snprintf(ref, sizeof ref, "%0*llX", W, (unsigned long long)v);
    if (text != ref)
        o.fail("uintN_to_hex gives '" + text + "', expected '" + ref + "'");
    if (back != v)
        o.fail("hex_to_uintN(uintN_to_hex(v)) = " + hexn((uint64_t)back, W) + " != v");
    if (v >> (8 * sizeof(T) - 1)) o.tag("topbit");
    if (text.find_first_of("ABCDEF") != std::string::npos) o.tag("letters");
}
template <class T> static void fixed_from(const std::string &arg, out &o, void (*to_hex)(char *, T), T (*from_hex)(const char *))
{
    const int W = 2 * (int)sizeof(T);
    bytes tb = unhex(arg);
    exact_buf t(tb);
    T v = from_hex((const char *)t.p);
    exact_buf t2((size_t)W);
    to_hex((char *)t2.p, v);
    std::string text = str(tb), text2((char *)t2.p, W);
    o.result = hexn((uint64_t)v, W) + " " + hex(text2);
    if ((int)tb.size() == W && only(text, HEXA))
    {
        if ((T)strtoull(text.c_str(), 0, 16) != v)
            o.fail("hex_to_uintN('" + text + "') = " + hexn((uint64_t)v, W));
        if (text2 != text)
            o.fail("uintN_to_hex(hex_to_uintN(t)) = '" + text2 + "' != t");
        o.tag("upperhex");
    }
    else if ((int)tb.size() == W && only(text, HEXANY))
    {
        // lower / mixed case digits are accepted as the same number
        if ((T)strtoull(text.c_str(), 0, 16) != v)
            o.fail("hex_to_uintN('" + text + "') = " + hexn((uint64_t)v, W));
        if (text2 != ascii_upper(text))
            o.fail("uintN_to_hex(hex_to_uintN(t)) = '" + text2 + "' is not upper(t)");
        o.tag("lowerhex");
    }
    if ((int)tb.size() > W)
    {
        // a longer buffer: nothing behind the 2*sizeof characters is used
        exact_buf tp(bytes(tb.begin(), tb.begin() + W));
        if (from_hex((const char *)tp.p) != v) o.fail("hex_to_uintN reads more than 2*sizeof characters");
        o.tag("sparetext");
    }
    if ((int)tb.size() == W)
    {
        // case-insensitive on every text, hex digits or not
        exact_buf tl(byt(ascii_lower(text)));
        if (from_hex((const char *)tl.p) != v)
            o.fail("hex_to_uintN(lower(t)) != hex_to_uintN(t)");
    }
}

static void run_premain(const std::vector<std::string> &w, out &o);
static out run_isolated(const char *line);
static void run_oom(const std::vector<std::string> &w, out &o);

static void run_op(const std::vector<std::string> &w, const std::string &, out &o)
{
    const std::string &op = w[0];
    if (op == "premain" || op == "premainD" || op == "premainG")
    {
        run_premain(w, o);
        return;
    }
    if (op == "oom" && w.size() == 3)
    {
        run_oom(w, o);
        return;
    }
    if (op == "reset")
    {
        o.result = "ok";
        return;
    }
    if (op == "alpha")
    {
        // the table the build uses, read by probing (no internal name): letter k = what the encoder prints for
        // the sextet k (48 bytes whose sextets are 0..63), the 65th entry = the padding character the encoder
        // appends to a one-byte input; the decoder's reverse mapping: letter k in front of "AAA" must decode to
        // the byte 4k
        bytes m = sextet_ramp();
        exact_buf in(m), one(bytes{0});
        std::string a = igris::base64_encode(in.p, m.size()), pad = igris::base64_encode(one.p, 1);
        std::string table = a + (pad.size() == 4 ? pad.substr(3) : std::string());
        o.result = hex(table);
        if (table != std::string(STD_ALPHA) + "=")
            o.fail("the alphabet the encoder prints is not the RFC 4648 alphabet followed by '='");
        for (size_t k = 0; k < a.size() && k < 64; k++)
        {
            std::string d = igris::base64_decode(std::string(1, a[k]) + "AAA");
            if (d.size() != 3 || (uint8_t)d[0] != 4 * k || d[1] || d[2])
            {
                o.fail("base64_decode does not map the letter '" + std::string(1, a[k]) + "' to the sextet " + std::to_string(k));
                break;
            }
        }
        o.tag("alpha");
        return;
    }
    if (op == "maxsz")
    {
        o.result = hexn((uint64_t)std::string().max_size(), 16);
        return;
    }
    if (op == "alphas")
    {
        // both alphabets as the build prints them: the 48 bytes whose sextets are 0..63
        bytes m = sextet_ramp();
        exact_buf in(m);
        std::string a = igris::base64_encode(in.p, m.size()), u = igris::base64url_encode(in.p, m.size());
        o.result = hex(a) + " " + hex(u);
        if (a != STD_ALPHA) o.fail("base64_encode of the sextets 0..63 is not RFC 4648 table 1");
        if (u != URL_ALPHA) o.fail("base64url_encode of the sextets 0..63 is not RFC 4648 table 2");
        o.tag("alpha");
        return;
    }
    if (op == "widths")
    {
        // compared: the platform types the model's arithmetic is written for.  The types the library DECLARES
        // (size parameters, helper return types) are not fixed by the property: they are reported as tags; what
        // they mean for the behaviour is judged by ops (negative sizes: hdecm / hdeci; > 65535: hlong / blong)
        o.result = "int:" + tw<int>() + " size_t:" + tw<size_t>() + " char:" + tw<char>() + " string.size:" + tw<std::string::size_type>();
        auto t = [&](const char *name, const std::string &v) { o.tag((std::string(name) + "=" + v).c_str()); };
        t("hexascii_encode.size", tw<decltype(arg2_of(&hexascii_encode))>());
        t("hexascii_decode.size", tw<decltype(arg2_of(&hexascii_decode))>());
        t("hex2half", tw<decltype(hex2half('0'))>());
        t("half2hex", tw<decltype(half2hex(0))>());
        t("hex2byte", tw<decltype(hex2byte('0', '0'))>());
        t("HIHALF", tw<decltype(HIHALF((uint8_t)0))>());
        t("hex_to_uint8", tw<decltype(hex_to_uint8(""))>());
        t("hex_to_uint16", tw<decltype(hex_to_uint16(""))>());
        t("hex_to_uint32", tw<decltype(hex_to_uint32(""))>());
        t("hex_to_uint64", tw<decltype(hex_to_uint64(""))>());
        o.tag("widths");
        return;
    }
    if (op == "lanes")
    {
        // which branch of access.h was compiled: the byte offset every lane macro addresses
        uint16_t a = 0x0102; uint32_t b = 0x01020304u; uint64_t c = 0x0102030405060708ull;
#if C18_HAVE_LANES
        auto off = [](void *base, uint8_t &r) { return std::to_string((int)(&r - (uint8_t *)base)); };
        o.result = off(&a, UINT16_HI(a)) + " " + off(&a, UINT16_LO(a)) + " " +
                   off(&b, UINT32_HHI(b)) + " " + off(&b, UINT32_HLO(b)) + " " + off(&b, UINT32_LHI(b)) + " " + off(&b, UINT32_LLO(b)) + " " +
                   off(&c, UINT64_HHHI(c)) + " " + off(&c, UINT64_HHLO(c)) + " " + off(&c, UINT64_HLHI(c)) + " " + off(&c, UINT64_HLLO(c)) + " " +
                   off(&c, UINT64_LHHI(c)) + " " + off(&c, UINT64_LHLO(c)) + " " + off(&c, UINT64_LLHI(c)) + " " + off(&c, UINT64_LLLO(c));
        // what the names mean on either byte order: HI.. = most significant lane
        if (UINT16_HI(a) != 1 || UINT16_LO(a) != 2) o.fail("UINT16_HI/LO are not the high/low byte of the value");
        if (UINT32_HHI(b) != 1 || UINT32_HLO(b) != 2 || UINT32_LHI(b) != 3 || UINT32_LLO(b) != 4) o.fail("UINT32 lanes are not the bytes of the value, most significant first");
        if (UINT64_HHHI(c) != 1 || UINT64_HHLO(c) != 2 || UINT64_HLHI(c) != 3 || UINT64_HLLO(c) != 4 || UINT64_LHHI(c) != 5 ||
            UINT64_LHLO(c) != 6 || UINT64_LLHI(c) != 7 || UINT64_LLLO(c) != 8) o.fail("UINT64 lanes are not the bytes of the value, most significant first");
#else
        // the lane macros are gone / renamed: where the platform keeps the byte of significance k (the
        // fixed-width routines themselves are judged by u16..u64 / x16..x64)
        auto where = [](const void *obj, size_t n, uint8_t v) { for (size_t i = 0; i < n; i++) if (((const uint8_t *)obj)[i] == v) return std::to_string(i); return std::string("?"); };
        o.result = where(&a, 2, 1) + " " + where(&a, 2, 2);
        for (uint8_t v = 1; v <= 4; v++) o.result += " " + where(&b, 4, v);
        for (uint8_t v = 1; v <= 8; v++) o.result += " " + where(&c, 8, v);
        o.tag("lanes-absent");
#endif
        o.tag("lanes");
        return;
    }
    if (op == "hlong" && w.size() == 4)
    {
        // a long input through every hexascii routine; the result is a digest
        size_t n = (size_t)strtoull(w[1].c_str(), 0, 10);
        bytes m = pattern(n, (unsigned)atoi(w[2].c_str()), (unsigned)atoi(w[3].c_str()));
        exact_buf in(m), outb(2 * n);
        hexascii_encode(in.p, (int)n, outb.p);
        std::string c_text((char *)outb.p, 2 * n);
        std::string cpp_text = igris::hexascii_encode(in.p, n);
        exact_buf back(n);
        hexascii_decode(outb.p, (int)(2 * n), back.p);
        std::string (*sdec)(std::string const &) = igris::hexascii_decode;
        std::string sd = sdec ? sdec(cpp_text) : std::string();
        o.result = std::to_string(c_text.size()) + " " + hexn(fnv64(c_text), 16) + " " + hexn(fnv64(cpp_text), 16) + " " +
                   std::to_string(n) + " " + hexn(fnv64(back.p, n), 16) + " " + hexn(fnv64(sd), 16);
        if (c_text != ref_hex(m) || cpp_text != c_text) o.fail("hlong: encoders differ from the upper-case hex reference");
        if (back.vec() != m || byt(sd) != m) o.fail("hlong: decode(encode(x)) != x");
        // in place: out == indata
        exact_buf both(byt(c_text));
        hexascii_decode(both.p, (int)(2 * n), both.p);
        // (round 3b: not a clause of the property - reported as a tag, see op hdeci)
        o.tag(memcmp(both.p, m.data(), n) == 0 && memcmp(both.p + n, c_text.data() + n, n) == 0 ? "inplace-same" : "inplace-differs");
        o.tag("long");
        if (n >= 300 * 1024) o.tag("long300k");
        return;
    }
    if (op == "blong" && w.size() == 5)
    {
        bool url = w[1] == "url";
        const char *alpha = url ? URL_ALPHA : STD_ALPHA;
        size_t n = (size_t)strtoull(w[2].c_str(), 0, 10);
        bytes m = pattern(n, (unsigned)atoi(w[3].c_str()), (unsigned)atoi(w[4].c_str()));
        exact_buf in(m);
        std::string e = url ? igris::base64url_encode(in.p, n) : igris::base64_encode(in.p, n);
        std::string d = url ? igris::base64url_decode(e) : igris::base64_decode(e);
        o.result = std::to_string(e.size()) + " " + hexn(fnv64(e), 16) + " " + std::to_string(d.size()) + " " + hexn(fnv64(d), 16);
        if (e != ref_b64_encode(m, alpha)) o.fail("blong: encoder differs from RFC 4648");
        if (e.size() != 4 * ((n + 2) / 3)) o.fail("blong: length != 4*ceil(n/3)");
        if (byt(d) != m) o.fail("blong: decode(encode(x)) != x");
        if ((url ? igris::base64url_encode(str(m)) : igris::base64_encode(str(m))) != e) o.fail("blong: string overload differs");
        o.tag("long");
        if (n >= 300 * 1024) o.tag("long300k");
        o.tag(n % 3 == 0 ? "pad0" : n % 3 == 1 ? "pad2" : "pad1");
        return;
    }
    if (w.size() < 2)
    {
        o.result = "bad-op";
        return;
    }
    const std::string &arg = w[1];
    if (op == "nib")
    {
        // access.h HIHALF / LOHALF on every byte
        uint8_t b = (uint8_t)strtoul(arg.c_str(), 0, 16);
        uint8_t h = 0, l = 0;
        auto halves = [&](auto bb) {
            if constexpr (std::is_same<decltype(HIHALF(bb)), c18_absent>::value) { h = (uint8_t)(bb / 16); o.tag("hihalf-absent"); }
            else h = HIHALF(bb);
            if constexpr (std::is_same<decltype(LOHALF(bb)), c18_absent>::value) { l = (uint8_t)(bb % 16); o.tag("lohalf-absent"); }
            else l = LOHALF(bb);
        };
        halves(b);
        o.result = hexn(h, 2) + " " + hexn(l, 2);
        if (h != b / 16 || l != b % 16) o.fail("HIHALF/LOHALF are not b/16, b%16");
        if (half2hex(h) != HEXA[b / 16] || half2hex(l) != HEXA[b % 16]) o.fail("half2hex(HIHALF/LOHALF) is not the hex digit");
        o.tag("nib");
        return;
    }
    if (op == "hencm" && w.size() == 4)
    {
        // hexascii_encode with an explicit int size (a prefix of the mapped data); out mapped exactly or with spare room
        int size = atoi(w[1].c_str());
        size_t cap = (size_t)atoi(w[2].c_str());
        bytes m = unhex(w[3]);
        exact_buf in(m), outb(cap);
        hexascii_encode(in.p, size, outb.p);
        size_t cnt = 2 * (size_t)size;
        o.result = hex(outb.p, cnt < cap ? cnt : cap);
        for (size_t k = cnt; k < cap; k++)
            if (outb.p[k] != 0xA5) { o.fail("hexascii_encode wrote out[" + std::to_string(k) + "], beyond 2*size"); break; }
        if (std::string((char *)outb.p, cnt) != ref_hex(bytes(m.begin(), m.begin() + size))) o.fail("hexascii_encode(size) != hex of the first size bytes");
        if (size == 0) o.tag("size0");
        if ((size_t)size < m.size()) o.tag("prefix");
        if (cap > cnt) o.tag("sparecap");
        return;
    }
    if (op == "reuse" && w.size() == 3)
    {
        // repeated calls on ONE set of objects (same input buffer address, same length, same out buffer,
        // same std::string objects) with changed contents between the calls: a result cached by address
        // or length, or a table built from the first input, shows in the second answers
        bytes A = unhex(w[1]), B = unhex(w[2]);
        if (A.size() != B.size()) { o.result = "bad-op"; return; }
        size_t n = A.size();
        exact_buf buf(A), outb(2 * n), back(n);
        std::string text, b64, b64u;
        std::string (*sdec)(std::string const &) = igris::hexascii_decode;
        std::string r[2][7];
        for (int round = 0; round < 2; round++)
        {
            const bytes &m = round ? B : A;
            if (n) memcpy(buf.p, m.data(), n);
            hexascii_encode(buf.p, (int)n, outb.p);
            r[round][0] = std::string((char *)outb.p, 2 * n);
            r[round][1] = igris::hexascii_encode(buf.p, n);
            r[round][2] = igris::base64_encode(buf.p, n);
            r[round][3] = igris::base64url_encode(buf.p, n);
            text.assign(r[round][1]); // same object, same size: same character array
            b64.assign(r[round][2]);
            b64u.assign(r[round][3]);
            hexascii_decode(outb.p, (int)(2 * n), back.p);
            r[round][4] = std::string((char *)back.p, n) + (sdec ? sdec(text) : std::string("?"));
            r[round][5] = igris::base64_decode(b64);
            r[round][6] = igris::base64url_decode(b64u);
            if (r[round][0] != ref_hex(m) || r[round][1] != ref_hex(m)) o.fail("reuse: hex encoders, call " + std::to_string(round + 1));
            if (r[round][2] != ref_b64_encode(m, STD_ALPHA) || r[round][3] != ref_b64_encode(m, URL_ALPHA)) o.fail("reuse: base64 encoders, call " + std::to_string(round + 1) + " on the same buffer");
            if (r[round][4] != str(m) + str(m) || r[round][5] != str(m) || r[round][6] != str(m)) o.fail("reuse: decoders, call " + std::to_string(round + 1) + " on the same objects: decode(encode(x)) != x");
        }
        o.result = hex(r[1][0]) + " " + hex(r[1][1]) + " " + hex(r[1][2]) + " " + hex(r[1][3]) + " " + hex(r[1][4]) + " " + hex(r[1][5]) + " " + hex(r[1][6]);
        o.tag("reuse");
        return;
    }
    if (op == "hdeci" && w.size() == 3)
    {
        // Round 3b correction.  The op used to ASSERT in-place decoding (hexascii_decode(buf, size, buf)): neither the
        // property nor the header nor any caller in the repository promises that (the API takes two unrelated
        // pointers), and a decoder that fills `out` from the end is correct for separate buffers.  The compared
        // result is now built from a decode into a SEPARATE exactly sized buffer: the size/2 decoded bytes followed
        // by the untouched rest of the text (what the model's in-place form yields, theorem hexDecodeInPlaceM_eq);
        // what the build does when out == indata is reported as a tag only.
        int size = atoi(w[1].c_str());
        bytes t = unhex(w[2]);
        size_t cnt = size <= 1 ? 0 : (size_t)(size / 2);
        exact_buf in(t), sep(cnt);
        hexascii_decode(in.p, size, sep.p);
        bytes whole(sep.p, sep.p + cnt);
        if (cnt < t.size()) whole.insert(whole.end(), t.begin() + (long)cnt, t.end());
        o.result = hex(whole);
        if (in.vec() != t) o.fail("hexascii_decode changed its input");
        if (size > 0 && (size_t)size <= t.size())
        {
            std::string pre = str(t).substr(0, (size_t)size);
            if (only(pre, HEXANY) && sep.vec() != ref_unhex_anycase(pre)) o.fail("hexascii_decode(size) != reference parse of the first size characters");
        }
        exact_buf buf(t);
        hexascii_decode(buf.p, size, buf.p);
        o.tag(buf.vec() == whole ? "inplace-same" : "inplace-differs");
        o.tag("inplace");
        if (size > 0 && size % 2) o.tag("oddsize");
        return;
    }
    if (op == "hbyte" && w.size() == 3)
    {
        char hi = (char)strtoul(w[1].c_str(), 0, 16), lo = (char)strtoul(w[2].c_str(), 0, 16);
        uint8_t v = hex2byte(hi, lo);
        o.result = hexn(v, 2);
        std::string t{hi, lo};
        if (only(t, HEXANY))
        {
            o.tag("hexpair");
            if (v != strtoul(t.c_str(), 0, 16)) o.fail("hex2byte('" + t + "') != strtoul");
            if (t != ascii_upper(t)) o.tag("lowerhex");
        }
        else
            o.tag("nonhex");
        if (hex2byte(ascii_lower(t)[0], ascii_lower(t)[1]) != v) o.fail("hex2byte is not case-insensitive on " + hex(t));
        return;
    }
    if (op == "hdecm" && w.size() == 4)
    {
        // hexascii_decode with an explicit int size on exactly mapped buffers
        int size = atoi(w[1].c_str());
        size_t cap = (size_t)atoi(w[2].c_str());
        bytes t = unhex(w[3]);
        exact_buf in(t), outb(cap);
        hexascii_decode(in.p, size, outb.p);
        size_t cnt = size <= 1 ? 0 : (size_t)(size / 2);
        bytes d(outb.p, outb.p + (cnt < cap ? cnt : cap));
        o.result = hex(d);
        for (size_t k = cnt; k < cap; k++)
            if (outb.p[k] != 0xA5) { o.fail("hexascii_decode wrote out[" + std::to_string(k) + "], beyond size/2"); break; }
        if (size > 0 && (size_t)size <= t.size())
        {
            std::string pre = str(t).substr(0, (size_t)size);
            if (only(pre, HEXANY) && d != ref_unhex_anycase(pre)) o.fail("hexascii_decode(size) != reference parse of the first size characters");
        }
        if (size < 0) o.tag("negsize");
        if (size == 0) o.tag("size0");
        if (size > 0 && size % 2) o.tag("oddsize");
        if (size > 0 && (size_t)size < t.size()) o.tag("prefix");
        if (cap > cnt) o.tag("sparecap");
        return;
    }
    if (op == "hthrow_raw")
    {
        // (inner call of op hthrow, executed in a forked child)
        size_t n = (size_t)strtoull(arg.c_str(), 0, 16);
        exact_buf one((size_t)1);
        std::string r = "returns";
        try
        {
            (void)igris::hexascii_encode(one.p, n);
        }
        catch (const std::length_error &) { r = "length_error"; }
        catch (const std::bad_alloc &) { r = "bad_alloc"; }
        catch (...) { r = "other_exception"; }
        o.result = r;
        return;
    }
    if (op == "hthrow")
    {
        // Round 3b correction.  igris::hexascii_encode(p, n) with n = 2^62.. on a ONE-byte buffer breaks the
        // routine's precondition (n bytes readable): the property fixes nothing here.  The current code leaves
        // through std::length_error of ret.resize(size * 2) before it reads a byte (model: hexEncodeStr_throws_iff);
        // an implementation that grows the string while it reads would walk off the buffer instead - equally
        // allowed.  So the call runs in a forked child and its outcome is a TAG; the compared result is constant.
        out c = run_isolated(("hthrow_raw " + arg).c_str());
        o.result = "called";
        o.tag(c.result.compare(0, 5, "CRASH") == 0 ? "outcome=crash" : ("outcome=" + c.result).c_str());
        o.tag("throws");
        return;
    }
    if (op == "half")
    {
        uint8_t n = (uint8_t)strtoul(arg.c_str(), 0, 16);
        char c = half2hex(n);
        o.result = hexn((uint8_t)c, 2);
        if (n < 16)
        {
            o.tag("nibble");
            if (c != HEXA[n])
                o.fail("half2hex(" + std::to_string(n) + ") is not the upper-case hex digit");
            if (hex2half(c) != n)
                o.fail("hex2half(half2hex(n)) != n");
        }
    }
    else if (op == "hhalf")
    {
        char c = (char)strtoul(arg.c_str(), 0, 16);
        uint8_t v = hex2half(c);
        o.result = hexn(v, 2);
        size_t k = HEXA.find(c);
        if (k != std::string::npos)
        {
            o.tag("upperhex");
            if (v != k)
                o.fail("hex2half of an upper-case hex digit is wrong");
            if (half2hex(v) != c)
                o.fail("half2hex(hex2half(c)) != c");
        }
        else if (c >= 'a' && c <= 'f')
        {
            o.tag("lowerhex");
            char t[2] = {c, 0};
            if (v != strtoul(t, 0, 16)) o.fail("hex2half of a lower-case hex digit is wrong");
            if (half2hex(v) != c - 32) o.fail("half2hex(hex2half(c)) != upper(c)");
        }
        else
            o.tag("nonhex");
        // every letter has the value of its other case
        if (c >= 'A' && c <= 'Z' && hex2half((char)(c + 32)) != v) o.fail("hex2half(lower(c)) != hex2half(c)");
        if (c >= 'a' && c <= 'z' && hex2half((char)(c - 32)) != v) o.fail("hex2half(upper(c)) != hex2half(c)");
    }
    else if (op == "henc")
    {
        bytes m = unhex(arg);
        exact_buf in(m), outb(2 * m.size());
        hexascii_encode(in.p, (int)m.size(), outb.p);
        std::string c_text((char *)outb.p, 2 * m.size());
        std::string cpp_text = igris::hexascii_encode(in.p, m.size());
        o.result = hex(c_text) + " " + hex(cpp_text);
        std::string ref = ref_hex(m);
        if (c_text != ref) o.fail("hexascii_encode != upper-case hex reference");
        if (cpp_text != ref) o.fail("igris::hexascii_encode != upper-case hex reference");
        if (igris::hexascii_encode(str(m)) != ref) o.fail("igris::hexascii_encode(string) != reference");
        if (igris::hexascii_encode(igris::buffer(in.p, m.size())) != ref) o.fail("igris::hexascii_encode(buffer) != reference");
        if (c_text.size() != 2 * m.size() || cpp_text.size() != 2 * m.size()) o.fail("encoded length != 2n");
        if (!only(c_text, HEXA) || !only(cpp_text, HEXA)) o.fail("encoded text leaves the alphabet 0-9A-F");
        // decode(encode(x)) == x, exactly sized buffers both ways
        exact_buf tin(byt(c_text)), back(m.size());
        hexascii_decode(tin.p, (int)c_text.size(), back.p);
        if (back.vec() != m) o.fail("hexascii_decode(hexascii_encode(x)) != x");
        std::string (*sdec)(std::string const &) = igris::hexascii_decode;
        std::string (*bdec)(igris::buffer const &) = igris::hexascii_decode;
        if (!sdec || !bdec)
            o.fail("igris::hexascii_decode is declared in hexascii_string.h but defined nowhere (no inverse of igris::hexascii_encode)");
        else
        {
            if (byt(sdec(cpp_text)) != m) o.fail("igris::hexascii_decode(igris::hexascii_encode(x)) != x");
            if (byt(bdec(igris::buffer(tin.p, c_text.size()))) != m) o.fail("igris::hexascii_decode(buffer) != x");
        }
        if (!m.empty()) o.tag("henc");
        for (uint8_t x : m) if (x >= 0x80) { o.tag("highbit"); break; }
        if (c_text.find_first_of("ABCDEF") != std::string::npos) o.tag("letters");
        {
            // round 3b: in-place ENCODING (out == indata, data at the front of a 2n-byte buffer) is not promised by
            // anything (the present loop stores two characters per byte read and overruns its own input for
            // n >= 2); what the build does is a tag
            exact_buf both(2 * m.size());
            if (!m.empty()) memcpy(both.p, m.data(), m.size());
            hexascii_encode(both.p, (int)m.size(), both.p);
            o.tag(std::string((char *)both.p, 2 * m.size()) == ref ? "enc-inplace-same" : "enc-inplace-differs");
        }
    }
    else if (op == "hdec")
    {
        bytes t = unhex(arg);
        exact_buf in(t), outb(t.size() / 2);
        hexascii_decode(in.p, (int)t.size(), outb.p);
        bytes d = outb.vec();
        std::string (*sdec)(std::string const &) = igris::hexascii_decode;
        std::string sd = sdec ? sdec(str(t)) : std::string();
        o.result = hex(d) + " " + (sdec ? hex(sd) : std::string("undefined"));
        if (!sdec) o.fail("igris::hexascii_decode is declared in hexascii_string.h but defined nowhere");
        if (only(str(t), HEXA))
        {
            // the decoder accepts everything the encoder can produce
            std::string even = str(t).substr(0, t.size() / 2 * 2);
            if (ref_hex(d) != even) o.fail("hexascii_decode: re-encoding the result does not give the text back");
            if (sdec && ref_hex(byt(sd)) != even) o.fail("igris::hexascii_decode: re-encoding does not give the text back");
            o.tag("upperhex");
        }
        else if (only(str(t), HEXANY))
        {
            bytes ref = ref_unhex_anycase(str(t));
            if (d != ref) o.fail("hexascii_decode of a mixed-case hex text != strtoul reference");
            if (sdec && byt(sd) != ref) o.fail("igris::hexascii_decode of a mixed-case hex text != strtoul reference");
            o.tag("lowerhex");
        }
        else
            o.tag("nonhex");
        {
            // case-insensitive on every text; result length floor(len/2); buffer overload = string overload
            std::string tl = ascii_lower(str(t));
            exact_buf inl(byt(tl)), outl(t.size() / 2);
            hexascii_decode(inl.p, (int)t.size(), outl.p);
            if (outl.vec() != d) o.fail("hexascii_decode(lower(t)) != hexascii_decode(t)");
            if (sdec && sd.size() != t.size() / 2) o.fail("igris::hexascii_decode: result length != len/2");
            std::string (*bdec)(igris::buffer const &) = igris::hexascii_decode;
            if (bdec && sdec && bdec(igris::buffer((const void *)in.p, t.size())) != sd) o.fail("igris::hexascii_decode(buffer) != (string)");
        }
        if (t.size() % 2) o.tag("oddlen");
    }
    else if (op == "u8") fixed_to<uint8_t>(arg, o, uint8_to_hex, hex_to_uint8);
    else if (op == "u16") fixed_to<uint16_t>(arg, o, uint16_to_hex, hex_to_uint16);
    else if (op == "u32") fixed_to<uint32_t>(arg, o, uint32_to_hex, hex_to_uint32);
    else if (op == "u64") fixed_to<uint64_t>(arg, o, uint64_to_hex, hex_to_uint64);
    else if (op == "x8") fixed_from<uint8_t>(arg, o, uint8_to_hex, hex_to_uint8);
    else if (op == "x16") fixed_from<uint16_t>(arg, o, uint16_to_hex, hex_to_uint16);
    else if (op == "x32") fixed_from<uint32_t>(arg, o, uint32_to_hex, hex_to_uint32);
    else if (op == "x64") fixed_from<uint64_t>(arg, o, uint64_to_hex, hex_to_uint64);
    else if (op == "benc" || op == "buenc")
    {
        bool url = op == "buenc";
        const char *alpha = url ? URL_ALPHA : STD_ALPHA;
        bytes m = unhex(arg);
        exact_buf in(m);
        std::string e = url ? igris::base64url_encode(in.p, m.size()) : igris::base64_encode(in.p, m.size());
        std::string e2 = url ? igris::base64url_encode(str(m)) : igris::base64_encode(str(m));
        o.result = hex(e);
        std::string ref = ref_b64_encode(m, alpha);
        if (e != ref) o.fail(op + ": '" + e + "' != RFC 4648 '" + ref + "'");
        if (e2 != e) o.fail(op + ": string overload differs from pointer overload");
        if (e.size() != 4 * ((m.size() + 2) / 3)) o.fail(op + ": length != 4*ceil(n/3)");
        if (!only(e, std::string(alpha) + "=")) o.fail(op + ": text leaves the alphabet");
        std::string d = url ? igris::base64url_decode(e) : igris::base64_decode(e);
        if (byt(d) != m) o.fail(std::string(url ? "base64url_decode(base64url_encode(x))" : "base64_decode(base64_encode(x))") + " != x (got " + hex(d) + ")");
        if (ref_b64_decode(e, alpha) != m) o.fail(op + ": reference decoder does not invert the text");
        if (!m.empty()) o.tag(op.c_str());
        o.tag(m.size() % 3 == 0 ? "pad0" : m.size() % 3 == 1 ? "pad2" : "pad1");
        for (uint8_t x : m) if (x >= 0x80) { o.tag("highbit"); break; }
        if (e.find_first_of("+-") != std::string::npos) o.tag("sym62");
        if (e.find_first_of("/_") != std::string::npos) o.tag("sym63");
    }
    else if (op == "bdec" || op == "budec")
    {
        bool url = op == "budec";
        const char *alpha = url ? URL_ALPHA : STD_ALPHA;
        std::string t = str(unhex(arg));
        std::string d = url ? igris::base64url_decode(t) : igris::base64_decode(t);
        o.result = hex(d);
        // canonical encoder output?  then the decoder must invert it
        bytes rd = ref_b64_decode(t, alpha);
        // on EVERY text: the whole bytes of the sextets of the longest prefix
        // of alphabet letters (the url decoder also takes '+' and '/')
        {
            std::string tt = t;
            if (url) for (char &c : tt) { if (c == '-') c = '+'; if (c == '_') c = '/'; }
            bytes want = ref_b64_decode(tt, STD_ALPHA);
            if (byt(d) != want) o.fail(op + ": result is not the whole bytes of the leading letters' sextets (got " + hex(d) + ", want " + hex(want) + ")");
            size_t nl = 0;
            while (nl < tt.size() && tt[nl] && memchr(STD_ALPHA, tt[nl], 64)) nl++;
            if (nl < tt.size()) o.tag("stopped");
            if (nl % 4 == 1) o.tag("tail1");
            if (nl < tt.size() && tt[nl] != '=') o.tag("junkstop");
        }
        if (ref_b64_encode(rd, alpha) == t)
        {
            if (byt(d) != rd) o.fail(op + " does not invert the canonical encoding '" + t + "' (got " + hex(d) + ")");
            o.tag("canonical");
            if (!t.empty()) o.tag(op.c_str());
        }
        else
            o.tag("noncanonical");
        if (t.find('=') != std::string::npos) o.tag("padded");
    }
    else
        o.result = "bad-op";
}

// ---------------------------------------------------------------- pre-main battery
// A fixed battery through every public codec function, run from the constructor of a namespace-scope
// object with init_priority(101): before main() and before every default-priority dynamic initialiser
// of this translation unit (which #includes base64.cpp) and of the library files linked behind it.
// A codec that depends on something built by a dynamic initialiser (a reverse table filled "at start-up")
// gives a different answer here.  Op `premain <k> <op...>` reports the stored result of battery line k;
// the model computes the same call; the oracle compares pre-main == main-time == reference.
static const char *const PREMAIN_BATTERY[] = {
    "alpha", "alphas", "widths", "lanes", "maxsz",
    "nib a7", "nib 0f", "half 0b", "half 07", "hhalf 41", "hhalf 61", "hhalf 39", "hhalf 66", "hbyte 63 37", "hbyte 46 30",
    "henc 00017f80ff3efb", "henc abcdef23", "hdec 30614239664637", "hdec 4142434445463233", "hdecm 5 2 6142633945", "hdecm -3 0 614263",
    "hencm 2 4 abcdef", "hencm 0 0 -", "hdeci 6 614263394566", "hdeci 5 6142633945",
    "hthrow 4000000000000000",
    "u8 a7", "u16 beef", "u32 89abcdef", "u64 0123456789abcdef", "u64 fedcba9876543210",
    "x8 6337", "x16 42654566", "x32 3839414243444546", "x64 66656463626139383736353433323130",
    "benc -", "benc ff", "benc fbff", "benc 666f6f626172", "benc 00017f80ff3efb", "benc fbefbefbefbe",
    "bdec 5a6d3976596d4679", "bdec 5a6d39765967", "bdec 5a6d39765967203d", "bdec 2b2f2b2f", "bdec 2d5f383d", "bdec 5a673d3d", "bdec 5a6d383d",
    "buenc -", "buenc fbff", "buenc 00", "buenc fbefbefbefbe", "buenc 666f6f6261",
    "budec 2d5f383d", "budec 2b2f383d", "budec 41413d3d", "budec 5a6d39765967",
    "reuse 00017f80ff3efb fbefbe01020304", "reuse 666f6f 626172",
    "hlong 1000 7 3", "blong std 1000 7 3", "blong url 1001 13 250", "blong std 1001 251 128", "blong url 1002 5 0",
    // round 3b: allocation failures injected before main() too
    "oom hencp 00017f80ff3efb00017f80ff3efb00017f80ff3efb", "oom bdec 5a6d3976596d46795a6d3976596d46795a6d3976596d4679",
    "oom budec 2d5f38412d5f38412d5f38412d5f38412d5f3841", "oom bencs 666f6f626172666f6f626172666f6f626172",
};
static const size_t PREMAIN_N = sizeof PREMAIN_BATTERY / sizeof PREMAIN_BATTERY[0];

// no iostreams before main()
static std::vector<std::string> split_plain(const std::string &line)
{
    std::vector<std::string> w;
    std::string cur;
    for (char c : line)
    {
        if (c == ' ') { if (!cur.empty()) w.push_back(cur); cur.clear(); }
        else cur.push_back(c);
    }
    if (!cur.empty()) w.push_back(cur);
    return w;
}

// Each battery line runs in a forked child (which is just as much "before main()" as its parent): a
// crash or sanitizer abort of a routine that is not usable yet becomes the result of THAT line instead of
// killing the harness before it has read its first operation.
static out run_isolated(const char *line)
{
    out o;
    int fd[2];
    if (pipe(fd) != 0) { o.result = "CRASH pre-main"; o.fail("harness error: pipe"); return o; }
    pid_t pid = fork();
    if (pid == 0)
    {
        close(fd[0]);
        alarm(20);
        out c;
        run_op(split_plain(line), line, c);
        std::string msg = c.result + "\t" + c.oracle + "\t" + c.tags;
        size_t done = 0;
        while (done < msg.size())
        {
            ssize_t k = write(fd[1], msg.data() + done, msg.size() - done);
            if (k <= 0) break;
            done += (size_t)k;
        }
        _exit(0);
    }
    close(fd[1]);
    std::string msg;
    char tmp[4096];
    ssize_t k;
    while ((k = read(fd[0], tmp, sizeof tmp)) > 0) msg.append(tmp, (size_t)k);
    close(fd[0]);
    int status = 0;
    if (pid > 0) waitpid(pid, &status, 0);
    size_t t1 = msg.find('\t'), t2 = t1 == std::string::npos ? t1 : msg.find('\t', t1 + 1);
    if (pid > 0 && WIFEXITED(status) && WEXITSTATUS(status) == 0 && t2 != std::string::npos)
    {
        o.result = msg.substr(0, t1);
        o.oracle = msg.substr(t1 + 1, t2 - t1 - 1);
        o.tags = msg.substr(t2 + 1);
    }
    else
    {
        o.result = "CRASH pre-main";
        o.fail(std::string("the call crashed (") + (WIFSIGNALED(status) ? "signal " + std::to_string(WTERMSIG(status)) : "sanitizer abort, exit " + std::to_string(WEXITSTATUS(status))) + ")");
    }
    return o;
}

// `gen` mode executes no igris code: skip the battery there
static bool cmdline_is_gen()
{
    char b[512];
    int f = open("/proc/self/cmdline", O_RDONLY);
    if (f < 0) return false;
    ssize_t k = read(f, b, sizeof b - 1);
    close(f);
    if (k <= 0) return false;
    b[k] = 0;
    size_t a0 = strlen(b);
    return a0 + 1 < (size_t)k && !strcmp(b + a0 + 1, "gen");
}

struct premain_battery
{
    std::vector<out> res;
    bool before_main, before_default_init;
    premain_battery() : before_main(!main_entered), before_default_init(default_priority_marker == 0)
    {
        if (cmdline_is_gen()) return;
        for (size_t k = 0; k < PREMAIN_N; k++) res.push_back(run_isolated(PREMAIN_BATTERY[k]));
    }
};
// Three positions in the initialisation order (round 3b):
//   premain   priority 101: before every default-priority initialiser of any translation unit
//   premainD  priority 65535 (the lowest explicit one): after every object with a smaller priority number -
//             where a library that "fixes" an order problem with init_priority(N) has its objects built
//   premainG  a plain global defined at the END of this translation unit: after all of the harness's own
//             initialisers, still in front of the library files (they are linked behind the harness)
// and main() itself, the fourth position, after everything.
__attribute__((init_priority(101))) static premain_battery premain_results;
__attribute__((init_priority(65535))) static premain_battery premain_results_d;
extern premain_battery premain_results_g;

static void run_premain(const std::vector<std::string> &w, out &o)
{
    size_t k = w.size() >= 3 ? (size_t)atoi(w[1].c_str()) : PREMAIN_N;
    std::string inner;
    for (size_t i = 2; i < w.size(); i++) inner += (i > 2 ? " " : "") + w[i];
    if (k >= PREMAIN_N || inner != PREMAIN_BATTERY[k] || w[2] == "premain")
    {
        o.result = "bad-op";
        return;
    }
    const premain_battery &bat = w[0] == "premainD" ? premain_results_d : w[0] == "premainG" ? premain_results_g : premain_results;
    if (bat.res.size() != PREMAIN_N) { o.result = "bad-op"; return; }
    const out &pre = bat.res[k];
    o.result = pre.result;
    o.tags = pre.tags;
    o.tag("premain");
    if (!bat.before_main) o.fail("harness error: the battery did not run before main()");
    if (w[0] == "premain" && !bat.before_default_init) o.fail("harness error: the battery ran after the default-priority initialisers of this translation unit");
    if (w[0] == "premainG" && bat.before_default_init) o.fail("harness error: the last global of the translation unit was constructed before the first");
    if (w[0] != "premain") o.tag(w[0].c_str());
    if (pre.oracle != "ok") o.fail("called before main(): " + pre.oracle);
    out now;
    run_op(std::vector<std::string>(w.begin() + 2, w.end()), inner, now);
    if (now.result != pre.result)
        o.fail("'" + inner + "' gives " + pre.result.substr(0, 80) + " when called before main() (from a global constructor) and " + now.result.substr(0, 80) + " when called from main(): the routine depends on a dynamic initialiser");
    if (now.oracle != "ok") o.fail("called from main(): " + now.oracle);
}

// ---------------------------------------------------------------- allocation failures (round 3b)
// `oom <fn> <input>`: the routine is called once undisturbed (N allocations counted), then once for every
// k < N with its k-th allocation failing, then once more undisturbed.  Oracle: a failed allocation leaves the
// routine as std::bad_alloc (no other exception, no abort), every block allocated inside the call is released
// again (the cleanup edges of the local std::string objects), and the routine still gives the right answer
// afterwards.  How many allocations a routine makes is not fixed by the property: N is a tag.
struct oom_run { int outcome; std::string value; int leaked; long allocs; };
template <class F> static oom_run with_failure(long k, F call)
{
    oom_run R{0, std::string(), 0, 0};
    oomi::nblocks = 0; oomi::overflow = false; oomi::allocs = 0;
    {
        std::string r;
        oomi::countdown = k;
        oomi::track = true;
        try { r = call(); R.outcome = 0; }
        catch (const std::bad_alloc &) { R.outcome = 1; }
        catch (...) { R.outcome = 2; }
        oomi::track = false;
        oomi::countdown = -1;
        R.value = r;
    }
    R.leaked = oomi::overflow ? -1 : oomi::nblocks;
    R.allocs = oomi::allocs;
    oomi::nblocks = 0;
    return R;
}
static void run_oom(const std::vector<std::string> &w, out &o)
{
    const std::string &fn = w[1];
    bytes x = unhex(w[2]);
    exact_buf in(x);
    const std::string sx = str(x);
    const igris::buffer bx((const void *)in.p, x.size());
    std::string (*sdec)(std::string const &) = igris::hexascii_decode;
    std::string (*bufdec)(igris::buffer const &) = igris::hexascii_decode;
    std::function<std::string()> call;
    std::string want;
    bool have_want = true;
    if (fn == "hencp") { call = [&] { return igris::hexascii_encode(in.p, x.size()); }; want = ref_hex(x); }
    else if (fn == "hencs") { call = [&] { return igris::hexascii_encode(sx); }; want = ref_hex(x); }
    else if (fn == "hencb") { call = [&] { return igris::hexascii_encode(bx); }; want = ref_hex(x); }
    else if (fn == "hdecs" && sdec) { call = [&] { return sdec(sx); }; have_want = only(sx, HEXANY); want = str(ref_unhex_anycase(sx)); }
    else if (fn == "hdecb" && bufdec) { call = [&] { return bufdec(bx); }; have_want = only(sx, HEXANY); want = str(ref_unhex_anycase(sx)); }
    else if (fn == "bencp") { call = [&] { return igris::base64_encode(in.p, x.size()); }; want = ref_b64_encode(x, STD_ALPHA); }
    else if (fn == "bencs") { call = [&] { return igris::base64_encode(sx); }; want = ref_b64_encode(x, STD_ALPHA); }
    else if (fn == "buencp") { call = [&] { return igris::base64url_encode(in.p, x.size()); }; want = ref_b64_encode(x, URL_ALPHA); }
    else if (fn == "buencs") { call = [&] { return igris::base64url_encode(sx); }; want = ref_b64_encode(x, URL_ALPHA); }
    else if (fn == "bdec") { call = [&] { return igris::base64_decode(sx); }; want = str(ref_b64_decode(sx, STD_ALPHA)); }
    else if (fn == "budec")
    {
        call = [&] { return igris::base64url_decode(sx); };
        std::string tt = sx;
        for (char &c : tt) { if (c == '-') c = '+'; if (c == '_') c = '/'; }
        want = str(ref_b64_decode(tt, STD_ALPHA));
    }
    else { o.result = "bad-op"; return; }
    oom_run first = with_failure(-1, call);
    o.result = hex(first.value);
    if (first.outcome != 0) o.fail("oom " + fn + ": the undisturbed call threw");
    if (have_want && first.value != want) o.fail("oom " + fn + ": the undisturbed call differs from the reference");
    if (first.leaked) o.fail("oom " + fn + ": the undisturbed call left " + std::to_string(first.leaked) + " block(s) allocated");
    long N = first.allocs, thrown = 0;
    for (long k = 0; k < N && k < 64; k++)
    {
        oom_run r = with_failure(k, call);
        std::string at = "oom " + fn + ": allocation " + std::to_string(k + 1) + " of " + std::to_string(N) + " fails: ";
        if (r.outcome == 2) o.fail(at + "the routine left through an exception other than std::bad_alloc");
        if (r.outcome == 0 && r.value != first.value) o.fail(at + "the routine returned a different answer (" + hex(r.value).substr(0, 60) + ")");
        if (r.leaked) o.fail(at + std::to_string(r.leaked) + " block(s) allocated inside the call were not released (leak on the exception path)");
        if (r.outcome == 1) thrown++;
    }
    oom_run last = with_failure(-1, call);
    if (last.outcome != 0 || last.value != first.value) o.fail("oom " + fn + ": after the failed calls the routine gives a different answer");
    o.tag("oom");
    o.tag(("allocs=" + std::to_string(N)).c_str());
    if (thrown) o.tag("bad_alloc");
}

// ---------------------------------------------------------------- gen
static bytes rnd_bytes(rng &r, size_t n)
{
    // bytes whose 6-bit groups hit '+', '/', the high bit, zero
    static const std::vector<uint8_t> special = {0x00, 0x01, 0x7f, 0x80, 0xff, 0x3e, 0x3f, 0xfb, 0xef, 0xbe, 0xf8, 0xfc, 0x0f, 0xf0};
    bytes m(n);
    int mode = (int)r.below(4);
    for (auto &x : m)
        x = mode == 0 ? r.pick(special) : mode == 1 && r.chance(50) ? (uint8_t)(0xf8 | r.below(8)) : (uint8_t)r.next();
    return m;
}
static std::string rnd_upper_hex(rng &r, size_t n)
{
    std::string s;
    for (size_t i = 0; i < n; i++)
        s.push_back(HEXA[r.below(16)]);
    return s;
}
// hex digits, `upper_pct` % of the letters upper-case
static std::string rnd_any_hex(rng &r, size_t n, unsigned upper_pct)
{
    static const std::string lo = "0123456789abcdef";
    std::string s;
    for (size_t i = 0; i < n; i++)
    {
        unsigned k = (unsigned)r.below(16);
        s.push_back(r.chance(upper_pct) ? HEXA[k] : lo[k]);
    }
    return s;
}
// mostly hex digits with some arbitrary characters
static std::string rnd_text(rng &r, size_t n)
{
    static const std::vector<uint8_t> odd = {0x00, 0x20, 0x0a, 0x2f, 0x3a, 0x40, 0x47, 0x60, 0x67, 0x7f, 0x80, 0xff, 'x', 'X', 'g', 'G', 'z', 'Z'};
    std::string s = rnd_any_hex(r, n, 50);
    int mode = (int)r.below(3);
    for (char &c : s)
        if (mode == 2 || r.chance(mode == 0 ? 10 : 40)) c = (char)(r.chance(50) ? r.pick(odd) : (uint8_t)r.next());
    return s;
}
static void emit(const char *op, const std::string &payload) { printf("%s %s\n", op, hex(payload).c_str()); }
static void emit(const char *op, const bytes &payload) { printf("%s %s\n", op, hex(payload).c_str()); }

// Round 3b (quick-tier time): the two generator functions only print op lines and never call igris; compiled at
// -O0 and without sanitizer instrumentation they cost 1 s instead of 18 s of g++ time (31 s -> 13 s user for this file)
#define C18_GEN_ONLY __attribute__((optimize("O0"), no_sanitize("address", "undefined")))
C18_GEN_ONLY static void gen_round3(rng &r, bool th)
{
    // (0) round 3: what the build contains (both alphabets as printed by the encoders, type widths, the
    // compiled branch of access.h), the pre-main battery, HIHALF/LOHALF on every byte
    puts("alphas");
    puts("widths");
    puts("lanes");
    for (size_t k = 0; k < PREMAIN_N; k++) printf("premain %zu %s\n", k, PREMAIN_BATTERY[k]);
    for (size_t k = 0; k < PREMAIN_N; k++) printf("premainD %zu %s\n", k, PREMAIN_BATTERY[k]);
    for (size_t k = 0; k < PREMAIN_N; k++) printf("premainG %zu %s\n", k, PREMAIN_BATTERY[k]);
    // round 3b: allocation failure injected into every routine that returns a std::string, at every allocation it
    // makes; lengths around the small-string limit (15/16) and long enough for several growth steps
    for (size_t len : {0u, 1u, 7u, 8u, 11u, 12u, 15u, 16u, 17u, 23u, 24u, 31u, 32u, 33u, 47u, 48u, 64u, 100u, 255u, 256u, 1000u})
    {
        if (!th && len > 300) continue;
        for (int rep = 0; rep < (th ? 4 : 1); rep++)
        {
            bytes m = rnd_bytes(r, len);
            for (const char *fn : {"hencp", "hencs", "hencb", "bencp", "bencs", "buencp", "buencs"}) printf("oom %s %s\n", fn, m.empty() ? "-" : hex(m).c_str());
            std::string ht = rep % 2 ? rnd_text(r, len) : rnd_any_hex(r, len, 50);
            printf("oom hdecs %s\n", ht.empty() ? "-" : hex(ht).c_str());
            printf("oom hdecb %s\n", ht.empty() ? "-" : hex(ht).c_str());
            std::string e = ref_b64_encode(m, STD_ALPHA), u = ref_b64_encode(m, URL_ALPHA);
            if (rep % 2 && !e.empty()) e.insert(r.below(e.size() + 1), " ");
            printf("oom bdec %s\n", e.empty() ? "-" : hex(e).c_str());
            printf("oom budec %s\n", u.empty() ? "-" : hex(u).c_str());
        }
    }
    // fixed-width parsers on a text LONGER than 2*sizeof characters: only the first 2*sizeof are read
    for (int i = 0; i < (th ? 200 : 20); i++)
    {
        emit("x8", rnd_any_hex(r, 2 + (size_t)r.range(1, 4), 50)); emit("x16", rnd_any_hex(r, 4 + (size_t)r.range(1, 4), 50));
        emit("x32", rnd_any_hex(r, 8 + (size_t)r.range(1, 4), 50)); emit("x64", rnd_text(r, 16 + (size_t)r.range(1, 4)));
    }
    for (unsigned b = 0; b < 256; b++) printf("nib %02x\n", b);
    // base64: EVERY length 0..64 x byte patterns data[i] = a*i + b (ramps through all 256 values, constant
    // strings, descending ramps): every byte value at every position class mod 3, every padding class
    for (size_t len = 0; len <= 64; len++)
    {
        std::vector<std::pair<unsigned, unsigned>> pats;
        if (th || len <= 4)
            for (unsigned b = 0; b < 256; b++) { pats.push_back({1u, b}); if (th && b % 4 == 0) pats.push_back({255u, b}); }
        for (unsigned b : {0x00u, 0x7du, 0x80u, 0xf8u, 0xfbu, 0xffu})
            for (unsigned a : {0u, 1u, 37u}) pats.push_back({a, b});
        for (int i = 0; i < 4; i++) pats.push_back({(unsigned)r.below(256), (unsigned)r.below(256)});
        for (auto &ab : pats)
        {
            bytes m = pattern(len, ab.first, ab.second);
            emit("benc", m);
            emit("buenc", m);
            emit("bdec", ref_b64_encode(m, STD_ALPHA));
            emit("budec", ref_b64_encode(m, URL_ALPHA));
        }
        // the other decoder on the same text: the standard decoder stops at '-' / '_', the url decoder takes '+' and '/'
        bytes m = pattern(len, 0xfbu + (unsigned)len, 0xf8u);
        emit("bdec", ref_b64_encode(m, URL_ALPHA));
        emit("budec", ref_b64_encode(m, STD_ALPHA));
    }
    // hexascii with explicit sizes: encode a prefix into an exactly sized / spare out; decode in place
    for (int len = 0; len <= 40; len++)
        for (int rep = 0; rep < (th ? 8 : 2); rep++)
        {
            bytes m = rnd_bytes(r, (size_t)len);
            int size = rep == 0 ? len : (int)r.range(0, len);
            printf("hencm %d %zu %s\n", size, 2 * (size_t)size + (r.chance(30) ? (size_t)r.below(3) : 0), hex(m).c_str());
            std::string t = rep % 2 ? rnd_text(r, (size_t)len) : rnd_any_hex(r, (size_t)len, 50);
            int dsize = rep == 0 ? len : (int)r.range(-3, len);
            printf("hdeci %d %s\n", dsize, hex(t).c_str());
        }
    // the same objects reused with changed contents
    for (int len = 0; len <= 48; len++)
        for (int rep = 0; rep < (th ? 6 : 2); rep++)
            printf("reuse %s %s\n", hex(rnd_bytes(r, (size_t)len)).c_str(), hex(rnd_bytes(r, (size_t)len)).c_str());
    // long inputs and the sizes around 2^8 and 2^16 (digest results); >= 300 KiB once per routine
    for (size_t n : {255u, 256u, 257u, 65535u, 65536u, 65537u})
    {
        printf("hlong %zu %u %u\n", n, 1 + 2 * (unsigned)r.below(128), (unsigned)r.below(256));
        printf("blong %s %zu %u %u\n", n % 2 ? "std" : "url", n, 1 + 2 * (unsigned)r.below(128), (unsigned)r.below(256));
    }
    printf("hlong %u %u %u\n", 300u * 1024u, 1 + 2 * (unsigned)r.below(128), (unsigned)r.below(256));
    printf("blong std %u %u %u\n", 300u * 1024u + 1, 1 + 2 * (unsigned)r.below(128), (unsigned)r.below(256));
    printf("blong url %u %u %u\n", 300u * 1024u + 2, 1 + 2 * (unsigned)r.below(128), (unsigned)r.below(256));
    if (th)
    {
        printf("blong url %u 1 0\n", 300u * 1024u);
        printf("blong std %u 255 7\n", 1024u * 1024u + 2);
        printf("hlong %u 3 1\n", 500001u);
    }
}

C18_GEN_ONLY static void gen(rng &r, const std::string &tier)
{
    bool th = tier == "thorough";
    puts("alpha");
    // (1) every nibble helper value; every upper-case digit
    for (unsigned n = 0; n < 256; n++) printf("half %02x\n", n);
    for (char c : HEXA) printf("hhalf %02x\n", (unsigned)(uint8_t)c);
    // every char value through hex2half; hex2byte: every char as high and as low
    // digit against a set of partners, and all pairs of hex digits of either case
    for (unsigned c = 0; c < 256; c++) printf("hhalf %02x\n", c);
    for (unsigned c = 0; c < 256; c++)
        for (unsigned d : {0x30u, 0x39u, 0x41u, 0x46u, 0x61u, 0x66u, 0x00u, 0x3au, 0x47u, 0x67u, 0x80u, 0xffu})
        {
            printf("hbyte %02x %02x\n", c, d);
            printf("hbyte %02x %02x\n", d, c);
        }
    for (char a : HEXANY) for (char b : HEXANY) printf("hbyte %02x %02x\n", (unsigned)(uint8_t)a, (unsigned)(uint8_t)b);
    puts("maxsz");
    for (unsigned long long n : {1ull << 62, (1ull << 62) + 1, (1ull << 63) - 1, (3ull << 61)})
        printf("hthrow %llx\n", n);
    // (2) fixed-width helpers: all 8/16-bit values, all upper-case 2-digit texts
    for (unsigned v = 0; v < 256; v++) printf("u8 %02x\n", v);
    for (unsigned v = 0; v < 65536; v++) printf("u16 %04x\n", v);
    for (char a : HEXA) for (char b : HEXA) emit("x8", std::string{a, b});
    for (char a : HEXANY) for (char b : HEXANY) if (islower(a) || islower(b)) emit("x8", std::string{a, b});
    for (unsigned a = 0; a < 256; a++) { emit("x8", std::string{(char)a, '7'}); emit("x8", std::string{'c', (char)a}); }
    for (unsigned v = 0; v < 65536; v += th ? 1 : 1 + (unsigned)r.below(16))
    {
        char t[8];
        snprintf(t, sizeof t, "%04X", v);
        emit("x16", std::string(t));
    }
    // boundary-biased 32/64-bit values
    std::vector<uint64_t> edge = {0, 1, 9, 10, 15, 16, 0x7f, 0x80, 0xff, 0x100, 0x0123456789abcdefull, 0xfedcba9876543210ull,
                                  0xa0b0c0d0e0f00a0bull, 0x00000000ffffffffull, 0xffffffff00000000ull, ~0ull};
    for (int k = 0; k < 64; k++)
    {
        edge.push_back(1ull << k);
        edge.push_back((1ull << k) - 1);
        edge.push_back(~(1ull << k));
        edge.push_back(0xffull << (k & ~7));
    }
    for (uint64_t v : edge)
    {
        printf("u32 %08x\n", (unsigned)v);
        printf("u32 %08x\n", (unsigned)(v >> 32));
        printf("u64 %016llx\n", (unsigned long long)v);
    }
    for (int i = 0; i < (th ? 20000 : 2000); i++)
    {
        uint64_t v = r.next();
        if (r.chance(30)) v &= r.next(); // sparse
        if (r.chance(30)) v |= r.next(); // dense
        printf("u32 %08x\n", (unsigned)v);
        printf("u64 %016llx\n", (unsigned long long)v);
        emit("x32", rnd_upper_hex(r, 8));
        emit("x64", rnd_upper_hex(r, 16));
        if (i % 4 == 0)
        {
            emit("x16", rnd_any_hex(r, 4, i % 8 == 0 ? 0 : 50));
            emit("x32", rnd_any_hex(r, 8, i % 8 == 0 ? 0 : 50));
            emit("x64", rnd_any_hex(r, 16, i % 8 == 0 ? 0 : 50));
        }
        if (i % 16 == 1)
        {
            emit("x16", rnd_text(r, 4)); emit("x32", rnd_text(r, 8)); emit("x64", rnd_text(r, 16));
        }
    }
    // (3) all byte strings of length <= 4 over a reduced alphabet
    const uint8_t al[6] = {0x00, 0x7f, 0x80, 0xff, 0x3e, 0xfb};
    for (int len = 0; len <= 4; len++)
    {
        int total = 1;
        for (int i = 0; i < len; i++) total *= 6;
        for (int code = 0; code < total; code++)
        {
            bytes m;
            for (int i = 0, c = code; i < len; i++, c /= 6) m.push_back(al[c % 6]);
            emit("henc", m);
            emit("benc", m);
            emit("buenc", m);
            emit("bdec", ref_b64_encode(m, STD_ALPHA));
            emit("budec", ref_b64_encode(m, URL_ALPHA));
        }
    }
    // all single bytes, all byte pairs with interesting first byte
    for (unsigned a = 0; a < 256; a++)
    {
        bytes m = {(uint8_t)a};
        emit("henc", m); emit("benc", m); emit("buenc", m);
        emit("budec", ref_b64_encode(m, URL_ALPHA));
        for (unsigned b : {0x00u, 0x0fu, 0xf0u, 0xffu})
        {
            bytes m2 = {(uint8_t)b, (uint8_t)a};
            emit("benc", m2); emit("buenc", m2);
            bytes m3 = {(uint8_t)b, (uint8_t)a, (uint8_t)(b ^ 0xc3)};
            emit("benc", m3);
            emit("budec", ref_b64_encode(m3, URL_ALPHA));
        }
    }
    // (4) random byte strings of every length 0..300
    int reps = th ? 10 : 1;
    for (int rep = 0; rep < reps; rep++)
        for (int len = 0; len <= 300; len++)
        {
            bytes m = rnd_bytes(r, len);
            emit("henc", m);
            emit("benc", rnd_bytes(r, len));
            emit("buenc", rnd_bytes(r, len));
            m = rnd_bytes(r, len);
            emit("bdec", ref_b64_encode(m, STD_ALPHA));
            emit("budec", ref_b64_encode(m, URL_ALPHA));
            // hex text of every length (odd ones drop the last digit)
            emit("hdec", rnd_upper_hex(r, len));
            if (len % 3 == 0) emit("hdec", rnd_any_hex(r, len, len % 2 ? 0 : 50));
            if (len % 5 == 0) emit("hdec", rnd_text(r, len));
            if (len <= 40 || len % 7 == 0)
            {
                // explicit int size: negative, zero, odd, a prefix of the mapped text; out mapped exactly or with spare room
                std::string t = len % 2 ? rnd_text(r, len) : rnd_any_hex(r, len, 50);
                int size = (int)r.range(-3, len);
                if (r.chance(30)) size = len;
                size_t cnt = size <= 1 ? 0 : (size_t)(size / 2);
                printf("hdecm %d %zu %s\n", size, cnt + (r.chance(30) ? (size_t)r.below(3) : 0), hex(t).c_str());
            }
        }
    // all upper-case hex texts of length <= 2, and length 3 (odd)
    emit("hdec", std::string());
    for (char a : HEXA)
    {
        emit("hdec", std::string{a});
        for (char b : HEXA)
        {
            emit("hdec", std::string{a, b});
            emit("hdec", std::string{a, b, a});
        }
    }
    // all texts of length <= 2 over hex digits of either case and a few other
    // characters, each also as a 3-character (odd) text
    {
        const std::string cs = HEXANY + std::string(":@G`g/ \n\x7f\x80\xff", 11) + std::string(1, '\0');
        for (char a : cs)
        {
            if (HEXA.find(a) == std::string::npos) emit("hdec", std::string{a});
            for (char b : cs)
                if (HEXA.find(a) == std::string::npos || HEXA.find(b) == std::string::npos)
                {
                    emit("hdec", std::string{a, b});
                    emit("hdec", std::string{a, b, b});
                }
        }
        for (int size = -4; size <= 6; size++)
            for (size_t extra = 0; extra < 2; extra++)
            {
                size_t cnt = size <= 1 ? 0 : (size_t)(size / 2);
                printf("hdecm %d %zu %s\n", size, cnt + extra, hex(std::string("aBc9Ef").substr(0, size < 0 ? 0 : (size_t)size)).c_str());
                printf("hdecm %d %zu %s\n", size, cnt + extra, hex(std::string("aBc9Ef")).c_str());
            }
    }
    // (5) decoders on everything else they may meet: all texts of length <= 4
    // over a reduced character set, truncated and damaged encodings
    const char dal[8] = {'A', '/', '+', '=', '-', '_', '9', 'z'};
    for (int len = 0; len <= (th ? 5 : 4); len++)
    {
        int total = 1;
        for (int i = 0; i < len; i++) total *= 8;
        for (int code = 0; code < total; code++)
        {
            std::string t;
            for (int i = 0, c = code; i < len; i++, c /= 8) t.push_back(dal[c % 8]);
            emit("bdec", t);
            emit("budec", t);
        }
    }
    static const std::vector<std::string> junk = {" ", "\n", "=", "==", "-", "_", "+", "/", std::string(1, '\0'), "\x80", "\xff", "@", "[", "`", "{", ":", "*"};
    for (int i = 0; i < (th ? 6000 : 600); i++)
    {
        bool url = r.chance(50);
        std::string t = ref_b64_encode(rnd_bytes(r, (size_t)r.range(0, 24)), url ? URL_ALPHA : STD_ALPHA);
        int how = (int)r.below(4);
        if (how == 0 && !t.empty()) t = t.substr(0, r.below(t.size() + 1));          // truncated
        else if (how == 1) t.insert(r.below(t.size() + 1), r.pick(junk));            // damaged
        else if (how == 2) t += r.pick(junk) + ref_b64_encode(rnd_bytes(r, 3), STD_ALPHA); // trailing data
        else { t.clear(); for (int k = (int)r.range(0, 12); k > 0; k--) t.push_back(STD_ALPHA[r.below(64)]); }
        emit(url ? "budec" : "bdec", t);
    }
    // malformed text by class: missing / excess padding, '=' in the middle,
    // embedded white space, bytes >= 0x80, every single character after "QUJD" / "QU"
    for (unsigned c = 0; c < 256; c++)
        for (const char *pre : {"", "Q", "QU", "QUJ", "QUJD"})
        {
            std::string t = std::string(pre) + std::string(1, (char)c) + "REVG";
            emit("bdec", t);
            emit("budec", t);
        }
    for (int i = 0; i < (th ? 4000 : 400); i++)
    {
        bool url = r.chance(50);
        const char *alpha = url ? URL_ALPHA : STD_ALPHA;
        std::string t = ref_b64_encode(rnd_bytes(r, (size_t)r.range(1, 20)), alpha);
        size_t core = t.find('=') == std::string::npos ? t.size() : t.find('=');
        switch (r.below(6))
        {
        case 0: t = t.substr(0, core); break;                                       // padding missing
        case 1: t += std::string((size_t)r.range(1, 3), '='); break;                // excess padding
        case 2: t.insert(r.below(core + 1), "="); break;                            // '=' in the middle
        case 3: t.insert(r.below(core + 1), r.chance(50) ? " " : "\r\n"); break;    // white space
        case 4: t[r.below(t.size())] = (char)(0x80 | r.below(128)); break;          // byte >= 0x80
        default: for (size_t k = 4; k < t.size(); k += 5) t.insert(k, "\n"); break; // line-wrapped
        }
        emit(url ? "budec" : "bdec", t);
    }
    gen_round3(r, th);
}

int main(int argc, char **argv)
{
    main_entered = true;
    return main_(argc, argv, gen, run_op);
}

// the LAST namespace-scope object of this translation unit (see premain_battery above)
premain_battery premain_results_g;
