/* C07: the compat libc shims, compiled under private names so that neither
 * glibc's own atol/atoi (which g++ inlines to strtol) nor a host itoa can be
 * picked up instead of the repo's code.  `isspace`/`isdigit` used by atol.c
 * are the host's <ctype.h> in the "C" locale (listed as modelled, not
 * verified, in checks/C07.json). */
#include <ctype.h>
#define atol igv_atol
#define atoi igv_atoi
#define itoa igv_itoa
#define utoa igv_utoa
#define ltoa igv_ltoa
#define ultoa igv_ultoa
#include <compat/libc/stdlib/atol.c>
#include <compat/libc/stdlib/itoa.c>
