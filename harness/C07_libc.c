/* C07: the compat libc shims, compiled under private names so that neither
 * glibc's own atol/atoi (which g++ inlines to strtol) nor a host itoa can be
 * picked up instead of the repo's code.  `isspace`/`isdigit` used by atol.c
 * are the host's <ctype.h> in the "C" locale (listed as modelled, not
 * verified, in checks/C07.json). */
#include <ctype.h>
#define atol igv_atol
#define atoi igv_atoi
#define itoa igv_itoa
#define utoa igv_utoa
#define ltoa igv_ltoa
#define ultoa igv_ultoa
#include <compat/libc/stdlib/atol.c>
#include <compat/libc/stdlib/itoa.c>

/* round 3: the debug_asmlink_* routines are declared in igris/dprint/dprint.h outside its
 * extern "C" block, so a C++ translation unit cannot link to them; reach them from C.
 * round 3b: they are self-test helpers the property does not name -> referenced weakly (own prototypes, the
 * header is not needed): if the library drops or renames them the shims return 0 and the harness prints the
 * text through the public fixed-width printers instead. */
#include <stdint.h>
#define WK __attribute__((weak))
void debug_asmlink_test(void) WK;
void debug_asmlink_args8x1(uint8_t) WK;
void debug_asmlink_args8x2(uint8_t, uint8_t) WK;
void debug_asmlink_args8x3(uint8_t, uint8_t, uint8_t) WK;
void debug_asmlink_args8x4(uint8_t, uint8_t, uint8_t, uint8_t) WK;
void debug_asmlink_args16x1(uint16_t) WK;
void debug_asmlink_args16x2(uint16_t, uint16_t) WK;
void debug_asmlink_args16x3(uint16_t, uint16_t, uint16_t) WK;
void debug_asmlink_args16x4(uint16_t, uint16_t, uint16_t, uint16_t) WK;
void debug_asmlink_args32x1(uint32_t) WK;
void debug_asmlink_args32x2(uint32_t, uint32_t) WK;
void debug_asmlink_args32x3(uint32_t, uint32_t, uint32_t) WK;
void debug_asmlink_args32x4(uint32_t, uint32_t, uint32_t, uint32_t) WK;
uint8_t debug_asmlink_ret8(void) WK;
uint16_t debug_asmlink_ret16(void) WK;
uint32_t debug_asmlink_ret32(void) WK;
uint64_t debug_asmlink_ret64(void) WK;
#define CALL(f, ...) do { if (!f) return 0; f(__VA_ARGS__); return 1; } while (0)
int c07_asmlink_args(int w, int n, const uint64_t *v)
{
    if (w == 8)
    {
        if (n == 1) CALL(debug_asmlink_args8x1, (uint8_t)v[0]);
        else if (n == 2) CALL(debug_asmlink_args8x2, (uint8_t)v[0], (uint8_t)v[1]);
        else if (n == 3) CALL(debug_asmlink_args8x3, (uint8_t)v[0], (uint8_t)v[1], (uint8_t)v[2]);
        else CALL(debug_asmlink_args8x4, (uint8_t)v[0], (uint8_t)v[1], (uint8_t)v[2], (uint8_t)v[3]);
    }
    else if (w == 16)
    {
        if (n == 1) CALL(debug_asmlink_args16x1, (uint16_t)v[0]);
        else if (n == 2) CALL(debug_asmlink_args16x2, (uint16_t)v[0], (uint16_t)v[1]);
        else if (n == 3) CALL(debug_asmlink_args16x3, (uint16_t)v[0], (uint16_t)v[1], (uint16_t)v[2]);
        else CALL(debug_asmlink_args16x4, (uint16_t)v[0], (uint16_t)v[1], (uint16_t)v[2], (uint16_t)v[3]);
    }
    else
    {
        if (n == 1) CALL(debug_asmlink_args32x1, (uint32_t)v[0]);
        else if (n == 2) CALL(debug_asmlink_args32x2, (uint32_t)v[0], (uint32_t)v[1]);
        else if (n == 3) CALL(debug_asmlink_args32x3, (uint32_t)v[0], (uint32_t)v[1], (uint32_t)v[2]);
        else CALL(debug_asmlink_args32x4, (uint32_t)v[0], (uint32_t)v[1], (uint32_t)v[2], (uint32_t)v[3]);
    }
}
int c07_asmlink_ret(int w, uint64_t *out)
{
    if (w == 8) { if (!debug_asmlink_ret8) return 0; *out = debug_asmlink_ret8(); }
    else if (w == 16) { if (!debug_asmlink_ret16) return 0; *out = debug_asmlink_ret16(); }
    else if (w == 32) { if (!debug_asmlink_ret32) return 0; *out = debug_asmlink_ret32(); }
    else { if (!debug_asmlink_ret64) return 0; *out = debug_asmlink_ret64(); }
    return 1;
}
int c07_asmlink_test(void) { CALL(debug_asmlink_test); }
