// C02, compat build: the translation unit sees compat/std/{vector,map,set}, i.e.
// std::vector IS igris::vector and std::map / std::set are the flat_map /
// flat_set shims on top of it (what a freestanding igris target compiles).
// libstdc++'s own <vector> is kept out by pre-defining its include guard; no
// other libstdc++ container is used in this unit.
#define _GLIBCXX_VECTOR 1
#include <compat/std/vector>
#include <compat/std/map>
#include <compat/std/set>
#include "C02/flat_ops.h"

static_assert(std::is_same<std::vector<int>, igris::vector<int, std::allocator<int>>>::value, "compat/std/vector must alias igris::vector");

// comparators as in C02.cpp: less (default), greater, by last digit, greater on the decimal text
// round 3b: with the failing test allocator FA (flat_ops.h) handed through std::map / std::set -> flat_map / flat_set ->
// the storage igris::vector
using MA = FA<std::pair<int, Box>>;
using SA = FA<Box>;
static FlatOps<std::map<int, Box, std::less<int>, MA>, std::set<Box, std::less<Box>, SA>, Box, Box, int, false> g_ops0;
static FlatOps<std::map<int, Box, std::greater<int>, MA>, std::set<Box, std::greater<Box>, SA>, Box, Box, int, false> g_ops1;
static FlatOps<std::map<int, Box, ByLastDigit, MA>, std::set<Box, ByLastDigit, SA>, Box, Box, int, false> g_ops2;
static FlatOps<std::map<int, Box, TextGreater, MA>, std::set<Box, TextGreater, SA>, Box, Box, int, false> g_ops3;
static FlatBase *g_ops = &g_ops0;

std::string c02_compat(const std::string &line)
{
    if (line.compare(0, 12, "reset flat c") == 0)
    {
        std::string name = line.size() > 13 ? line.substr(13) : "";
        g_ops = name == "greater" ? (FlatBase *)&g_ops1 : name == "lastdigit" ? (FlatBase *)&g_ops2 : name == "sgreater" ? (FlatBase *)&g_ops3 : (FlatBase *)&g_ops0;
        return g_ops->step("reset");
    }
    return g_ops->step(line);
}
