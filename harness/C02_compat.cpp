// C02, compat build: the translation unit sees compat/std/{vector,map,set}, i.e.
// std::vector IS igris::vector and std::map / std::set are the flat_map /
// flat_set shims on top of it (what a freestanding igris target compiles).
// libstdc++'s own <vector> is kept out by pre-defining its include guard; no
// other libstdc++ container is used in this unit.
#define _GLIBCXX_VECTOR 1
#include <compat/std/vector>
#include <compat/std/map>
#include <compat/std/set>
#include "C02/flat_ops.h"

static_assert(std::is_same<std::vector<int>, igris::vector<int, std::allocator<int>>>::value, "compat/std/vector must alias igris::vector");

static FlatOps<std::map<int, Box>, std::set<Box>, Box, Box> g_ops;

std::string c02_compat(const std::string &line)
{
    return g_ops.step(line);
}
