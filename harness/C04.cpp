// C04 harness: gstuff encode/decode round trip (configurable codec with both
// alphabets + legacy C codec) against the Lean model IgrisModel/C04.
#include "gstuff/common.h"
#include "gstuff/sess.h"

static void check_frame(const std::string &codec, const bytes &p, const bytes &f, out &o)
{
    alphabet a = alpha_by(codec);
    if (f.size() < 2 || f.front() != a.start || f.back() != a.stop)
        return o.fail("frame does not start/end with the markers");
    if (f.size() > 2 * p.size() + 4)
        o.fail("frame longer than 2n+4");
    if (f.size() == 2 * p.size() + 4) o.tag("worst-case-2n+4");
    bytes body(f.begin() + 1, f.end() - 1);
    for (uint8_t b : body)
        if (b == a.start || b == a.stop)
            return o.fail("unescaped marker inside the frame");
    bytes un;
    if (!ref_unescape(a, body, un))
        return o.fail("frame body has an invalid escape");
    bytes want = p;
    want.push_back(ref_crc8(p));
    if (un != want)
        o.fail("unescaped frame body != payload ++ crc8(payload)");
    uint8_t crc = ref_crc8(p);
    if (crc == a.start || crc == a.stop || crc == a.stub) o.tag("crc-is-marker");
    for (uint8_t b : p)
        if (b == a.start || b == a.stop || b == a.stub) { o.tag("payload-has-marker"); break; }
}

static void run_op(const std::vector<std::string> &w, const std::string &, out &o)
{
    const std::string &op = w[0];
    if (op == "reset") { o.result = "ok"; return; }
    if (op == "seq") return run_seq(w, o);
    if (op == "sizes") return run_sizes(o);
    if (op == "premain") { run_premain(o); return; }
    if (op == "long") return run_long(w, o);
    if (op == "ctx")
    {
        alphabet a = alpha_of(gstuff_context()), b = alpha_of(gstuff_context_v0());
        uint8_t k[4];
        leg_constants(k);
        o.result = hex((uint8_t *)&a, 6) + " " + hex((uint8_t *)&b, 6) + " " + hex(k, 4);
        return;
    }
    const std::string &codec = w[1];
    if (op == "enc" || op == "encvec")
    {
        std::vector<bytes> pieces;
        for (size_t i = 2; i < w.size(); i++) pieces.push_back(unhex(w[i]));
        bytes p;
        for (auto &x : pieces) p.insert(p.end(), x.begin(), x.end());
        if (pieces.size() > 1) o.tag("iovec");
        bytes f;
        if (op == "enc")
            f = enc_pieces(codec, pieces, 2 * p.size() + 4);
        else
        {
            gstuff_context ctx;
            codec_ctx(codec, ctx);
            std::vector<exact_buf *> bufs;
            std::vector<iovec> vec;
            for (auto &x : pieces)
            {
                bufs.push_back(new exact_buf(x));
                vec.push_back(iovec{bufs.back()->p, x.size()});
            }
            f = gstuffing_v(vec.data(), vec.size(), ctx);
            if (pieces.size() == 1)
            {
                bytes g = gstuffing(igris::buffer((char *)bufs[0]->p, pieces[0].size()), ctx);
                if (g != f) o.fail("gstuffing(buffer) != gstuffing_v(vec)");
            }
            for (auto b : bufs) delete b;
            o.tag("self-sized");
        }
        o.result = hex(f);
        check_frame(codec, p, f, o);
        return;
    }
    if (op == "vecbuf")
    {
        // The self-sizing overloads.  Round 3b (CORRECTION, benign change C04-b13-1): the property says "the frame
        // is at most 2n+4 bytes long" and "the encoders that size their own output buffer never write outside
        // it" - it does NOT say that the buffer has the worst-case size.  An overload that measures the frame
        // first and allocates exactly its length satisfies every clause.  So the capacity of the returned vector
        // is no longer part of the compared result (it is reported as a tag) and the oracle demands only:
        // capacity() >= size() = frame length, frame length <= 2n+4, every clause of the frame sentence, both
        // twins return the same frame - and no store outside the allocation, which is ASan's job on the real
        // vector (operator new block of exactly the requested size): the stream contains, for every self-sizing
        // overload, worst-case payloads (every byte needs escaping AND the CRC is a marker) at many lengths, so
        // an under-sized allocation (seeded 2n+2 / 2n+3) overflows under ASan.
        std::vector<bytes> pieces;
        for (size_t i = 2; i < w.size(); i++) pieces.push_back(unhex(w[i]));
        gstuff_context ctx;
        codec_ctx(codec, ctx);
        std::vector<exact_buf *> bufs;
        std::vector<iovec> vec;
        for (auto &x : pieces)
        {
            bufs.push_back(new exact_buf(x));
            vec.push_back(iovec{bufs.back()->p, x.size()});
        }
        bytes p;
        for (auto &x : pieces) p.insert(p.end(), x.begin(), x.end());
        size_t n = p.size();
        auto judge = [&](const std::vector<uint8_t> &f, const char *who) {
            if (f.capacity() < f.size()) o.fail(std::string(who) + ": capacity() of the returned vector < its size()");
            if (f.size() > 2 * n + 4) o.fail(std::string(who) + ": frame longer than 2n+4");
            o.tag(f.capacity() == f.size() ? "alloc-exact" : f.capacity() == 2 * n + 4 ? "alloc-2n+4" : f.capacity() < 2 * n + 4 ? "alloc-between" : "alloc-more");
        };
        std::vector<uint8_t> f = gstuffing_v(vec.data(), vec.size(), ctx);
        judge(f, "gstuffing_v(vec)");
        if (pieces.size() == 1)
        {
            std::vector<uint8_t> g = gstuffing(igris::buffer((char *)bufs[0]->p, pieces[0].size()), ctx);
            judge(g, "gstuffing(buffer)");
            if (g != f) o.fail("gstuffing(buffer) != gstuffing_v(vec)");
            o.tag("both-twins");
        }
        else
            o.tag("iovec");
        o.result = std::to_string(f.size());
        check_frame(codec, p, f, o);
        for (auto b : bufs) delete b;
        o.tag("self-sized");
        return;
    }
    if (op == "rtraw")
    {
        // recorded finding C04-legacy-line-keeps-crc: what the legacy API hands over AS IT IS
        // (sline_getline / sline_size) judged against "content equals the payload"
        unsigned cap = (unsigned)strtoul(w[2].c_str(), 0, 10);
        bytes p = unhex(w[3]);
        bytes f = enc_pieces(codec, {p}, 2 * p.size() + 4);
        std::string sts;
        std::vector<bytes> packets, raw;
        leg_feed(f, cap, sts, packets, raw);
        trace t;
        t.sts = sts;
        t.packets = raw;
        o.result = t.show();
        if (raw.size() != 1 || raw[0] != p)
            o.fail("legacy API hands over payload ++ crc8 (sline_size = n + 1), not the payload");
        return;
    }
    if (op == "rt")
    {
        unsigned cap = (unsigned)strtoul(w[2].c_str(), 0, 10);
        bytes p = unhex(w[3]);
        bytes f = enc_pieces(codec, {p}, 2 * p.size() + 4);
        check_frame(codec, p, f, o);
        trace t = feed_stream(codec, cap, f);
        o.result = t.show();
        if (cap >= p.size() + 2)
        {
            // exactly one completed packet, on the last byte, equal to the payload
            std::string want(f.size() - 1, 'C');
            want += 'N';
            if (t.sts != want) o.fail("status sequence " + t.sts + " != C..CN");
            if (t.packets.size() != 1 || t.packets[0] != p) o.fail("delivered content != payload");
            if (cap == p.size() + 2) o.tag("exact-fit");
        }
        else
        {
            o.tag("too-small");
            // (C04 itself only speaks about buffers that are large enough; this is C05's overflow clause,
            // kept here because the stream contains such cases.)  The frame must be reported as overflow
            // and nothing of it may be delivered - by any receiver.  (Until `fix: legacy gstuff receiver
            // hunts for the start marker` the legacy receiver accumulated the rest of the frame after the
            // OVERFLOW and in 1 case of 256 completed a bogus short packet; that was defect
            // C05-legacy-no-hunt and is repaired, so `leg` is judged like the others.)
            size_t po = t.sts.find('O'), pn = t.sts.find('N');
            if (po == std::string::npos || pn != std::string::npos)
                o.fail("frame that does not fit was not reported as overflow / was delivered");
        }
        return;
    }
    o.result = "bad-op";
}

// the generator is a separate translation unit (harness/C04gen.cpp) since round 3b: compiled in parallel
void gen(rng &r, const std::string &tier);

int main(int argc, char **argv) { return main_(argc, argv, gen, run_op); }
