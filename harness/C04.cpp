// C04 harness: gstuff encode/decode round trip (configurable codec with both
// alphabets + legacy C codec) against the Lean model IgrisModel/C04.
#include "gstuff/common.h"
#include "gstuff/sess.h"

static void check_frame(const std::string &codec, const bytes &p, const bytes &f, out &o)
{
    alphabet a = alpha_by(codec);
    if (f.size() < 2 || f.front() != a.start || f.back() != a.stop)
        return o.fail("frame does not start/end with the markers");
    if (f.size() > 2 * p.size() + 4)
        o.fail("frame longer than 2n+4");
    if (f.size() == 2 * p.size() + 4) o.tag("worst-case-2n+4");
    bytes body(f.begin() + 1, f.end() - 1);
    for (uint8_t b : body)
        if (b == a.start || b == a.stop)
            return o.fail("unescaped marker inside the frame");
    bytes un;
    if (!ref_unescape(a, body, un))
        return o.fail("frame body has an invalid escape");
    bytes want = p;
    want.push_back(ref_crc8(p));
    if (un != want)
        o.fail("unescaped frame body != payload ++ crc8(payload)");
    uint8_t crc = ref_crc8(p);
    if (crc == a.start || crc == a.stop || crc == a.stub) o.tag("crc-is-marker");
    for (uint8_t b : p)
        if (b == a.start || b == a.stop || b == a.stub) { o.tag("payload-has-marker"); break; }
}

static void run_op(const std::vector<std::string> &w, const std::string &, out &o)
{
    const std::string &op = w[0];
    if (op == "reset") { o.result = "ok"; return; }
    if (op == "seq") return run_seq(w, o);
    if (op == "sizes") return run_sizes(o);
    if (op == "premain") { run_premain(o); return; }
    if (op == "long") return run_long(w, o);
    if (op == "ctx")
    {
        alphabet a = alpha_of(gstuff_context()), b = alpha_of(gstuff_context_v0());
        uint8_t k[4];
        leg_constants(k);
        o.result = hex((uint8_t *)&a, 6) + " " + hex((uint8_t *)&b, 6) + " " + hex(k, 4);
        return;
    }
    const std::string &codec = w[1];
    if (op == "enc" || op == "encvec")
    {
        std::vector<bytes> pieces;
        for (size_t i = 2; i < w.size(); i++) pieces.push_back(unhex(w[i]));
        bytes p;
        for (auto &x : pieces) p.insert(p.end(), x.begin(), x.end());
        if (pieces.size() > 1) o.tag("iovec");
        bytes f;
        if (op == "enc")
            f = enc_pieces(codec, pieces, 2 * p.size() + 4);
        else
        {
            gstuff_context ctx;
            codec_ctx(codec, ctx);
            std::vector<exact_buf *> bufs;
            std::vector<iovec> vec;
            for (auto &x : pieces)
            {
                bufs.push_back(new exact_buf(x));
                vec.push_back(iovec{bufs.back()->p, x.size()});
            }
            f = gstuffing_v(vec.data(), vec.size(), ctx);
            if (pieces.size() == 1)
            {
                bytes g = gstuffing(igris::buffer((char *)bufs[0]->p, pieces[0].size()), ctx);
                if (g != f) o.fail("gstuffing(buffer) != gstuffing_v(vec)");
            }
            for (auto b : bufs) delete b;
            o.tag("self-sized");
        }
        o.result = hex(f);
        check_frame(codec, p, f, o);
        return;
    }
    if (op == "vecbuf")
    {
        // The self-sizing overloads.  Round 3b (CORRECTION, benign change C04-b13-1): the property says "the frame
        // is at most 2n+4 bytes long" and "the encoders that size their own output buffer never write outside
        // it" - it does NOT say that the buffer has the worst-case size.  An overload that measures the frame
        // first and allocates exactly its length satisfies every clause.  So the capacity of the returned vector
        // is no longer part of the compared result (it is reported as a tag) and the oracle demands only:
        // capacity() >= size() = frame length, frame length <= 2n+4, every clause of the frame sentence, both
        // twins return the same frame - and no store outside the allocation, which is ASan's job on the real
        // vector (operator new block of exactly the requested size): the stream contains, for every self-sizing
        // overload, worst-case payloads (every byte needs escaping AND the CRC is a marker) at many lengths, so
        // an under-sized allocation (seeded 2n+2 / 2n+3) overflows under ASan.
        std::vector<bytes> pieces;
        for (size_t i = 2; i < w.size(); i++) pieces.push_back(unhex(w[i]));
        gstuff_context ctx;
        codec_ctx(codec, ctx);
        std::vector<exact_buf *> bufs;
        std::vector<iovec> vec;
        for (auto &x : pieces)
        {
            bufs.push_back(new exact_buf(x));
            vec.push_back(iovec{bufs.back()->p, x.size()});
        }
        bytes p;
        for (auto &x : pieces) p.insert(p.end(), x.begin(), x.end());
        size_t n = p.size();
        auto judge = [&](const std::vector<uint8_t> &f, const char *who) {
            if (f.capacity() < f.size()) o.fail(std::string(who) + ": capacity() of the returned vector < its size()");
            if (f.size() > 2 * n + 4) o.fail(std::string(who) + ": frame longer than 2n+4");
            o.tag(f.capacity() == f.size() ? "alloc-exact" : f.capacity() == 2 * n + 4 ? "alloc-2n+4" : f.capacity() < 2 * n + 4 ? "alloc-between" : "alloc-more");
        };
        std::vector<uint8_t> f = gstuffing_v(vec.data(), vec.size(), ctx);
        judge(f, "gstuffing_v(vec)");
        if (pieces.size() == 1)
        {
            std::vector<uint8_t> g = gstuffing(igris::buffer((char *)bufs[0]->p, pieces[0].size()), ctx);
            judge(g, "gstuffing(buffer)");
            if (g != f) o.fail("gstuffing(buffer) != gstuffing_v(vec)");
            o.tag("both-twins");
        }
        else
            o.tag("iovec");
        o.result = std::to_string(f.size());
        check_frame(codec, p, f, o);
        for (auto b : bufs) delete b;
        o.tag("self-sized");
        return;
    }
    if (op == "rtraw")
    {
        // recorded finding C04-legacy-line-keeps-crc: what the legacy API hands over AS IT IS
        // (sline_getline / sline_size) judged against "content equals the payload"
        unsigned cap = (unsigned)strtoul(w[2].c_str(), 0, 10);
        bytes p = unhex(w[3]);
        bytes f = enc_pieces(codec, {p}, 2 * p.size() + 4);
        std::string sts;
        std::vector<bytes> packets, raw;
        leg_feed(f, cap, sts, packets, raw);
        trace t;
        t.sts = sts;
        t.packets = raw;
        o.result = t.show();
        if (raw.size() != 1 || raw[0] != p)
            o.fail("legacy API hands over payload ++ crc8 (sline_size = n + 1), not the payload");
        return;
    }
    if (op == "rt")
    {
        unsigned cap = (unsigned)strtoul(w[2].c_str(), 0, 10);
        bytes p = unhex(w[3]);
        bytes f = enc_pieces(codec, {p}, 2 * p.size() + 4);
        check_frame(codec, p, f, o);
        trace t = feed_stream(codec, cap, f);
        o.result = t.show();
        if (cap >= p.size() + 2)
        {
            // exactly one completed packet, on the last byte, equal to the payload
            std::string want(f.size() - 1, 'C');
            want += 'N';
            if (t.sts != want) o.fail("status sequence " + t.sts + " != C..CN");
            if (t.packets.size() != 1 || t.packets[0] != p) o.fail("delivered content != payload");
            if (cap == p.size() + 2) o.tag("exact-fit");
        }
        else
        {
            o.tag("too-small");
            // (C04 itself only speaks about buffers that are large enough; this is C05's overflow clause,
            // kept here because the stream contains such cases.)  The frame must be reported as overflow
            // and nothing of it may be delivered - by any receiver.  (Until `fix: legacy gstuff receiver
            // hunts for the start marker` the legacy receiver accumulated the rest of the frame after the
            // OVERFLOW and in 1 case of 256 completed a bogus short packet; that was defect
            // C05-legacy-no-hunt and is repaired, so `leg` is judged like the others.)
            size_t po = t.sts.find('O'), pn = t.sts.find('N');
            if (po == std::string::npos || pn != std::string::npos)
                o.fail("frame that does not fit was not reported as overflow / was delivered");
        }
        return;
    }
    o.result = "bad-op";
}

// ------------------------------------------------------------------ gen
static const char *CODECS[3] = {"v1", "v0", "leg"};

static bytes rnd_payload(rng &r, const alphabet &a, size_t n)
{
    bytes p(n);
    int mode = (int)r.below(3);
    const uint8_t sp[] = {a.start, a.stop, a.stub, a.s_start, a.s_stop, a.s_stub, 0x00, 0xff, 0x41};
    for (auto &x : p)
        x = (mode == 0 || (mode == 1 && r.chance(40))) ? sp[r.below(sizeof sp)] : (uint8_t)r.next();
    return p;
}

// a well-formed custom alphabet (Ctx.WF of the model): escape byte and escape codes differ from the markers,
// the code of the escape byte differs from the other two codes, the codes of start and stop differ when the
// markers do.  start == stop alphabets are generated too.
static alphabet rnd_alphabet(rng &r)
{
    while (true)
    {
        alphabet a;
        a.start = (uint8_t)r.next();
        a.stop = r.chance(35) ? a.start : (uint8_t)r.next();
        a.stub = (uint8_t)r.next();
        a.s_start = (uint8_t)r.next();
        a.s_stop = (a.start == a.stop && r.chance(50)) ? a.s_start : (uint8_t)r.next();
        a.s_stub = (uint8_t)r.next();
        bool ok = a.stub != a.start && a.stub != a.stop && a.s_start != a.start && a.s_start != a.stop &&
                  a.s_stop != a.start && a.s_stop != a.stop && a.s_stub != a.start && a.s_stub != a.stop &&
                  a.s_stub != a.s_start && a.s_stub != a.s_stop && (a.start == a.stop || a.s_stop != a.s_start);
        if (ok) return a;
    }
}

// payload over the markers of EVERY alphabet of the session (a byte that is a marker in one alphabet must go
// out as it is under another one), plus 00 41
static bytes sess_payload(rng &r, const std::vector<alphabet> &as, size_t n)
{
    bytes pool = {0x00, 0x41};
    for (auto &a : as) { const uint8_t *q = (const uint8_t *)&a; pool.insert(pool.end(), q, q + 6); }
    bytes p(n);
    for (auto &x : p) x = r.chance(85) ? pool[r.below(pool.size())] : (uint8_t)r.next();
    return p;
}
// a WORST-CASE payload of length n: every byte is a marker (needs escaping) and the CRC-8 is a marker too, so
// the frame has exactly 2n+4 bytes.  Random search (3 of 256 CRC values qualify); empty result = none found
// (e.g. n < 5 for the default alphabet, n < 4 for v0)
static bytes worst_payload(rng &r, const alphabet &a, size_t n)
{
    const uint8_t mk[3] = {a.start, a.stop, a.stub};
    bytes p(n);
    for (int tries = 0; tries < 4000 && n > 0; tries++)
    {
        for (auto &x : p) x = mk[r.below(3)];
        uint8_t crc = ref_crc8(p);
        if (crc == a.start || crc == a.stop || crc == a.stub) return p;
    }
    return bytes();
}
static std::string pieces_tok(rng &r, const bytes &p)
{
    int k = (int)r.range(1, 3);
    std::vector<size_t> cuts;
    for (int i = 0; i < k - 1; i++) cuts.push_back(r.below(p.size() + 1));
    std::sort(cuts.begin(), cuts.end());
    cuts.push_back(p.size());
    std::string s;
    size_t prev = 0;
    for (size_t i = 0; i < cuts.size(); i++)
    {
        s += (i ? "/" : "") + hex(bytes(p.begin() + prev, p.begin() + cuts[i]));
        prev = cuts[i];
    }
    return s;
}

// SESSIONS (seeded change C04-escape-table-cached-by-ctx-address): the encoder is called again and again with
// the SAME gstuff_context object whose contents changed in between (v1 -> v0 -> custom -> back ...), into the
// same output buffer; each frame is decoded by the one receiver object re-constructed from the context as it
// is at that moment
static void gen_sessions(rng &r, bool th)
{
    alphabet v1 = alpha_of(gstuff_context()), v0 = alpha_of(gstuff_context_v0());
    for (int rep = 0; rep < (th ? 1500 : 160); rep++)
    {
        std::vector<alphabet> as;
        int na = (int)r.range(2, 6);
        if (rep % 4 == 0) as = {v1, v0, rnd_alphabet(r), v1, v0};            // the order of the task
        else if (rep % 4 == 1) as = {v0, v1, v0, v1};
        else
            for (int i = 0; i < na; i++) as.push_back(r.chance(30) ? v1 : r.chance(40) ? v0 : rnd_alphabet(r));
        size_t maxn = rep % 7 == 0 ? 120 : 12;
        size_t outcap = 2 * maxn + 4, blkcap = maxn + 8;
        std::string line = "seq " + std::to_string(outcap) + " " + std::to_string(blkcap);
        bool first = true;
        for (auto &a : as)
        {
            // the first alphabet of a session may be the default-constructed one: no mutation at all
            if (!(first && same_alpha(a, v1) && r.chance(70))) line += " A" + alpha_hex(a);
            first = false;
            int ne = (int)r.range(1, 2);
            for (int e = 0; e < ne; e++)
            {
                bytes p = sess_payload(r, as, r.below(maxn + 1));
                int kind = (int)r.below(10);
                line += (kind < 7 ? " E" : " V") + pieces_tok(r, p);
                if (r.chance(75))
                {
                    size_t cap = p.size() + 2 + r.below(4);
                    if (r.chance(8) && p.size() > 0) cap = 1 + r.below(p.size() + 1);
                    line += r.chance(70) ? " N" : "";
                    line += (r.chance(50) ? " I" : " S") + std::to_string(std::min(cap, blkcap)) + " F";
                    if (r.chance(25)) line += " F";          // the same frame once more, no init in between
                    if (r.chance(10)) line += " R F";
                }
            }
            if (r.chance(15))
            {
                bytes p = sess_payload(r, as, r.below(maxn + 1));
                line += " G" + hex(p) + " ls" + std::to_string(std::min(p.size() + 2 + r.below(3), blkcap)) + " lf";
                if (r.chance(30)) line += " lf";
            }
        }
        puts(line.c_str());
    }
}

static void gen(rng &r, const std::string &tier)
{
    bool th = tier == "thorough";
    puts("ctx");
    puts("sizes");
    puts("premain");
    gen_sessions(r, th);
    // >= 300 KiB payloads, once per codec: all markers, all escape bytes, mixed
    {
        const char *cs[3] = {"v1", "v0", "leg"}, *ks[3] = {"mark", "esc", "mix"};
        for (auto c : cs)
            for (auto k : ks)
                printf("long %s %s %d %d\n", c, k, ((th || k != ks[2]) ? 307200 : 100000) + (int)r.below(64), (int)r.below(1000000));
        for (auto c : cs)
            for (int n : {0, 1, 2, 255, 256, 257, 65535, 65536, 65537})
                printf("long %s %s %d %d\n", c, ks[n % 3], n, (int)r.below(1000000));
    }
    for (int ci = 0; ci < 3; ci++)
    {
        const char *codec = CODECS[ci];
        // the alphabets are compile-time constants of the repo; the generator
        // reads them from the same headers as the harness
        alphabet a = alpha_by(codec);
        // (1) exhaustive payloads over {START, STOP, STUB, 00, 41}
        const uint8_t al[5] = {a.start, a.stop, a.stub, 0x00, 0x41};
        int maxlen = th ? 6 : 5;
        for (int len = 0; len <= maxlen; len++)
        {
            int total = 1;
            for (int i = 0; i < len; i++) total *= 5;
            for (int code = 0; code < total; code++)
            {
                bytes p;
                for (int i = 0, c = code; i < len; i++, c /= 5) p.push_back(al[c % 5]);
                printf("rt %s %d %s\n", codec, len + 2 + (int)(code % 3), hex(p).c_str());
                if (ci < 2 && (th || len <= 3))
                    printf("encvec %s %s\n", codec, hex(p).c_str());
            }
        }
        // (1b) worst-case frames: every payload byte needs escaping AND the CRC
        // needs escaping (frame length exactly 2n+4): all such payloads up to length 7 (thorough 9)
        {
            const uint8_t mk[3] = {a.start, a.stop, a.stub};
            for (int len = 1; len <= (th ? 9 : 7); len++)
            {
                int total = 1;
                for (int i = 0; i < len; i++) total *= 3;
                for (int code = 0; code < total; code++)
                {
                    bytes p;
                    for (int i = 0, c = code; i < len; i++, c /= 3) p.push_back(mk[c % 3]);
                    uint8_t crc = ref_crc8(p);
                    if (crc != a.start && crc != a.stop && crc != a.stub) continue;
                    printf("rt %s %d %s\n", codec, len + 2, hex(p).c_str());
                    if (ci < 2) printf("encvec %s %s\n", codec, hex(p).c_str());
                }
            }
        }
        // (2) payloads whose CRC is each marker / escape code
        const uint8_t targets[] = {a.start, a.stop, a.stub, a.s_start, a.s_stub, 0x00, 0xff};
        for (int rep = 0; rep < (th ? 40 : 6); rep++)
            for (uint8_t t : targets)
            {
                bytes p = rnd_payload(r, a, r.below(12));
                p.push_back(0);
                for (int x = 0; x < 256; x++)
                {
                    p.back() = (uint8_t)x;
                    if (ref_crc8(p) == t) break;
                }
                printf("rt %s %d %s\n", codec, (int)p.size() + 2 + (int)r.below(3), hex(p).c_str());
                if (ci < 2) printf("encvec %s %s\n", codec, hex(p).c_str());
            }
        // (3) random payloads 0..600, random iovec partitions
        for (int rep = 0; rep < (th ? 1500 : 150); rep++)
        {
            size_t n = r.chance(70) ? r.below(40) : r.below(601);
            bytes p = rnd_payload(r, a, n);
            printf("rt %s %d %s\n", codec, (int)n + 2 + (int)r.below(5), hex(p).c_str());
            if (ci < 2)
            {
                // split into 1..5 pieces, empty pieces allowed
                int k = (int)r.range(1, 5);
                std::vector<size_t> cuts;
                for (int i = 0; i < k - 1; i++) cuts.push_back(r.below(n + 1));
                std::sort(cuts.begin(), cuts.end());
                std::string line1 = std::string("enc ") + codec, line2 = std::string("encvec ") + codec;
                size_t prev = 0;
                cuts.push_back(n);
                for (size_t c : cuts)
                {
                    std::string h = hex(bytes(p.begin() + prev, p.begin() + c));
                    line1 += " " + h;
                    line2 += " " + h;
                    prev = c;
                }
                puts(line1.c_str());
                puts(line2.c_str());
            }
            else
                printf("enc leg %s\n", hex(p).c_str());
        }
        // (3b) size of the self-allocated buffer
        if (ci < 2)
            for (int rep = 0; rep < (th ? 200 : 30); rep++)
            {
                size_t n = rep < 8 ? (size_t)rep : r.below(300);
                bytes p = rnd_payload(r, a, n);
                size_t cut = r.below(n + 1);
                if (rep % 2) printf("vecbuf %s %s\n", codec, hex(p).c_str());
                else printf("vecbuf %s %s %s\n", codec, hex(bytes(p.begin(), p.begin() + cut)).c_str(), hex(bytes(p.begin() + cut, p.end())).c_str());
            }
        // (3c) round 3b: WORST-CASE payloads (frame = exactly 2n+4 bytes) through EVERY self-sizing overload at
        // many lengths: one piece (gstuffing_v(vec) and gstuffing(buffer)) and split into 2..3 pieces (gstuffing_v
        // only).  The oracle no longer demands a 2n+4 allocation; an allocation that is too SMALL shows here as
        // an ASan heap-buffer-overflow on the real vector.
        if (ci < 2)
        {
            std::vector<size_t> lens = {5, 6, 7, 8, 9, 15, 16, 17, 31, 32, 33, 63, 64, 65, 100, 127, 128, 255, 256, 257, 600, 1000};
            if (th) for (size_t n : {1023, 1024, 4095, 4096, 4097, 20000, 65535, 65536}) lens.push_back(n);
            for (int rep = 0; rep < (th ? 4 : 1); rep++)
                for (size_t n : lens)
                {
                    bytes p = worst_payload(r, a, n);
                    if (p.empty()) continue;
                    printf("vecbuf %s %s\n", codec, hex(p).c_str());
                    size_t c1 = r.below(n + 1), c2 = c1 + r.below(n - c1 + 1);
                    printf("vecbuf %s %s %s %s\n", codec, hex(bytes(p.begin(), p.begin() + c1)).c_str(),
                           hex(bytes(p.begin() + c1, p.begin() + c2)).c_str(), hex(bytes(p.begin() + c2, p.end())).c_str());
                }
        }
        // (4) receive buffers that are too small: must report overflow
        for (int rep = 0; rep < (th ? 300 : 40); rep++)
        {
            size_t n = 1 + r.below(30);
            bytes p = rnd_payload(r, a, n);
            printf("rt %s %d %s\n", codec, (int)r.range(2, (int)n + 1), hex(p).c_str());
        }
    }
    // (5) recorded finding C04-legacy-line-keeps-crc: the legacy receiver leaves the CRC byte in
    // the line it hands over
    {
        alphabet a = alpha_leg();
        for (int rep = 0; rep < 12; rep++)
        {
            bytes p = rnd_payload(r, a, rep < 3 ? (size_t)rep : r.below(20));
            printf("@F:C04-legacy-line-keeps-crc rtraw leg %d %s\n", (int)p.size() + 2 + (int)r.below(3), hex(p).c_str());
        }
    }
}

int main(int argc, char **argv) { return main_(argc, argv, gen, run_op); }
