// C11 harness, generator side (ops only; nothing of the library is called here)
// the generator only prints ops: optimising it buys nothing and costs half of its compile time
#pragma GCC optimize("O0")
#include "C11_common.h"

// ------------------------------------------------------------ gen
static std::string render(u128 v, int base, int cs, rng &r)
{
    // cs: 0 lower, 1 upper, 2 mixed
    std::string s;
    do
    {
        int d = (int)(v % base);
        char c = d < 10 ? '0' + d : ((cs == 0 || (cs == 2 && r.chance(50))) ? 'a' : 'A') + d - 10;
        s.insert(s.begin(), c);
        v /= base;
    } while (v);
    return s;
}
static const std::vector<std::string> SPACES = {"", "", "", " ", "\t", "\n", "\v", "\f", "\r", "  \t\n\v\f\r "};
static const std::vector<std::string> SIGNS = {"", "+", "-"};

static void st(const char *fn, int base, const std::string &text)
{
    // a C string: stop at an embedded NUL so that all sides see the same text
    std::string t = text.substr(0, text.find('\0'));
    printf("st %s %d %s\n", fn, base, hex(t).c_str());
}
static const char *FNS[8] = {"l", "ul", "ll", "ull", "imax", "umax", "q", "uq"};
static const int BASES[36] = {0, 2, 3, 4, 5, 6, 7, 8, 9, 10, 11, 12, 13, 14, 15, 16, 17, 18, 19, 20, 21, 22, 23, 24, 25, 26, 27, 28, 29, 30, 31, 32, 33, 34, 35, 36};

static std::string tail_for(int eb, rng &r)
{
    // something that must stop the digit run in base eb
    switch (r.below(8))
    {
    case 0: return "";
    case 1: return " ";
    case 2: return std::string(1, eb < 10 ? '0' + eb : eb < 36 ? 'a' + eb - 10 : '{');  // first non-digit of the base
    case 3: return std::string(1, eb < 10 ? '0' + eb : eb < 36 ? 'A' + eb - 10 : '[');
    case 4: return "-1";
    case 5: return ".5";
    case 6: return std::string(1, (char)r.pick(std::vector<int>{'/', ':', '@', '[', '`', '{', 0x80, 0xb0, 0xff, 'x', '_'}));
    default: return "+";
    }
}

static void gen_strto(rng &r, bool th)
{
    const u128 SMAX = (u128)INT64_MAX, UMAX = (u128)UINT64_MAX;
    // (1) overflow boundaries of every function in every base
    for (int f = 0; f < 8; f++)
        for (int bi = 0; bi < 36; bi++)
        {
            int base = BASES[bi];
            std::vector<u128> mags = {0, 1, SMAX - 1, SMAX, SMAX + 1, SMAX + 2, UMAX - 1, UMAX, UMAX + 1, UMAX + 2,
                                      SMAX + 1 + r.below(1000), UMAX - r.below(1000), UMAX + 1 + r.below(1000), (u128)r.next(),
                                      (u128)r.next() >> r.below(64), ((u128)r.next() << 32) ^ r.next(), (UMAX + 1) * 2, (UMAX + 1) * (u128)(base ? base : 10) + r.below(50)};
            for (u128 m : mags)
            {
                // neighbours obtained by changing the last digit: max±1 in the last place
                for (int rep = 0; rep < (th ? 3 : 1); rep++)
                {
                    int eb = base; // effective base of the rendering
                    std::string pre;
                    if (base == 0)
                    {
                        int k = (int)r.below(3);
                        eb = k == 0 ? 10 : k == 1 ? 8 : 16;
                        pre = k == 1 ? "0" : k == 2 ? (r.chance(50) ? "0x" : "0X") : "";
                    }
                    else if (base == 16 && r.chance(50))
                        pre = r.chance(50) ? "0x" : "0X";
                    std::string digits = render(m, eb, (int)r.below(3), r);
                    if (r.chance(25)) digits = std::string(1 + r.below(3), '0') + digits;
                    for (const std::string &sg : SIGNS)
                    {
                        if (!th && sg == "+" && r.chance(60)) continue;
                        st(FNS[f], base, r.pick(SPACES) + sg + pre + digits + tail_for(eb, r));
                    }
                }
            }
            // (2) 70-digit runs
            int eb = base == 0 ? 10 : base;
            std::string run;
            for (int i = 0; i < 70; i++) run += render(r.below(eb), eb, 2, r);
            st(FNS[f], base, r.pick(SIGNS) + run + tail_for(eb, r));
            st(FNS[f], base, r.pick(SIGNS) + std::string(70, render(eb - 1, eb, 0, r)[0]));
            st(FNS[f], base, r.pick(SIGNS) + "1" + std::string(69 + r.below(4), '0') + tail_for(eb, r));
            st(FNS[f], base, r.pick(SPACES) + r.pick(SIGNS) + std::string(80, '0') + "1");
            // (3) an invalid character at every position of a valid text
            {
                std::string pre = (base == 16 || base == 0) && r.chance(60) ? "0x" : "";
                int e2 = pre.empty() ? eb : 16;
                std::string v = r.pick(SPACES) + r.pick(SIGNS) + pre;
                int nd = (int)r.range(1, 6);
                for (int i = 0; i < nd; i++) v += render(r.below(e2), e2, 2, r);
                static const std::vector<int> inv = {' ', '-', '+', '/', ':', '@', 'G', 'g', '[', '`', '{', 'x', 'X', '0', 0x80, 0xb1, 0xff, '\t', '.', ',', '_', 'z', 'Z', 1};
                for (size_t pos = 0; pos <= v.size(); pos++)
                    for (int k = 0; k < (th ? 6 : 2); k++)
                    {
                        std::string t = v;
                        t.insert(t.begin() + pos, (char)r.pick(inv));
                        st(FNS[f], base, t);
                    }
            }
        }
    // (3b) ordinary numbers of every magnitude (0..70 bits) with random dress
    for (int f = 0; f < 6; f++)
        for (int bi = 0; bi < 36; bi++)
            for (int k = 0; k < (th ? 100 : 24); k++)
            {
                int base = BASES[bi], eb = base;
                std::string pre;
                if (base == 0)
                {
                    int q = (int)r.below(3);
                    eb = q == 0 ? 10 : q == 1 ? 8 : 16;
                    pre = q == 1 ? "0" : q == 2 ? (r.chance(50) ? "0x" : "0X") : "";
                }
                else if (base == 16 && r.chance(60))
                    pre = r.chance(50) ? "0x" : "0X";
                unsigned bits = (unsigned)r.below(71);
                u128 m = (((u128)r.next() << 64) | r.next());
                m = bits == 0 ? 0 : m >> (128 - bits);
                if (eb == 10 && base == 0 && m == 0) pre = ""; // "0" alone is octal zero, still fine
                st(FNS[f], base, r.pick(SPACES) + r.pick(SIGNS) + pre + render(m, eb, (int)r.below(3), r) + tail_for(eb, r));
            }
    // (4) every byte value against every base's alphabet: alone and inside a number
    for (int bi = 0; bi < 36; bi++)
        for (int c = 1; c < 256; c++)
        {
            int f = (bi + c) % 6;
            st(FNS[f], BASES[bi], std::string(1, (char)c));
            st(FNS[(f + 1) % 6], BASES[bi], std::string("1") + (char)c + "1");
            if (th || c < 128)
                st(FNS[(f + 2) % 6], BASES[bi], std::string("-") + (char)c);
        }
    // (5) all strings up to length 3/4 over a small alphabet, in the bases with prefix logic
    {
        static const char al[] = {' ', '-', '+', '0', '1', '9', 'x', 'X', 'f', 'g', 'z'};
        const int A = sizeof al;
        for (int len = 0; len <= 4; len++)
        {
            int total = 1;
            for (int i = 0; i < len; i++) total *= A;
            for (int code = 0; code < total; code++)
            {
                std::string t;
                for (int i = 0, c = code; i < len; i++, c /= A) t += al[c % A];
                static const int bs[4] = {0, 16, 10, 8};
                for (int k = 0; k < 4; k++)
                {
                    if (len <= 3 || th)
                        for (int f = 0; f < 6; f++) st(FNS[f], bs[k], t);
                    else if (k < 2)
                        st(FNS[(code + k) % 6], bs[k], t);
                }
            }
        }
    }
    // (5b) all strings over the critical alphabet " \t-+0xX19aAzZ8g":
    //   length <= 3: every entry point (8) x bases {0, 16} + one of {10, 36, 8, 2, 11, 35} in rotation
    //   length 4: every string once per base {0, 16}, entry point in rotation (thorough: every entry point)
    //   length 5: a random sample (thorough: a 15x larger one)
    {
        static const char al[] = {' ', '\t', '-', '+', '0', 'x', 'X', '1', '9', 'a', 'A', 'z', 'Z', '8', 'g'};
        const int A = sizeof al;
        static const int other[6] = {10, 36, 8, 2, 11, 35};
        unsigned rot = 0;
        for (int len = 0; len <= 4; len++)
        {
            int total = 1;
            for (int i = 0; i < len; i++) total *= A;
            for (int code = 0; code < total; code++)
            {
                std::string t;
                for (int i = 0, c = code; i < len; i++, c /= A) t += al[c % A];
                if (len <= 3)
                    for (int f = 0; f < 8; f++)
                    {
                        st(FNS[f], 0, t);
                        st(FNS[f], 16, t);
                        st(FNS[f], other[rot++ % 6], t);
                    }
                else if (th)
                    for (int f = 0; f < 8; f++) st(FNS[f], (code + f) % 2 ? 0 : 16, t);
                else
                {
                    st(FNS[rot % 8], 0, t);
                    st(FNS[(rot + 3) % 8], 16, t);
                    rot++;
                }
            }
        }
        for (int k = 0; k < (th ? 300000 : 20000); k++)
        {
            std::string t;
            for (int i = 0; i < 5; i++) t += al[r.below(A)];
            st(FNS[r.below(8)], r.chance(70) ? (r.chance(50) ? 0 : 16) : BASES[r.below(36)], t);
        }
    }
    // (6) hand-picked
    static const std::vector<std::string> pick = {"", " ", "-", "+", "0x", "0X", "0xg", "0xG", "-0x", "-0xz", "+0x", "0x-1", "0x+1", "0x 1", "- 1", "+-1", "-+1", "--1",
                                                  "0", "00", "08", "09", "0b1", "0x0x1", "0x0", "0x00x", " \t\n\v\f\r1", "\x1c" "1", "\x85" "1", "\xa0" "1",
                                                  "9223372036854775807", "9223372036854775808", "-9223372036854775808", "-9223372036854775809",
                                                  "18446744073709551615", "18446744073709551616", "-18446744073709551615", "-18446744073709551616", "-1",
                                                  "0x7fffffffffffffff", "0x8000000000000000", "-0x8000000000000000", "-0x8000000000000001", "0xffffffffffffffff", "0x10000000000000000",
                                                  "0777777777777777777777", "01000000000000000000000", "-01000000000000000000000", "01777777777777777777777", "02000000000000000000000",
                                                  "1x", "1X", "0x1x", "x1", "0xx", "00x1", "0 x1", "zz", "ZZ", "Zz", "-zz", "1z", "z1"};
    for (int f = 0; f < 8; f++)
        for (auto &t : pick)
            for (int base : {0, 16, 10, 8, 2, 36, 35, 11})
                st(FNS[f], base, t);
    // (7) atol / atoi: decimal texts whose value fits in long (beyond that ISO leaves the behaviour undefined)
    {
        std::vector<std::string> ts = {"", "0", "-0", "+0", "1", "-1", "+1", " 42", "\t\n-42x", "2147483647", "-2147483648", "2147483648", "-2147483649", "4294967295", "4294967296",
                                       "9223372036854775807", "-9223372036854775807", "-9223372036854775808", "0009223372036854775807", "-0009223372036854775808", "12a", "a12", "- 1", "+-1", "0x10", "010", "1 2", "1e3", "٣",
                                       "922337203685477580", "-922337203685477580", "9223372036854775800", "-9223372036854775800"};
        for (int i = 0; i < (th ? 4000 : 600); i++)
        {
            u128 m = r.chance(30) ? r.below(100000) : r.chance(50) ? (u128)INT64_MAX - r.below(50) : (u128)(r.next() >> (1 + r.below(63)));
            std::string sg = r.pick(SIGNS);
            std::string d = render(m, 10, 0, r);
            if (r.chance(20)) d = std::string(1 + r.below(4), '0') + d;
            ts.push_back(r.pick(SPACES) + sg + d + tail_for(10, r));
        }
        for (int i = 0; i < 40; i++)
        {
            int64_t x = r.chance(50) ? INT_MAX : INT_MIN;
            ts.push_back(std::to_string(x + r.range(-3, 3)));
        }
        for (auto &t : ts)
        {
            std::string tt = t.substr(0, t.find('\0'));
            printf("at l %s\nat i %s\n", hex(tt).c_str(), hex(tt).c_str());
        }
        for (int c = 1; c < 256; c++)
        {
            std::string t = std::string(1, (char)c) + "7";
            printf("at l %s\nat i %s\n", hex(t).c_str(), hex(std::string("5") + t).c_str());
        }
        // atoll = strtoll(s, 0, 10): defined for every text (clamps), so the overflowing ones too
        for (auto &t : ts)
        {
            std::string tt = t.substr(0, t.find('\0'));
            printf("at ll %s\n", hex(tt).c_str());
        }
        for (const char *t : {"9223372036854775808", "-9223372036854775809", "99999999999999999999", "-99999999999999999999", " +9223372036854775807x", "18446744073709551616"})
            printf("at ll %s\n", hex(std::string(t)).c_str());
        // every string of length <= 4 over " \t-+019a" (white space, signs, digits, a stopper): all representable
        {
            static const char al[] = {' ', '\t', '-', '+', '0', '1', '9', 'a'};
            const int A = sizeof al;
            for (int len = 0; len <= 4; len++)
            {
                int total = 1;
                for (int i = 0; i < len; i++) total *= A;
                for (int code = 0; code < total; code++)
                {
                    std::string t;
                    for (int i = 0, c = code; i < len; i++, c /= A) t += al[c % A];
                    printf("at %s %s\n", code % 3 == 0 ? "l" : code % 3 == 1 ? "i" : "ll", hex(t).c_str());
                    if (len <= 3) printf("at l %s\nat i %s\n", hex(t).c_str(), hex(t).c_str());
                }
            }
        }
        // atoi beyond int, inside long (truncation) with white space and signs
        for (int i = 0; i < (th ? 400 : 60); i++)
        {
            u128 m = (u128)INT_MAX + 1 + (r.chance(50) ? r.below(5) : (r.next() >> (1 + r.below(32))));
            if (m > (u128)INT64_MAX) m = (u128)INT64_MAX;
            printf("at i %s\n", hex(r.pick(SPACES) + r.pick(SIGNS) + render(m, 10, 0, r) + tail_for(10, r)).c_str());
        }
    }
}

static std::string join(const std::vector<int> &v)
{
    if (v.empty()) return "-";
    std::string s;
    for (size_t i = 0; i < v.size(); i++) s += (i ? "," : "") + std::to_string(v[i]);
    return s;
}
static unsigned esz(rng &r)
{
    static const std::vector<unsigned> fav = {1, 2, 3, 4, 7, 8, 12, 16, 31, 32, 33, 64};
    return r.chance(50) ? r.pick(fav) : (unsigned)r.range(1, 32);
}

static void gen_qsort(rng &r, bool th)
{
    // (1) every array over {0,1,2} up to length 6 (7 in thorough), two pivot streams
    for (int len = 0; len <= (th ? 8 : 7); len++)
    {
        int total = 1;
        for (int i = 0; i < len; i++) total *= 3;
        for (int code = 0; code < total; code++)
        {
            std::vector<int> v;
            for (int i = 0, c = code; i < len; i++, c /= 3) v.push_back(c % 3);
            printf("qs %u 0 %u %s\n", 1 + (unsigned)(code % 32), (unsigned)code, join(v).c_str());
            if (len <= 6) printf("qs %u %d %u %s\n", esz(r), 1 + code % 4, (unsigned)r.next(), join(v).c_str());
        }
    }
    // (2) every permutation of 0..n-1, n <= 6 (7 thorough)
    for (int n = 1; n <= (th ? 7 : 6); n++)
    {
        std::vector<int> v(n);
        for (int i = 0; i < n; i++) v[i] = i;
        do
            printf("qs %u %d %u %s\n", esz(r), (int)r.below(5), (unsigned)r.next(), join(v).c_str());
        while (std::next_permutation(v.begin(), v.end()));
    }
    // (3) every length 0..40 (thorough: ..120), duplicate-rich, every comparator, shapes
    int maxn = th ? 120 : 40;
    for (int rep = 0; rep < (th ? 6 : 3); rep++)
        for (int n = 0; n <= maxn; n++)
            for (int kind = 0; kind < 5; kind++)
            {
                std::vector<int> v(n);
                int m = (int)r.pick(std::vector<int>{1, 2, 3, 5, n ? n : 1, 256, 4, 16});
                for (auto &x : v) x = (int)r.below(m);
                switch (r.below(7))
                {
                case 0: std::sort(v.begin(), v.end()); break;
                case 1: std::sort(v.rbegin(), v.rend()); break;
                case 2: // organ pipe
                    std::sort(v.begin(), v.end());
                    std::reverse(v.begin() + n / 2, v.end());
                    break;
                case 3: // one outlier
                    if (n) v[r.below(n)] = 255;
                    break;
                default: break;
                }
                printf("qs %u %d %u %s\n", esz(r), kind, (unsigned)r.next(), join(v).c_str());
            }
    // (4) every element size 1..32 at lengths 4..9
    for (unsigned e = 1; e <= 32; e++)
        for (int n = 4; n <= 9; n++)
        {
            std::vector<int> v(n);
            for (auto &x : v) x = (int)r.below(6);
            printf("qs %u %d %u %s\n", e, (int)r.below(5), (unsigned)r.next(), join(v).c_str());
        }
    // (5) element sizes 1,2,3,4,7,8,16,31,32,33,64 (beyond the 32 of the property text: the
    // swap buffer and the pivot copy are VLAs of `size` bytes) x lengths around the network /
    // partition switch and larger, few distinct keys (many duplicates), every comparator
    for (unsigned e : {1u, 2u, 3u, 4u, 7u, 8u, 16u, 31u, 32u, 33u, 64u})
        for (int n : {0, 1, 2, 3, 4, 5, 6, 7, 8, 9, 12, 17, 33, 64, 100})
            for (int rep = 0; rep < (th ? 4 : 1); rep++)
            {
                std::vector<int> v(n);
                int m = (int)r.pick(std::vector<int>{1, 2, 2, 3, 3, 4, 7});
                for (auto &x : v) x = (int)r.below(m);
                if (r.chance(20)) std::sort(v.begin(), v.end());
                printf("qs %u %d %u %s\n", e, (int)r.below(5), (unsigned)r.next(), join(v).c_str());
            }
    // rand_r: the caller's seed, including the ones whose product with the
    // multiplier does not fit a signed long (> 557 434 000)
    for (unsigned sd : {0u, 1u, 557433999u, 557434000u, 557434001u, 2147483647u, 2147483648u, 4294967295u, 314567651u})
        printf("rndr %u %d\n", sd, 6);
    for (int i = 0; i < (th ? 100 : 20); i++) printf("rndr %u %d\n", (unsigned)r.next(), (int)r.range(1, 20));
    // rand.c itself
    for (int i = 0; i < (th ? 200 : 40); i++)
        printf("rnd %u %d\n", i < 5 ? (unsigned)i : (unsigned)r.next(), (int)r.range(1, 40));
    printf("rnd 4294967295 8\nrnd 314567651 8\n");
}

static void order_for(std::vector<int> &v, int kind, rng &r)
{
    if (kind == 0 || kind == 4) std::sort(v.begin(), v.end());
    else if (kind == 1) std::sort(v.rbegin(), v.rend());
    else if (kind == 2)
    {
        // ordered by class k/2, arbitrary inside a class
        std::sort(v.begin(), v.end());
        for (size_t i = 0; i + 1 < v.size(); i++)
            if (v[i] / 2 == v[i + 1] / 2 && r.chance(50)) std::swap(v[i], v[i + 1]);
    }
    // kind 3: any order is ordered
}

static void gen_bsearch(rng &r, bool th)
{
    // (1) every non-decreasing array over {1,3,5} up to length 7, every key 0..6
    for (int len = 0; len <= (th ? 9 : 7); len++)
    {
        int total = 1;
        for (int i = 0; i < len; i++) total *= 3;
        for (int code = 0; code < total; code++)
        {
            std::vector<int> v;
            for (int i = 0, c = code; i < len; i++, c /= 3) v.push_back(1 + 2 * (c % 3));
            if (!std::is_sorted(v.begin(), v.end())) continue;
            for (int key = 0; key <= 6; key++)
                printf("bs %u 0 %d %s\n", 1 + (unsigned)((code + key) % 32), key, join(v).c_str());
        }
    }
    // (2) lengths 0..40, every comparator, all keys from below the minimum to above the maximum
    int maxn = th ? 120 : 40;
    for (int rep = 0; rep < (th ? 4 : 1); rep++)
        for (int n = 0; n <= maxn; n++)
            for (int kind = 0; kind < 5; kind++)
            {
                std::vector<int> v(n);
                int m = (int)r.pick(std::vector<int>{1, 2, 3, 5, n ? n : 1, 2 * n + 1, 12, 40});
                for (auto &x : v) x = 2 + ((int)r.below(m) * (r.chance(50) ? 2 : 1)) % 252; // an element's key is one byte
                order_for(v, kind, r);
                int lo = 0, hi = 3;
                for (int x : v) hi = std::max(hi, x + 2);
                unsigned e = esz(r);
                for (int key = lo; key <= hi; key++)
                    if (th || hi < 30 || r.chance(40) || std::find(v.begin(), v.end(), key) != v.end())
                        printf("bs %u %d %d %s\n", e, kind, key, join(v).c_str());
            }
    // (3) the empty array with every element size
    for (unsigned e = 1; e <= 32; e++) printf("bs %u %d %d -\n", e, (int)(e % 5), (int)r.below(9));
}

static void gen_bounds(rng &r, bool th)
{
    static const std::vector<unsigned> sizes = {1, 2, 3, 4, 7, 8, 16, 31, 32, 33, 64};
    // (1) every non-decreasing array over {1,3,5} up to length 7 (thorough 9), every key 0..6, both functions
    unsigned rot = 0;
    for (int len = 0; len <= (th ? 9 : 7); len++)
    {
        int total = 1;
        for (int i = 0; i < len; i++) total *= 3;
        for (int code = 0; code < total; code++)
        {
            std::vector<int> v;
            for (int i = 0, c = code; i < len; i++, c /= 3) v.push_back(1 + 2 * (c % 3));
            if (!std::is_sorted(v.begin(), v.end())) continue;
            for (int key = 0; key <= 6; key++)
            {
                printf("ub %u 0 %d %s\n", sizes[rot % sizes.size()], key, join(v).c_str());
                printf("lb %u 0 %d %s\n", sizes[(rot + 5) % sizes.size()], key, join(v).c_str());
                rot++;
            }
        }
    }
    // (2) lengths 0..40 (thorough ..120), every comparator, duplicate-rich, keys from below the minimum to above the maximum
    int maxn = th ? 120 : 40;
    for (int rep = 0; rep < (th ? 4 : 1); rep++)
        for (int n = 0; n <= maxn; n++)
            for (int kind = 0; kind < 5; kind++)
            {
                std::vector<int> v(n);
                int m = (int)r.pick(std::vector<int>{1, 2, 3, 5, n ? n : 1, 2 * n + 1, 12, 40});
                for (auto &x : v) x = 2 + ((int)r.below(m) * (r.chance(50) ? 2 : 1)) % 252;
                order_for(v, kind, r);
                int lo = 0, hi = 3;
                for (int x : v) hi = std::max(hi, x + 2);
                unsigned e = r.pick(sizes);
                for (int key = lo; key <= hi; key++)
                    if (th || hi < 30 || r.chance(40) || std::find(v.begin(), v.end(), key) != v.end())
                    {
                        printf("ub %u %d %d %s\n", e, kind, key, join(v).c_str());
                        printf("lb %u %d %d %s\n", e, kind, key, join(v).c_str());
                    }
            }
    // (3) nmemb 0 and 1 at every element size (base of the empty array = one-past-the-end of an allocation)
    for (unsigned e : sizes)
        for (int kind = 0; kind < 5; kind++)
        {
            printf("ub %u %d %d -\nlb %u %d %d -\n", e, kind, (int)r.below(9), e, kind, (int)r.below(9));
            for (int key : {3, 4, 5})
                printf("ub %u %d %d 4\nlb %u %d %d 4\nbs %u %d %d 4\n", e, kind, key, e, kind, key, e, kind, key);
        }
}

// ------------------------------------------------------------ round 3
// rand.c transcribed for the GENERATOR only (to build arrays that are adversarial for the pivot
// sequence of a given seed); if rand.c changes, those arrays merely stop being adversarial
static int gen_rand(uint64_t &sd)
{
    sd = (uint32_t)(sd * 16546134871ull + 513585871ull) % 204814687u;
    return (int)(uint32_t)sd >> 1;
}
// an array on which, with the pivots of srand(seed), every partition step picks the unique minimum of
// its sub-array: one side of every partition is empty, the recursion is nmemb - 3 calls deep
// (qsort_recursion_depth: the bound nmemb + 1 is of the right order) - as far as one key byte allows
static std::vector<int> adversarial(size_t n, unsigned seed)
{
    uint64_t sd = seed;
    std::vector<int> val(n, -1);
    std::vector<size_t> pos(n);
    for (size_t i = 0; i < n; i++) pos[i] = i;
    size_t lo = 0;
    int level = 0;
    while (n - lo >= 4 && level < 250)
    {
        size_t p = lo + (size_t)gen_rand(sd) % (n - lo);
        val[pos[p]] = level++;
        std::swap(pos[lo], pos[p]);
        lo++;
    }
    for (size_t i = 0; i < n; i++)
        if (val[i] < 0) val[i] = level + (int)(i % 5);
    return val;
}
static void order_by_cmp(std::vector<int> &v, int kind, rng &r)
{
    for (size_t i = v.size(); i > 1; i--) std::swap(v[i - 1], v[r.below(i)]);
    std::stable_sort(v.begin(), v.end(), [&](int a, int b) { return cmp_keys(kind, a, b) < 0; });
}

static void gen_round3(rng &r, bool th)
{
    puts("consts");
    puts("ctype");
    // (the descriptive word makes the line longer than the small direct ops: bin/check replays the shortest failing op first)
    puts("premain strtol,strtoull,rand,qsort(9x3),bsearch-called-from-a-constructor-with-init_priority(101)-before-main");
    // ---- strto*: state kept between calls?  Consecutive calls of ONE function with the sign and the
    // magnitude alternating around the limits (a cache keyed by the base alone would mix the limits of
    // the two signs), then the same text through all eight functions, base by base.
    {
        const u128 SMAX = (u128)INT64_MAX, UMAX = (u128)UINT64_MAX;
        for (int f = 0; f < 8; f++)
            for (int base : {10, 16, 8, 36, 2, 3, 0, 7, 35})
            {
                int eb = base ? base : 10;
                const std::pair<const char *, u128> seq[] = {{"-", 1}, {"", SMAX + 1}, {"-", SMAX + 1}, {"", SMAX}, {"-", SMAX + 2}, {"+", UMAX}, {"-", UMAX}, {"", UMAX + 1}, {"-", 0}, {"", SMAX + 1}, {"-", SMAX + 1}};
                for (auto &q : seq) st(FNS[f], base, std::string(q.first) + render(q.second, eb, (int)r.below(3), r));
            }
        for (int bi = 0; bi < 36; bi++)
        {
            int base = BASES[bi], eb = base ? base : 10;
            for (int f = 0; f < 8; f++) st(FNS[f], base, "-" + render(1 + r.below(9), eb, 0, r));
            for (int f = 0; f < 8; f++) st(FNS[f], base, render(SMAX + 1, eb, 0, r));
            for (int f = 7; f >= 0; f--) st(FNS[f], base, "-" + render(SMAX + 1, eb, 1, r));
            for (int f = 0; f < 8; f++) st(FNS[f], base, render(UMAX, eb, 0, r) + (r.chance(50) ? "" : " "));
        }
        for (int f = 0; f < 8; f++)
            for (const char *t : {"+ 1", "- 1", "+", "-0x", "-0xg", "+0x", "0x", "0xx", "\v\f 0x1", "\v\f-0X", "0x 1", "-0", "+0", "-00x1", "0x-1", "\x1f" "1", "\x0e" "1", "\x08" "1"})
                for (int base : {0, 16, 10})
                    st(FNS[f], base, t);
    }
    // ---- texts of >= 300 KiB (the loops are linear)
    {
        unsigned rot = (unsigned)r.below(8);
        for (int k = 0; k < (th ? 8 : 3); k++)
            for (int f = 0; f < 8; f++)
            {
                const char *fn = FNS[f];
                switch ((f + rot + k) % 4)
                {
                case 0: printf("stL %s 10 %s %s %u %s\n", fn, hex(std::string(k & 1 ? "-" : "")).c_str(), hex(std::string("1")).c_str(), 307200u + (unsigned)r.below(9), hex(std::string("x")).c_str()); break;
                case 1: printf("stL %s 16 %s %s %u %s\n", fn, hex(std::string("-0x")).c_str(), hex(std::string("0")).c_str(), 307200u, hex(std::string("7fg")).c_str()); break;
                case 2: printf("stL %s 0 - %s %u %s\n", fn, hex(std::string(" \t\n\v\f\r")).c_str(), 51200u, hex(std::string("+017x")).c_str()); break;
                default: printf("stL %s 36 %s %s %u -\n", fn, hex(std::string(" ")).c_str(), hex(std::string("zZ9")).c_str(), 102400u + (unsigned)r.below(3)); break;
                }
            }
    }
    // ---- bases outside {0, 2..36}: ISO leaves the call undefined; only "returns, end pointer inside".
    // (base -1 is not generated: strtoll/strtoq compute LLONG_MIN % base for a negative text, which traps.)
    for (int f = 0; f < 8; f++)
        for (int base : {1, 37, 38, 64, 100, 255, 256, 257, 65536, 65546, -2, -10, -36, INT_MAX, INT_MIN})
            for (const char *t : {"", "0", "10", "-7", "zz", " +0x1f", "00000", "-1Zz9"})
                printf("stx %s %d %s\n", FNS[f], base, hex(std::string(t)).c_str());
    // ---- qsort: comparators with large classes (5) / on a part of the key (6)
    for (int rep = 0; rep < (th ? 6 : 2); rep++)
        for (int n = 0; n <= 40; n++)
            for (int kind : {5, 6})
            {
                std::vector<int> v(n);
                int m = (int)r.pick(std::vector<int>{256, 256, 32, 17, 64});
                for (auto &x : v) x = (int)r.below(m);
                if (r.chance(25)) order_by_cmp(v, kind, r);
                printf("qs %u %d %u %s\n", esz(r), kind, (unsigned)r.next(), join(v).c_str());
            }
    // every element size 1..64 (the VLAs temp[size], key[size])
    for (unsigned e = 1; e <= 64; e++)
        for (int n : {2, 3, 4, 5, 9, 20})
        {
            std::vector<int> v(n);
            int m = (int)r.pick(std::vector<int>{2, 3, 6, 256});
            for (auto &x : v) x = (int)r.below(m);
            printf("qs %u %d %u %s\n", e, (int)r.below(7), (unsigned)r.next(), join(v).c_str());
        }
    // adversarial for the pivot sequence: recursion as deep as the array is long
    for (size_t n : {8u, 33u, 100u, 250u, 256u})
        for (int rep = 0; rep < (th ? 4 : 1); rep++)
        {
            unsigned seed = (unsigned)r.next();
            printf("qs %u 0 %u %s\n", (unsigned)r.pick(std::vector<unsigned>{2, 4, 24, 40}), seed, join(adversarial(n, seed)).c_str());
        }
    {
        unsigned seed = (unsigned)r.next();
        printf("qs 1 0 %u %s\n", seed, join(adversarial(600, seed)).c_str());
    }
    // generated arrays: boundary lengths, long arrays (the model is executed up to 600 elements,
    // beyond that the driver prints the ordered key sequence the theorems prescribe)
    {
        static const int kinds[7] = {0, 1, 5, 6, 2, 4, 3};
        unsigned rot = 0;
        for (size_t n : {0u, 1u, 3u, 4u, 5u, 31u, 100u, 255u, 256u, 257u, 400u, 600u})
            for (unsigned shape = 0; shape < 5; shape++)
                printf("qsg %u %d %u %zu %u %u\n", esz(r), kinds[rot++ % 7], (unsigned)r.next(), n, shape, (unsigned)r.pick(std::vector<unsigned>{2, 7, 256, 256}));
        for (size_t n : {601u, 4095u, 4096u, 5000u, 65535u, 65536u, 65537u})
            for (unsigned shape = 0; shape < (n < 60000 || th ? 5u : 2u); shape++)
                printf("qsg %u %d %u %zu %u %u\n", n > 60000 ? (unsigned)r.pick(std::vector<unsigned>{1, 2, 5}) : esz(r), kinds[rot++ % 7], (unsigned)r.next(), n, shape, (unsigned)r.pick(std::vector<unsigned>{3, 256, 256}));
        printf("qsg 4 0 %u 300000 0 256\n", (unsigned)r.next());
        // (random keys only at this length: with 256 distinct keys a structured shape costs a
        // deterministic-pivot quicksort 256 x nmemb comparisons - legitimate, but beyond the per-op time limit)
        printf("qsg 1 %d %u 307200 0 256\n", kinds[r.below(6)], (unsigned)r.next());
        if (th)
        {
            printf("qsg 2 1 %u 500000 0 256\n", (unsigned)r.next());
            printf("qsg 3 5 %u 300001 0 200\n", (unsigned)r.next());
        }
    }
    // ---- bsearch / bounds with the new comparators, and with the key object inside the array
    for (int rep = 0; rep < (th ? 4 : 1); rep++)
        for (int n = 0; n <= 40; n++)
            for (int kind : {5, 6})
            {
                std::vector<int> v(n);
                int m = (int)r.pick(std::vector<int>{250, 250, 40, 17});
                for (auto &x : v) x = (int)r.below(m);
                order_by_cmp(v, kind, r);
                unsigned e = esz(r);
                for (int key = 0; key < m + 3; key += (th || m < 50 ? 1 : 1 + (int)r.below(7)))
                {
                    printf("bs %u %d %d %s\n", e, kind, key, join(v).c_str());
                    printf("ub %u %d %d %s\nlb %u %d %d %s\n", e, kind, key, join(v).c_str(), e, kind, key, join(v).c_str());
                }
            }
    for (int rep = 0; rep < (th ? 6 : 2); rep++)
        for (int n = 1; n <= 24; n++)
        {
            int kind = (int)r.below(7);
            std::vector<int> v(n);
            int m = (int)r.pick(std::vector<int>{1, 2, 3, 5, 40, 250});
            for (auto &x : v) x = (int)r.below(m);
            order_by_cmp(v, kind, r);
            unsigned e = esz(r);
            for (int k = 0; k < n; k++) printf("bsa %u %d %d %s\n", e, kind, k, join(v).c_str());
        }
    // ---- one array, several qsort calls with the comparator changed in between, then bsearch
    for (int rep = 0; rep < (th ? 40 : 8); rep++)
        for (int n : {0, 1, 3, 4, 7, 12, 30})
        {
            std::vector<int> v(n), kd(1 + r.below(4));
            int m = (int)r.pick(std::vector<int>{2, 5, 40, 256});
            for (auto &x : v) x = (int)r.below(m);
            for (auto &x : kd) x = (int)r.below(7);
            printf("qsr %u %u %s %s\n", esz(r), (unsigned)r.next(), join(kd).c_str(), join(v).c_str());
        }
    // ---- atol / atoi / atoll on >= 300 KiB
    for (const char *fn : {"l", "i", "ll"})
    {
        printf("atL %s - %s 307200 %s\n", fn, hex(std::string(" ")).c_str(), hex(std::string("-123x")).c_str());
        printf("atL %s %s %s 307200 %s\n", fn, hex(std::string("\t+")).c_str(), hex(std::string("0")).c_str(), hex(std::string("2147483647 ")).c_str());
    }
    // rand / rand_r: long runs on one state
    printf("rnd 1 300\nrnd 0 300\nrnd 204814686 50\nrnd 204814687 50\nrndr 204814687 50\n");
}

// ------------------------------------------------------------ round 3b: re-entrancy
// qsn / bsn: the comparator of an outer qsort / bsearch / upper_bound / lower_bound runs complete nested
// calls (qsort of a private array, bsearch + bounds, one strto*) at the k-th comparator call or at every
// call, on this thread or on a second one.  Element sizes on both sides of 64 (a shared static buffer with
// an alloca fallback has such a limit), inner keys mostly disjoint from the outer ones (a pivot copy that
// is overwritten by the inner call then compares unlike any element of the outer array).
static void gen_nested(rng &r, bool th)
{
    static const std::vector<unsigned> osz = {1, 2, 3, 4, 8, 12, 16, 32, 33, 63, 64, 65, 100};
    static const std::vector<unsigned> isz = {1, 2, 4, 4, 8, 16, 32, 64, 65, 80};
    static const std::vector<std::pair<int, const char *>> texts = {{10, "-9223372036854775808"}, {10, "9223372036854775808"}, {10, "18446744073709551615"}, {10, " -18446744073709551616x"},
                                                                     {0, "0x7fZ"}, {16, "\t-0x"}, {36, "1y2p0ij32e8e8"}, {36, "-1Y2P0IJ32E8E7 "}, {0, "017777777777777777777778"}, {2, "+1012"}, {10, ""}, {7, "  66x"}};
    auto tailf = [&](char *buf, size_t sz) {
        std::vector<int> ik(r.pick(std::vector<int>{4, 4, 5, 8, 12, 0, 3}));
        bool disjoint = r.chance(80);
        for (auto &x : ik) x = disjoint ? 100 + (int)r.below(150) : (int)r.below(6);
        auto &t = r.pick(texts);
        snprintf(buf, sz, "%u %s %s %d %s", (unsigned)r.pick(isz), join(ik).c_str(), FNS_[r.below(8)], t.first, hex(std::string(t.second)).c_str());
    };
    char tl[512];
    for (int rep = 0; rep < (th ? 12 : 3); rep++)
        for (int n : {0, 1, 3, 4, 5, 6, 8, 12, 20, 40})
            for (unsigned long when : {0ul, 1ul, 2ul, 3ul, 5ul, 9ul})
            {
                std::vector<int> v(n);
                int m = (int)r.pick(std::vector<int>{2, 5, 40, 100});
                for (auto &x : v) x = (int)r.below(m);
                tailf(tl, sizeof tl);
                printf("qsn %u %d %u %lu %d %s %s\n", (unsigned)r.pick(osz), (int)r.below(7), (unsigned)r.next(), when, (int)r.pick(std::vector<int>{1, 1, 1, 2, 4, 7, 9, 15, 3, 5}), tl, join(v).c_str());
            }
    for (int rep = 0; rep < (th ? 8 : 2); rep++)
        for (int n : {0, 1, 2, 5, 9, 17, 40})
            for (unsigned long when : {0ul, 1ul, 2ul, 4ul})
            {
                int kind = (int)r.below(7);
                std::vector<int> v(n);
                int m = (int)r.pick(std::vector<int>{2, 5, 40, 250});
                for (auto &x : v) x = (int)r.below(m);
                order_by_cmp(v, kind, r);
                tailf(tl, sizeof tl);
                printf("bsn %u %d %d %lu %d %s %s\n", (unsigned)r.pick(osz), kind, n && r.chance(70) ? v[r.below(n)] : (int)r.below(m + 2), when, (int)r.pick(std::vector<int>{1, 1, 4, 7, 9, 15, 2}), tl, join(v).c_str());
            }
}

void c11_gen(rng &r, const std::string &tier)
{
    bool th = tier == "thorough";
    puts("widths");
    gen_strto(r, th);
    gen_qsort(r, th);
    gen_bsearch(r, th);
    gen_bounds(r, th);
    gen_round3(r, th);
    gen_nested(r, th);
}

