// C02 harness: hosted flat_map / flat_set (over the libstdc++ vector), comparators less / greater / by-last-digit
// (see C02/common.h; the string-keyed and the stateful-comparator instantiations are in C02_flatb.cpp)
#include "C02/common.h"
#include <igris/container/vector.h>
#include <igris/container/flat_map.h>
#include <igris/container/flat_set.h>
// ------------------------------------------------------------------ flat_map / flat_set
#include "C02/flat_ops.h"
// hosted instantiations: comparator 0 = std::less (default), 1 = std::greater, 2 = by last digit (a strict
// weak order whose equivalence is coarser than ==), 3 = std::greater<std::string> on the decimal text
static FlatOps<igris::flat_map<int, int>, igris::flat_set<int>, int, int> g_flat0;
static FlatOps<igris::flat_map<int, int, std::greater<int>>, igris::flat_set<int, std::greater<int>>, int, int> g_flat1;
static FlatOps<igris::flat_map<int, int, ByLastDigit>, igris::flat_set<int, ByLastDigit>, int, int> g_flat2;

FlatBase *c02_flat_b(int ci); // C02_flatb.cpp
static FlatBase *g_flat = &g_flat0;
bool c02_flat_select(int ci)
{
    if (ci < 0 || ci > 4) return false;
    g_flat = ci == 0 ? (FlatBase *)&g_flat0 : ci == 1 ? (FlatBase *)&g_flat1 : ci == 2 ? (FlatBase *)&g_flat2 : c02_flat_b(ci);
    g_flat->step("reset");
    return true;
}
std::string c02_flat_step(const std::string &line) { return g_flat->step(line); }
