// C10: compat/mem/lin_realloc.cpp with malloc/free/realloc renamed (see C10_malloc.cpp)
#include <cstddef>
#include <cstdlib>
#include <cstring>
#include <cassert>
#include <memory>
#include <mutex>
#include <stdlib.h>
#include <string.h>
#include <igris/sync/critical_context.h>
#include <igris/sync/syslock.h>
#define malloc igv_malloc
#define free igv_free
#define realloc igv_realloc
extern "C" void *igv_malloc(size_t);
extern "C" void igv_free(void *);
#include <compat/mem/lin_realloc.cpp>
