// C02 harness, one instantiation of the vector machine (see C02/common.h)
#include "C02/common.h"
namespace pt
{
#include <igris/container/std_portable.h>
}
#include "C02/mach.h"

MachBase *c02_mach_pi() { return new Mach<pt::igris::vector<int, TA<int>>, int, true>(); }
