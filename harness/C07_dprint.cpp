// C07 harness, debug-print side (see harness/C07.cpp for the operations)
#include "C07_common.h"
#include <igris/util/numconvert.h>
#include <igris/util/hexascii.h>
#include <igris/util/ctype.h>
#include <igris/dprint/dprint.h>
#include <igris/defs/vt100.h>
// harness code below: single calls per op, nothing time-critical -> no optimisation (compile time of the
// sanitized translation unit); the sweeps live in harness/C07.cpp at -O1
#pragma GCC optimize("O0")

static_assert(sizeof(long) == 8 && sizeof(int) == 4 && sizeof(short) == 2, "LP64 assumed by the model");

// Routines of dprint_func_impl.c that igris/dprint/dprint.h does not declare (internal helpers: the header only
// carries them in a comment).  They are referenced WEAKLY: when the library renames, removes or makes one of
// them static the harness still builds and links, the reference is null, and the op goes through the public
// entry point that is specified to print the same text (tag `internal-absent`).
extern "C"
{
    void debug_printdec_uint8(uint8_t) __attribute__((weak));
    void debug_printdec_uint16(uint16_t) __attribute__((weak));
    void debug_printdec_uint32(uint32_t) __attribute__((weak));
    void debug_printdec_uint64(uint64_t) __attribute__((weak));
    void debug_printhex_n(uint8_t *, int) __attribute__((weak));
}
static bool g_absent = false; // set by an op that had to use a fallback
static void dec_u8(uint8_t v) { if (debug_printdec_uint8) debug_printdec_uint8(v); else { g_absent = true; debug_printdec_unsigned_char(v); } }
static void dec_u16(uint16_t v) { if (debug_printdec_uint16) debug_printdec_uint16(v); else { g_absent = true; debug_printdec_unsigned_short(v); } }
static void dec_u32(uint32_t v) { if (debug_printdec_uint32) debug_printdec_uint32(v); else { g_absent = true; debug_printdec_unsigned_int(v); } }
static void dec_u64(uint64_t v) { if (debug_printdec_uint64) debug_printdec_uint64(v); else { g_absent = true; debug_printdec_unsigned_long_long(v); } }
static void hex_n(uint8_t *p, int n) { if (debug_printhex_n) debug_printhex_n(p, n); else { g_absent = true; debug_writehex_reversed(p, (uint16_t)n); } }

// the platform hook of the debug-print library: capture the characters
// (a plain zero-initialised array: usable from a constructor that runs before main())
static char g_cap[1 << 21];
static size_t g_cap_n;
extern "C" void debug_putchar(char c) { if (g_cap_n < sizeof g_cap) g_cap[g_cap_n] = c; g_cap_n++; }
static void cap_clear() { g_cap_n = 0; }
static std::string cap_str() { return std::string(g_cap, g_cap_n < sizeof g_cap ? g_cap_n : sizeof g_cap); }

// calls made before main(): static-initialisation-order dependencies of the routines (there must be none)
struct PreMain
{
    char a[16], b[72], f[16], d[40], e[16];
    uint32_t cv; long ce; size_t dn, en;
    PreMain()
    {
        igris_i32toa(INT32_MIN, a, 10);
        igris_u64toa(~0ull, b, 2);
        char *end = 0;
        static const char t[] = "4294967295";
        cv = igris_atou32(t, 10, &end);
        ce = end - t;
        g_cap_n = 0;
        debug_printdec_signed_long_long(LLONG_MIN);
        dn = g_cap_n < sizeof d ? g_cap_n : sizeof d;
        memcpy(d, g_cap, dn);
        g_cap_n = 0;
        debug_printhex_uint32(0xDEADBEEFu);
        en = g_cap_n < sizeof e ? g_cap_n : sizeof e;
        memcpy(e, g_cap, en);
        g_cap_n = 0;
        igv_itoa(-255, f, 16);
    }
};
__attribute__((init_priority(101))) static PreMain g_pre;
// debug_write comes from igris/dprint/dprint_manually.c (weak, loops over debug_putchar)

// ------------------------------------------------------------------ debug printers
struct DFn { const char *name; int bits; bool sgn; char fmt; void (*call)(uint64_t); };
#define DF(nm, bits, sgn, fmt, expr) {nm, bits, sgn, fmt, [](uint64_t v) { expr; }}
static const DFn DFNS[] = {
    DF("dec_u8", 8, false, 'd', dec_u8((uint8_t)v)),
    DF("dec_u16", 16, false, 'd', dec_u16((uint16_t)v)),
    DF("dec_u32", 32, false, 'd', dec_u32((uint32_t)v)),
    DF("dec_u64", 64, false, 'd', dec_u64((uint64_t)v)),
    DF("dec_uc", 8, false, 'd', debug_printdec_unsigned_char((unsigned char)v)),
    DF("dec_us", 16, false, 'd', debug_printdec_unsigned_short((unsigned short)v)),
    DF("dec_ui", 32, false, 'd', debug_printdec_unsigned_int((unsigned int)v)),
    DF("dec_ul", 64, false, 'd', debug_printdec_unsigned_long((unsigned long)v)),
    DF("dec_ull", 64, false, 'd', debug_printdec_unsigned_long_long((unsigned long long)v)),
    DF("dec_sc", 8, true, 'd', debug_printdec_signed_char((signed char)v)),
    DF("dec_ss", 16, true, 'd', debug_printdec_signed_short((signed short)v)),
    DF("dec_si", 32, true, 'd', debug_printdec_signed_int((signed int)v)),
    DF("dec_sl", 64, true, 'd', debug_printdec_signed_long((signed long)v)),
    DF("dec_sll", 64, true, 'd', debug_printdec_signed_long_long((signed long long)v)),
    DF("hex_u4", 4, false, 'x', debug_printhex_uint4((uint8_t)(v & 15))),
    DF("hex_u4x", 8, false, 'X', debug_printhex_uint4((uint8_t)v)), // round 3b: the whole uint8_t argument range
    DF("bin_u4x", 8, false, 'B', debug_printbin_uint4((uint8_t)v)),
    DF("hex_u8", 8, false, 'x', debug_printhex_uint8((uint8_t)v)),
    DF("hex_u16", 16, false, 'x', debug_printhex_uint16((uint16_t)v)),
    DF("hex_u32", 32, false, 'x', debug_printhex_uint32((uint32_t)v)),
    DF("hex_u64", 64, false, 'x', debug_printhex_uint64((uint64_t)v)),
    DF("hex_c", 8, false, 'x', debug_printhex_char((char)v)),
    DF("hex_uc", 8, false, 'x', debug_printhex_unsigned_char((unsigned char)v)),
    DF("hex_us", 16, false, 'x', debug_printhex_unsigned_short((unsigned short)v)),
    DF("hex_ui", 32, false, 'x', debug_printhex_unsigned_int((unsigned int)v)),
    DF("hex_ul", 64, false, 'x', debug_printhex_unsigned_long((unsigned long)v)),
    DF("hex_ull", 64, false, 'x', debug_printhex_unsigned_long_long((unsigned long long)v)),
    DF("hex_sc", 8, false, 'x', debug_printhex_signed_char((signed char)v)),
    DF("hex_ss", 16, false, 'x', debug_printhex_signed_short((signed short)v)),
    DF("hex_si", 32, false, 'x', debug_printhex_signed_int((signed int)v)),
    DF("hex_sl", 64, false, 'x', debug_printhex_signed_long((signed long)v)),
    DF("hex_sll", 64, false, 'x', debug_printhex_signed_long_long((signed long long)v)),
    DF("hex_ptr", 64, false, 'x', debug_printhex_ptr((const void *)(uintptr_t)v)),
    DF("bin_u4", 4, false, 'b', debug_printbin_uint4((uint8_t)(v & 15))),
    DF("bin_u8", 8, false, 'b', debug_printbin_uint8((uint8_t)v)),
    DF("bin_u16", 16, false, 'b', debug_printbin_uint16((uint16_t)v)),
    DF("bin_u32", 32, false, 'b', debug_printbin_uint32((uint32_t)v)),
    DF("bin_u64", 64, false, 'b', debug_printbin_uint64((uint64_t)v)),
};
static const int NDFN = sizeof DFNS / sizeof DFNS[0];

// decimal: the canonical text; hex/bin: the canonical upper-case digits
// zero-padded to the full width of the type
static std::string ref_dprint(const DFn &f, uint64_t v)
{
    char t[80];
    if (f.fmt == 'd')
    {
        // glibc as an independent reference for base 10
        uint64_t x = extend(v, f.bits, f.sgn);
        if (f.sgn) snprintf(t, sizeof t, "%lld", (long long)x);
        else snprintf(t, sizeof t, "%llu", (unsigned long long)x);
        return t;
    }
    if (f.fmt == 'B')
    { // debug_printbin_uint4 tests the four low bits only: the binary digits of the argument mod 16
        for (int bit = 3; bit >= 0; bit--) t[3 - bit] = (v >> bit) & 1 ? '1' : '0';
        return std::string(t, 4);
    }
    if (f.fmt == 'X')
    { // debug_printhex_uint4: the digit of the argument for every argument that HAS a digit (0..35 continue into
      // the base-36 alphabet); beyond that one character that the property does not name ("?" = any)
        uint8_t b = (uint8_t)v;
        return b < 36 ? std::string(1, AL_UP[b]) : std::string("?");
    }
    unsigned base = f.fmt == 'x' ? 16 : 2;
    int width = f.fmt == 'x' ? f.bits / 4 : f.bits;
    int n = ref_text(v, f.bits, false, base, true, t);
    return std::string(width - n, '0') + t;
}
void run_dpr(const std::vector<std::string> &w, out &o)
{
    const DFn *f = 0;
    for (int i = 0; i < NDFN; i++)
        if (w[1] == DFNS[i].name) f = &DFNS[i];
    if (!f) { o.result = "bad-op"; return; }
    uint64_t v = h64(w[2]);
    cap_clear();
    g_absent = false;
    f->call(v);
    std::string g_out = cap_str();
    o.result = hex(g_out);
    std::string ref = ref_dprint(*f, v);
    if (g_absent) o.tag("internal-absent");
    if (ref == "?")
    {
        if (g_out.size() != 1) o.fail(std::string("debug_print ") + f->name + "(" + hexn(v, 16) + ") emitted " + std::to_string(g_out.size()) + " characters");
        o.tag("nibble-argument-above-35");
    }
    else if (g_out != ref)
        o.fail(std::string("debug_print ") + f->name + "(" + hexn(v, 16) + ") emitted `" + show(g_out) + "`, canonical text is `" + ref + "`");
    o.tag(f->fmt == 'd' ? "dprint-dec" : (f->fmt == 'x' || f->fmt == 'X') ? "dprint-hex" : "dprint-bin");
    if ((f->fmt == 'X' || f->fmt == 'B') && (uint8_t)v >= 16) o.tag("nibble-argument-above-15");
    uint64_t p = v & wmask(f->bits);
    if (f->sgn && (p >> (f->bits - 1)) & 1) o.tag(p == (1ull << (f->bits - 1)) ? "minimum" : "negative");
}

// ------------------------------------------------------------------ round 3 ops
static std::string show_stream(const std::string &t)
{
    fnv h;
    for (unsigned char c : t) h.byte(c);
    return std::to_string(t.size()) + " " + hexn(h.h, 16) + " " + (t.empty() ? std::string("-") : hex(t.substr(0, 48)));
}
static bytes repeat_bytes(const bytes &b, size_t rep)
{
    bytes m;
    for (size_t i = 0; i < rep; i++) m.insert(m.end(), b.begin(), b.end());
    return m;
}
static std::string first_diff(const std::string &a, const std::string &b)
{
    size_t i = 0;
    while (i < a.size() && i < b.size() && a[i] == b[i]) i++;
    size_t lo = i < 12 ? 0 : i - 12;
    return "at character " + std::to_string(i) + ": emitted `" + show(a.substr(lo, 40)) + "`, expected `" + show(b.substr(lo, 40)) + "`";
}

void run_wh(const std::vector<std::string> &w, out &o)
{
    const std::string &fn = w[1];
    size_t p = strtoull(w[2].c_str(), 0, 10), size = strtoull(w[3].c_str(), 0, 10), rep = strtoull(w[4].c_str(), 0, 10);
    bytes mem = repeat_bytes(unhex(w[5]), rep);
    if (p + size != mem.size() || size > 65535) { o.result = "bad-op"; return; } // the block ends where the routine must stop
    exact_buf b(mem);
    cap_clear();
    if (fn == "hex") debug_writehex(b.p + p, (uint16_t)size);
    else if (fn == "hexr") debug_writehex_reversed(b.p + p, (uint16_t)size);
    else if (fn == "bin") debug_writebin(b.p + p, (uint16_t)size);
    else if (fn == "binr") debug_writebin_reversed(b.p + p, (uint16_t)size);
    else if (fn == "hexn") { g_absent = false; hex_n(b.p + p, (int)size); if (g_absent) o.tag("internal-absent"); }
    else { o.result = "bad-op"; return; }
    std::string got = cap_str();
    o.result = show_stream(got);
    // reference: one byte at a time, in the documented order
    std::string ref;
    bool rev = fn == "hexr" || fn == "binr" || fn == "hexn";
    for (size_t i = 0; i < size; i++)
    {
        uint8_t x = mem[p + (rev ? size - 1 - i : i)];
        if (fn[0] == 'h') { ref.push_back(AL_UP[x >> 4]); ref.push_back(AL_UP[x & 15]); }
        else for (int bit = 7; bit >= 0; bit--) ref.push_back((x >> bit) & 1 ? '1' : '0');
    }
    if (got != ref) o.fail("debug_write " + fn + " of " + std::to_string(size) + " bytes " + first_diff(got, ref));
    o.tag(("write-" + fn).c_str());
    if (size == 0) o.tag("size-0");
    if (size >= 255 && size <= 257) o.tag("size-around-256");
    if (size == 65535) o.tag("size-65535");
    if (got.size() >= 300 * 1024) o.tag("output-300KiB");
}

void run_dump(const std::vector<std::string> &w, out &o)
{
    size_t len = strtoull(w[1].c_str(), 0, 10), rep = strtoull(w[2].c_str(), 0, 10);
    bytes mem = repeat_bytes(unhex(w[3]), rep);
    if (len != mem.size() || len > 65535) { o.result = "bad-op"; return; }
    exact_buf b(mem);
    cap_clear();
    debug_print_dump(b.p, (uint16_t)len);
    std::string got = cap_str();
    // reference
    std::string ref, canon;
    size_t rows = (len + 7) / 8;
    for (size_t r = 0; r < rows; r++)
    {
        char t[40];
        snprintf(t, sizeof t, "0x%016llX:", (unsigned long long)(uintptr_t)(b.p + 8 * r));
        ref += t;
        for (size_t j = 8 * r; j < 8 * r + 8; j++)
            if (j < len) { snprintf(t, sizeof t, "%02X ", mem[j]); ref += t; }
            else ref += "   ";
        for (size_t j = 8 * r; j < 8 * r + 8; j++)
            if (j >= len) ref.push_back(' ');
            else ref.push_back(mem[j] >= 32 && mem[j] <= 126 ? (char)mem[j] : '.'); // printable: as is, everything else '.'
        ref += "\r\n";
    }
    if (got != ref) o.fail("debug_print_dump of " + std::to_string(len) + " bytes " + first_diff(got, ref));
    // the address column relative to mem (what the model prints with mem = 0)
    canon = got;
    const size_t ROW = 2 + 16 + 1 + 24 + 8 + 2;
    if (canon.size() == rows * ROW)
        for (size_t r = 0; r < rows; r++)
        {
            std::string a = canon.substr(r * ROW + 2, 16);
            bool hx = true;
            for (char c : a) if (!((c >= '0' && c <= '9') || (c >= 'A' && c <= 'F'))) hx = false;
            if (!hx) continue;
            uint64_t v = strtoull(a.c_str(), 0, 16) - (uint64_t)(uintptr_t)b.p;
            char t[24];
            snprintf(t, sizeof t, "%016llX", (unsigned long long)v);
            canon.replace(r * ROW + 2, 16, t);
        }
    o.result = show_stream(canon);
    o.tag("dump");
    if (len == 0) o.tag("size-0");
    if (len % 8) o.tag("partial-row");
    if (len == 65535) o.tag("size-65535");
    if (got.size() >= 300 * 1024) o.tag("output-300KiB");
    bool np = false, hi = false;
    for (uint8_t x : mem) { if (x < 32 || x == 127) np = true; if (x >= 128) hi = true; }
    if (np) o.tag("control-char");
    if (hi) o.tag("high-bit-char");
}
template <class T> static std::string tsig() { return std::to_string(sizeof(T)) + (std::is_signed<T>::value ? "s" : "u"); }
// value type of a renderer / return type of a parser: named by the function (igris_i8toa takes an int8_t): compared
template <class R, class A, class B, class C> static std::string toaval(R (*)(A, B, C)) { return tsig<A>(); }
template <class R, class A, class B, class C> static std::string atoret(R (*)(A, B, C)) { return tsig<R>(); }
// type of the base parameter: the property fixes the range 2..36, not the type -> reported as a tag
template <class R, class A, class B, class C> static std::string toabase(R (*)(A, B, C)) { return tsig<C>(); }
template <class R, class A, class B, class C> static std::string atobase(R (*)(A, B, C)) { return tsig<B>(); }
template <class R, class A> static std::string argsig(R (*)(A)) { return tsig<A>(); }
template <class R, class A> static std::string retsig(R (*)(A)) { return tsig<R>(); }
template <class R, class A, class B> static std::string arg2sig(R (*)(A, B)) { return tsig<B>(); }
static std::string join(const std::vector<std::string> &v, const char *sep = ",")
{
    std::string r;
    for (size_t i = 0; i < v.size(); i++) r += (i ? sep : "") + v[i];
    return r;
}

// Compared with the model: the platform (LP64, little endian, signed char) and every type the NAME of an entry
// point fixes (the value type of igris_<K>toa, the return type of igris_ato<K>, the argument of debug_print*_<type>).
// Reported as tags only (the property does not fix them, the stream never depends on them): the type of the base
// parameter, of the size / length parameters of debug_writehex* / debug_printhex_n / debug_print_dump, of vt100_left's
// argument.  The routines that dprint.h does not declare are read through the harness's own (weak) declarations.
void run_consts(out &o)
{
    uint16_t probe = 0x0102;
    std::string r = "int=" + std::to_string(sizeof(int)) + " long=" + std::to_string(sizeof(long)) + " short=" + std::to_string(sizeof(short)) +
                    " ptr=" + std::to_string(sizeof(uintptr_t)) + " char=" + (CHAR_MIN < 0 ? "s" : "u") + " " + (*(uint8_t *)&probe == 2 ? "le" : "be") + " ";
    r += "toa:" + join({toaval(igris_i8toa), toaval(igris_i16toa), toaval(igris_i32toa), toaval(igris_i64toa), toaval(igris_u8toa), toaval(igris_u16toa),
                        toaval(igris_u32toa), toaval(igris_u64toa)}) + " ";
    r += "ato:" + join({atoret(igris_atoi8), atoret(igris_atoi16), atoret(igris_atoi32), atoret(igris_atoi64), atoret(igris_atou8), atoret(igris_atou16),
                        atoret(igris_atou32), atoret(igris_atou64)}) + " ";
    r += "lc:" + join({toaval(igv_itoa), toaval(igv_utoa), toaval(igv_ltoa), toaval(igv_ultoa)}) + " atol:" + retsig(igv_atol) + " atoi:" + retsig(igv_atoi) + " ";
    r += "dpr:" + join({argsig(debug_printdec_unsigned_char), argsig(debug_printdec_unsigned_short), argsig(debug_printdec_unsigned_int),
                        argsig(debug_printdec_unsigned_long), argsig(debug_printdec_unsigned_long_long), argsig(debug_printdec_signed_char),
                        argsig(debug_printdec_signed_short), argsig(debug_printdec_signed_int), argsig(debug_printdec_signed_long),
                        argsig(debug_printdec_signed_long_long), argsig(debug_printhex_uint4), argsig(debug_printhex_uint8), argsig(debug_printhex_uint16),
                        argsig(debug_printhex_uint32), argsig(debug_printhex_uint64), argsig(debug_printhex_char), argsig(debug_printhex_unsigned_char),
                        argsig(debug_printhex_unsigned_short), argsig(debug_printhex_unsigned_int), argsig(debug_printhex_unsigned_long),
                        argsig(debug_printhex_unsigned_long_long), argsig(debug_printhex_signed_char), argsig(debug_printhex_signed_short),
                        argsig(debug_printhex_signed_int), argsig(debug_printhex_signed_long), argsig(debug_printhex_signed_long_long),
                        argsig(debug_printbin_uint4), argsig(debug_printbin_uint8), argsig(debug_printbin_uint16), argsig(debug_printbin_uint32),
                        argsig(debug_printbin_uint64)});
    o.result = r;
    o.tag("consts");
    o.tag(("toa-base=" + join({toabase(igris_i8toa), toabase(igris_i16toa), toabase(igris_i32toa), toabase(igris_i64toa), toabase(igris_u8toa),
                               toabase(igris_u16toa), toabase(igris_u32toa), toabase(igris_u64toa)}, "/")).c_str());
    o.tag(("ato-base=" + join({atobase(igris_atoi8), atobase(igris_atoi16), atobase(igris_atoi32), atobase(igris_atoi64), atobase(igris_atou8),
                               atobase(igris_atou16), atobase(igris_atou32), atobase(igris_atou64)}, "/")).c_str());
    o.tag(("lc-base=" + join({toabase(igv_itoa), toabase(igv_utoa), toabase(igv_ltoa), toabase(igv_ultoa)}, "/")).c_str());
    o.tag(("write-size=" + join({arg2sig(debug_writehex), arg2sig(debug_writehex_reversed), arg2sig(debug_writebin), arg2sig(debug_writebin_reversed)}, "/")).c_str());
    o.tag(("dump-len=" + arg2sig(debug_print_dump)).c_str());
    o.tag(("vt100-arg=" + arg2sig(vt100_left)).c_str());
    o.tag((std::string("internal=") + (debug_printdec_uint8 ? "u8" : "-") + (debug_printdec_uint16 ? "u16" : "-") + (debug_printdec_uint32 ? "u32" : "-") +
           (debug_printdec_uint64 ? "u64" : "-") + (debug_printhex_n ? "hexn" : "-")).c_str());
}

void run_tbl(const std::vector<std::string> &w, out &o)
{
    const std::string &t = w[1];
    o.tag(("table-" + t).c_str());
    if (t == "h2x")
    {
        bytes r;
        for (unsigned n = 0; n < 256; n++) r.push_back((uint8_t)half2hex((uint8_t)n));
        o.result = hex(r);
        for (unsigned n = 0; n < 16; n++)
            if (r[n] != (uint8_t)AL_UP[n]) o.fail("half2hex(" + std::to_string(n) + ") = `" + show(std::string(1, (char)r[n])) + "`");
    }
    else if (t == "dv")
    {
        bytes r;
        for (unsigned c = 0; c < 256; c++)
        {
            bytes s = {(uint8_t)c, 0};
            exact_buf b(s);
            char *e = 0;
            uint8_t v = igris_atou8((const char *)b.p, 255, &e);
            long end = e - (char *)b.p;
            r.push_back((uint8_t)(v + 128 * end));
            int want = ref_dv((uint8_t)c);
            if (want < 36 ? (v != want || end != 1) : (v != 0 || end != 0))
                o.fail("digit value of character " + hexn(c, 2) + ": igris_atou8 in base 255 gives " + std::to_string(v) + " end " + std::to_string(end));
        }
        o.result = hex(r);
    }
    else if (t == "cty")
    {
        std::string r;
        for (int c = -128; c < 256; c++)
        {
            unsigned m = (igris_isdigit(c) ? 1 : 0) | (igris_isxdigit(c) ? 2 : 0) | (igris_isblank(c) ? 4 : 0) | (igris_isspace(c) ? 8 : 0) |
                         (igris_isupper(c) ? 16 : 0) | (igris_islower(c) ? 32 : 0) | (igris_isalpha(c) ? 64 : 0) | (igris_isalnum(c) ? 128 : 0) |
                         (igris_isprint(c) ? 256 : 0);
            int up = igris_toupper(c), lo = igris_tolower(c);
            r += hexn(m, 4) + hexn((uint8_t)(up - c + 128), 2) + hexn((uint8_t)(lo - c + 128), 2);
            // host <ctype.h> ("C" locale) inside ASCII; nothing outside it
            bool a = c >= 0 && c < 128;
            unsigned want = !a ? 0 : ((isdigit(c) ? 1 : 0) | (isxdigit(c) ? 2 : 0) | (isblank(c) ? 4 : 0) | (isspace(c) ? 8 : 0) | (isupper(c) ? 16 : 0) |
                                      (islower(c) ? 32 : 0) | (isalpha(c) ? 64 : 0) | (isalnum(c) ? 128 : 0) | (isprint(c) ? 256 : 0));
            int wup = a ? toupper(c) : c, wlo = a ? tolower(c) : c;
            if (m != want || up != wup || lo != wlo) o.fail("igris ctype of " + std::to_string(c) + ": mask " + hexn(m, 4) + " (host " + hexn(want, 4) + ")");
        }
        o.result = r;
    }
    else if (t == "alpha")
    {
        std::string r, ref;
        char buf[16];
        for (int fn = 0; fn < 6; fn++)
            for (int d = 0; d < 36; d++)
            {
                memset(buf, 0, sizeof buf);
                switch (fn)
                {
                case 0: igris_i64toa(d, buf, 36); break;
                case 1: igris_u64toa(d, buf, 36); break;
                case 2: igv_itoa(d, buf, 36); break;
                case 3: igv_utoa(d, buf, 36); break;
                case 4: igv_ltoa(d, buf, 36); break;
                default: igv_ultoa(d, buf, 36); break;
                }
                r += buf;
                ref.push_back(fn == 1 ? AL_UP[d] : AL_LO[d]);
            }
        cap_clear();
        for (int d = 0; d < 16; d++) debug_printhex_uint4((uint8_t)d);
        r += cap_str();
        for (int d = 0; d < 16; d++) r.push_back(half2hex((uint8_t)d));
        ref += std::string(AL_UP, 16) + std::string(AL_UP, 16);
        o.result = hex(r);
        if (r != ref) o.fail("digit alphabets: `" + show(r) + "`");
    }
    else o.result = "bad-op";
}

void run_pre(out &o)
{
    const PreMain &g = g_pre;
    o.result = hex(std::string(g.a)) + " " + hex(std::string(g.b)) + " " + hexn(g.cv, 8) + "/" + std::to_string(g.ce) + " " + hex(std::string(g.d, g.dn)) + " " +
               hex(std::string(g.e, g.en)) + " " + hex(std::string(g.f));
    if (std::string(g.a) != "-2147483648" || std::string(g.b) != std::string(64, '1') || g.cv != 0xffffffffu || g.ce != 10 ||
        std::string(g.d, g.dn) != "-9223372036854775808" || std::string(g.e, g.en) != "DEADBEEF" || std::string(g.f) != "-ff")
        o.fail("a conversion called before main() gave a different text");
    o.tag("before-main");
}
// the debug_asmlink_* self-test printers are reached through C shims (harness/C07_libc.c) that reference them weakly:
// when the library does not have them the text is produced through the public fixed-width printers (tag asmlink-absent)
void run_asml(const std::vector<std::string> &w, out &o)
{
    int W = atoi(w[1].c_str());
    size_t n = w.size() - 2;
    uint64_t v[4] = {0, 0, 0, 0};
    for (size_t i = 0; i < n; i++) v[i] = h64(w[2 + i]) & wmask(W);
    if (W != 8 && W != 16 && W != 32) { o.result = "bad-op"; return; }
    cap_clear();
    if (!c07_asmlink_args(W, (int)n, v))
    {
        o.tag("asmlink-absent");
        for (size_t i = 0; i < n; i++)
        {
            if (W == 8) debug_printhex_uint8((uint8_t)v[i]);
            else if (W == 16) debug_printhex_uint16((uint16_t)v[i]);
            else debug_printhex_uint32((uint32_t)v[i]);
            debug_putchar(':');
        }
    }
    std::string got = cap_str(), ref;
    o.result = hex(got);
    for (size_t i = 0; i < n; i++)
    {
        char t[24];
        snprintf(t, sizeof t, "%0*llX:", W / 4, (unsigned long long)v[i]);
        ref += t;
    }
    if (got != ref) o.fail("debug_asmlink_args" + std::to_string(W) + "x" + std::to_string(n) + " emitted `" + show(got) + "`, expected `" + ref + "`");
    o.tag("asmlink-args");
}
void run_asmr(const std::vector<std::string> &w, out &o)
{
    uint64_t v = h64(w[1]);
    cap_clear();
    bool have = c07_asmlink_test();
    std::string t = have ? cap_str() : std::string("ABCDE12345");
    cap_clear();
    dprptr((const void *)(uintptr_t)v);
    std::string a = cap_str();
    cap_clear();
    dprptrln((const void *)(uintptr_t)v);
    std::string b = cap_str();
    cap_clear();
    debug_print((const char *)0);
    std::string nul = cap_str();
    uint64_t rv[4] = {0xFE, 0xFEDC, 0xFEDCBA98u, 0xFEDCBA9876543210ull}; // reported as such when the self-test routines are absent
    int wd[4] = {8, 16, 32, 64};
    for (int i = 0; i < 4; i++) if (!c07_asmlink_ret(wd[i], &rv[i])) have = false;
    if (!have) o.tag("asmlink-absent");
    o.result = hexn(rv[0], 2) + " " + hexn(rv[1], 4) + " " + hexn(rv[2], 8) + " " + hexn(rv[3], 16) + " " +
               hex(t) + " " + hex(a) + " " + hex(b) + " " + hex(nul);
    char ref[24];
    snprintf(ref, sizeof ref, "%016llX", (unsigned long long)v);
    if (a != ref || b != std::string(ref) + "\r\n") o.fail("dprptr(" + hexn(v, 16) + ") emitted `" + show(a) + "` / `" + show(b) + "`");
    if (t != "ABCDE12345" || nul != "NULL") o.fail("debug_asmlink_test / debug_print(NULL)");
    if (rv[0] != 0xFE || rv[1] != 0xFEDC || rv[2] != 0xFEDCBA98u || rv[3] != 0xFEDCBA9876543210ull)
        o.fail("debug_asmlink_ret constants");
    o.tag("asmlink-ret-dprptr");
}

// the names and shapes of the debug-printer entry points, for the generator
int dfn_count() { return NDFN; }
void dfn_info(int i, const char **name, int *bits, bool *sgn, char *fmt)
{
    *name = DFNS[i].name; *bits = DFNS[i].bits; *sgn = DFNS[i].sgn; *fmt = DFNS[i].fmt;
}
