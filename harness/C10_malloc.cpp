// C10: compat/mem/lin_malloc.cpp compiled into the harness with
// malloc/free renamed (the rename is applied after the system headers, so the
// host allocator and ASan keep working).  Assertions stay enabled: the debug
// limit `assert(__allocation_counter < 100)` is respected by the generator
// (at most 90 live blocks), see checks/C10.json.
#include <cstddef>
#include <cstdlib>
#include <cstring>
#include <cassert>
#include <memory>
#include <mutex>
#include <stdlib.h>
#include <string.h>
#include <igris/sync/critical_context.h>
#include <igris/sync/syslock.h>
#define malloc igv_malloc
#define free igv_free
#define realloc igv_realloc
#include <compat/mem/lin_malloc.cpp>
