// C19 harness, translation unit 2: the ops of the extension (see C19_common.h)
#include "C19_common.h"
// ================================================================ extension
// help tables: "_" = empty table, else entries "name[:help]" (hex or "-")
struct hentry
{
    str name;
    bool has_help;
    str help;
};
static std::vector<hentry> help_table(const std::string &w)
{
    std::vector<hentry> r;
    if (w == "_")
        return r;
    size_t i = 0;
    while (true)
    {
        size_t j = w.find(',', i);
        std::string e = w.substr(i, j == str::npos ? j : j - i);
        size_t c = e.find(':');
        hentry h;
        h.name = U(e.substr(0, c));
        h.has_help = c != str::npos;
        if (h.has_help)
            h.help = U(e.substr(c + 1));
        r.push_back(h);
        if (j == str::npos)
            break;
        i = j + 1;
    }
    return r;
}
static str ref_help(const std::vector<hentry> &t)
{
    str r;
    for (auto &e : t)
    {
        r += e.name;
        if (e.has_help)
            r += " - " + e.help;
        r += "\r\n";
    }
    return r;
}
static toks g_pieces __attribute__((init_priority(101)));
static void *g_priv;
static void help_write(void *priv, const char *p, size_t n)
{
    g_priv = priv;
    g_pieces.push_back(str(p, n));
}
static int dummy_m(int, char **) { return 0; }
static int dummy_r(int, char **, char *, int) { return 0; }

// reference decoder of the dstring notation (independent of igris and of the model)
static bool ref_undstring(const str &e, str &out)
{
    out.clear();
    for (size_t i = 0; i < e.size(); i++)
    {
        unsigned char c = (unsigned char)e[i];
        if (c < 0x20 || c > 0x7e)
            return false; // the notation is printable ASCII only
        if (c != '\\')
        {
            out.push_back((char)c);
            continue;
        }
        if (i + 1 >= e.size())
            return false;
        char k = e[++i];
        if (k == 'n') out.push_back('\n');
        else if (k == 't') out.push_back('\t');
        else if (k == '\\') out.push_back('\\');
        else if (k == 'x')
        {
            if (i + 2 >= e.size())
                return false;
            int h = hexval(e[i + 1]), l = hexval(e[i + 2]);
            if (h < 0 || l < 0)
                return false;
            out.push_back((char)(h * 16 + l));
            i += 2;
        }
        else
            return false;
    }
    return true;
}

template <size_t N> static size_t ctor_size(bool is_const, const str &a)
{
    char *m = (char *)malloc(N); // exactly sized
    memcpy(m, a.data(), N);
    size_t r = is_const ? igris::buffer(*(const char(*)[N])m).size() : igris::buffer(*(char(*)[N])m).size();
    free(m);
    return r;
}

bool run_op2(const std::vector<std::string> &w, out &o)
{
    const std::string &op = w[0];
    if (op == "pabs" || op == "psimple" || op == "pdd")
    {
        str text = U(w[1]), p = upto_nul(text);
        xbuf b(cz(text));
        int r = op == "pabs" ? path_is_abs(b.p) : op == "psimple" ? path_is_simple(b.p) : path_is_double_dot(b.p);
        o.result = r ? "1" : "0";
        bool want = op == "pabs" ? (!p.empty() && p[0] == '/') : op == "psimple" ? p.find('/') == str::npos : p.substr(0, p.find('/')) == "..";
        if ((r != 0) != want)
            o.fail(op + " " + o.result + " != " + (want ? "1" : "0"));
        if (r != 0 && r != 1)
            o.fail(op + " returns something else than 0/1");
        if (p.empty()) o.tag("path-empty");
        o.tag(r ? (op + "-yes").c_str() : (op + "-no").c_str());
        if (op == "pdd" && !p.empty() && p[0] == '.' && !r) o.tag("pdd-dot-but-not-dotdot");
        return true;
    }
    if (op == "plast" || op == "plastu")
    {
        // plast: judged by the routine's own separator ('\\');
        // plastu: judged by the separator of every other helper of pathops.h ('/')
        str text = U(w[1]), p = upto_nul(text);
        xbuf b(cz(text));
        const char *r = path_last_node(b.p);
        o.result = std::to_string(r - b.p);
        char sep = op == "plast" ? '\\' : '/';
        size_t k = p.rfind(sep);
        size_t want = k == str::npos ? 0 : k + 1;
        if (r < b.p || r > b.p + p.size())
            o.fail("path_last_node points outside the path");
        else if ((size_t)(r - b.p) != want)
            o.fail("path_last_node " + o.result + " != offset behind the last '" + str(1, sep) + "' " + std::to_string(want));
        if (p.empty()) o.tag("path-empty");
        else if (k == str::npos) o.tag("plast-no-separator");
        else if (k + 1 == p.size()) o.tag("plast-trailing-separator");
        else if (k == 0) o.tag("plast-separator-first");
        else o.tag("plast-inner");
        return true;
    }
    if (op == "pnext0")
    {
        str text = U(w[1]), p = upto_nul(text);
        xbuf b(cz(text));
        const char *r = path_next(b.p, NULL);
        o.result = r ? std::to_string(r - b.p) : "null";
        size_t wp = first_real(p, 0);
        str want = wp == p.size() ? "null" : std::to_string(wp);
        if (o.result != want)
            o.fail("path_next(path, NULL) " + o.result + " != first real component " + want);
        o.tag(r ? "pnext0-found" : "pnext0-null");
        return true;
    }
    if (op == "lenfirst")
    {
        str text = U(w[1]), p = upto_nul(text);
        xbuf b(cz(text));
        ptrdiff_t r = argvc_length_of_first(b.p);
        o.result = std::to_string(r);
        size_t k = p.find(' ');
        if ((size_t)r != (k == str::npos ? p.size() : k))
            o.fail("argvc_length_of_first != length of the run in front of the first space");
        o.tag(k == str::npos ? "lenfirst-to-end" : k == 0 ? "lenfirst-zero" : "lenfirst-word");
        return true;
    }
    if (op == "cskip" || op == "cskipws")
    {
        str s = U(w[1]), sy = op == "cskip" ? U(w[2]) : str("\t\n\r ");
        xbuf b(s), z(cz(sy));
        struct creader rd;
        creader_init(&rd, b.p, b.n);
        int n = op == "cskip" ? creader_skip(&rd, z.p) : creader_skipws(&rd);
        o.result = std::to_string(n) + " " + std::to_string(creader_curpos(&rd));
        str set = upto_nul(sy);
        size_t k = set.empty() ? 0 : s.find_first_not_of(set);
        if (k == str::npos)
            k = s.size();
        if (set.empty())
            k = 0;
        if ((size_t)n != k || creader_curpos(&rd) != k)
            o.fail("creader_skip " + o.result + " != length of the leading run of the symbols " + std::to_string(k));
        // (round 3b: judged through creader_curpos, the fields of struct creader are not named)
        if (creader_curpos(&rd) < s.size() && set.find(s[creader_curpos(&rd)]) != str::npos)
            o.fail("creader_skip stops in front of a symbol");
        if (s.empty()) o.tag("cskip-empty");
        else if (k == s.size()) o.tag("cskip-to-end");
        else if (k == 0) o.tag("cskip-nothing");
        else o.tag("cskip-some");
        if (set.empty()) o.tag("cskip-no-symbols");
        if (k < s.size() && s[k] == 0) o.tag("cskip-stops-at-nul");
        return true;
    }
    if (op == "beq")
    {
        str a = U(w[1]), b = U(w[2]);
        xbuf xa(a), xb(b);
        const igris::buffer ba = xa.buf(), bb = xb.buf();
        bool eq = ba == bb, ne = ba != bb;
        o.result = str(eq ? "1" : "0") + " " + (ne ? "1" : "0");
        if (eq != (a == b))
            o.fail(str("buffer == is ") + (eq ? "true" : "false") + " for " + (a == b ? "equal" : "different") + " contents");
        if (ne == eq)
            o.fail("buffer != is not the negation of ==");
        if (a.size() != b.size()) o.tag("beq-size-differs");
        else if (a.empty()) o.tag("beq-both-empty");
        else if (a == b) o.tag("beq-equal");
        else if (upto_nul(a) == upto_nul(b) && upto_nul(a).size() < a.size()) o.tag("beq-differ-behind-nul");
        else o.tag("beq-differ");
        return true;
    }
    if (op == "beqz")
    {
        str a = U(w[1]), t = U(w[2]), z = upto_nul(t);
        xbuf xa(a), xz(cz(t));
        igris::buffer ba = xa.buf();
        bool eq = ba == (const char *)xz.p, ne = ba != (const char *)xz.p;
        o.result = str(eq ? "1" : "0") + " " + (ne ? "1" : "0");
        if (eq != (a == z))
            o.fail(str("buffer == const char* is ") + (eq ? "true" : "false") + " for " + (a == z ? "equal" : "different") + " contents");
        if (ne == eq)
            o.fail("buffer != const char* is not the negation of ==");
        if (a == z) o.tag("beqz-equal");
        else if (z.size() > a.size() && z.compare(0, a.size(), a) == 0) o.tag("beqz-buffer-is-proper-prefix");
        else if (a.find('\0') != str::npos) o.tag("beqz-nul-in-buffer");
        else o.tag("beqz-differ");
        return true;
    }
    if (op == "bufctor")
    {
        // which constructor takes an array: const char[N] -> buffer(const char*),
        // char[N] -> the array template (size N).  Correspondence only.
        bool c = w[1] == "c";
        str a = U(w[2]);
        size_t r = 0;
        switch (a.size())
        {
        case 1: r = ctor_size<1>(c, a); break;
        case 2: r = ctor_size<2>(c, a); break;
        case 3: r = ctor_size<3>(c, a); break;
        case 4: r = ctor_size<4>(c, a); break;
        case 5: r = ctor_size<5>(c, a); break;
        case 6: r = ctor_size<6>(c, a); break;
        default: o.result = "bad-op"; return true;
        }
        o.result = std::to_string(r);
        if (igris::buffer("abc").size() != 3)
            o.fail("buffer(\"abc\").size() != 3");
        o.tag(c ? "bufctor-const-array" : "bufctor-mutable-array");
        if (!c && r != upto_nul(a).size()) o.tag("bufctor-counts-behind-text");
        return true;
    }
    if (op == "dstr")
    {
        str s = U(w[1]);
        xbuf b(s);
        str got_h = igris::dstring((const void *)b.p, b.n);  // util/dstring.h
        const bool cpp_copy = c19_dstring_cpp_present();     // string.cpp: undeclared copy, optional (weak)
        str got = cpp_copy ? c19_dstring_cpp(b.p, b.n) : got_h;
        str got_s = cpp_copy ? c19_dstring_cpp_str(s) : igris::dstring(s);
        if (!cpp_copy) o.tag("dstr-cpp-copy-absent");
        str got_b = igris::dstring(b.buf());
        o.result = H(got);
        if (got_h != got || got_s != got || got_b != got)
            o.fail("the dstring overloads of string.cpp and util/dstring.h disagree");
        // reference size: exactly the bytes bytes_to_dstring may write
        {
            xbuf ob(got.size() + 1, 0xA5);
            int n = bytes_to_dstring(ob.p, b.p, b.n);
            if (n != (int)got.size() || ob.get() != cz(got))
                o.fail("bytes_to_dstring disagrees with dstring");
        }
        str back;
        if (!ref_undstring(got, back))
            o.fail("dstring output " + H(got) + " is not in the notation (printable ASCII, \\n \\t \\\\ \\xHH)");
        else if (back != s)
            o.fail("dstring output " + H(got) + " reads back as " + H(back) + ", not as the input (notation ambiguous)");
        if (s.empty()) o.tag("dstr-empty");
        if (s.find('\\') != str::npos) o.tag("dstr-backslash");
        if (s.find('\n') != str::npos || s.find('\t') != str::npos) o.tag("dstr-nl-tab");
        for (unsigned char c : s)
            if (c >= 0x80) { o.tag("dstr-high-byte"); break; }
        for (unsigned char c : s)
            if (c < 0x20 && c != '\n' && c != '\t') { o.tag("dstr-control"); break; }
        if (s.find('\x7f') != str::npos) o.tag("dstr-del");
        return true;
    }
    if (op == "mhelp" || op == "mhelpt")
    {
        std::vector<std::vector<hentry>> tables;
        for (size_t i = 1; i < w.size(); i++)
            tables.push_back(help_table(w[i]));
        names_keeper nk;
        std::vector<xbuf *> tb;
        for (auto &t : tables)
        {
            xbuf *x = new xbuf((t.size() + 1) * sizeof(mshell_command), 0);
            mshell_command *c = (mshell_command *)x->p;
            for (size_t i = 0; i < t.size(); i++)
            {
                c[i].name = nk.add(t[i].name);
                c[i].func = dummy_m;
                c[i].help = t[i].has_help ? nk.add(t[i].help) : 0;
            }
            tb.push_back(x);
        }
        xbuf tp((tables.size() + 1) * sizeof(void *), 0);
        for (size_t t = 0; t < tables.size(); t++)
            ((const mshell_command **)tp.p)[t] = (const mshell_command *)tb[t]->p;
        g_pieces.clear();
        g_priv = 0;
        int cookie;
        if (op == "mhelp")
            mshell_help((const mshell_command *)tb[0]->p, help_write, &cookie);
        else
            mshell_tables_help((const mshell_command *const *)tp.p, help_write, &cookie);
        o.result = fmt_toks(g_pieces);
        str all, want;
        for (auto &p : g_pieces)
            all += p;
        for (auto &t : tables)
            want += ref_help(t);
        if (all != want)
            o.fail("help text " + H(all) + " != " + H(want));
        if (!g_pieces.empty() && g_priv != &cookie)
            o.fail("privdata not passed to write");
        for (auto x : tb)
            delete x;
        o.tag(want.empty() ? "help-empty" : "help-text");
        return true;
    }
    if (op == "rhelp" || op == "rhelpt")
    {
        int ansmax = atoi(w[1].c_str());
        std::vector<std::vector<hentry>> tables;
        for (size_t i = 2; i < w.size(); i++)
            tables.push_back(help_table(w[i]));
        names_keeper nk;
        std::vector<xbuf *> tb;
        for (auto &t : tables)
        {
            xbuf *x = new xbuf((t.size() + 1) * sizeof(rshell_command), 0);
            rshell_command *c = (rshell_command *)x->p;
            for (size_t i = 0; i < t.size(); i++)
            {
                c[i].name = nk.add(t[i].name);
                c[i].func = dummy_r;
                c[i].help = t[i].has_help ? nk.add(t[i].help) : 0;
            }
            tb.push_back(x);
        }
        xbuf tp((tables.size() + 1) * sizeof(rshell_command_table), 0);
        for (size_t t = 0; t < tables.size(); t++)
            ((rshell_command_table *)tp.p)[t].table = (const rshell_command *)tb[t]->p;
        size_t room = ansmax > 0 ? (size_t)ansmax : 0;
        xbuf ans(room, 0xA5);
        int len = op == "rhelp" ? rshell_help((const rshell_command *)tb[0]->p, ans.p, ansmax)
                                : rshell_tables_help((const rshell_command_table *)tp.p, ans.p, ansmax);
        str got = ans.get();
        o.result = std::to_string(len) + " " + H(got);
        str full;
        for (auto &t : tables)
            full += ref_help(t);
        if (ansmax <= 0)
        {
            if (len != 0)
                o.fail("no room at all but a length is returned");
            o.tag("rhelp-no-room");
        }
        else
        {
            // NUL-terminated inside the buffer, a prefix of the full text, the
            // returned length is its length, untouched behind the terminator
            size_t z = got.find('\0');
            if (z == str::npos)
                o.fail("answer not terminated inside ansmax bytes");
            else
            {
                str text = got.substr(0, z);
                if (len != (int)z)
                    o.fail("returned length " + std::to_string(len) + " != strlen(ans) " + std::to_string(z));
                if (full.compare(0, text.size(), text) != 0)
                    o.fail("answer " + H(text) + " is not a prefix of the help text " + H(full));
                // rshell_help uses all the room; the tables variant keeps one more byte free
                size_t must = std::min(full.size(), room - (op == "rhelp" ? 1 : std::min<size_t>(2, room)));
                if (text.size() < must)
                    o.fail("answer has " + std::to_string(text.size()) + " characters, " + std::to_string(must) + " fit");
                if (got.substr(z + 1) != str(room - z - 1, (char)0xA5))
                    o.fail("bytes behind the terminator were written");
                if (text.size() == full.size()) o.tag(full.size() + 1 == room ? "rhelp-exact-fit" : "rhelp-fits");
                else o.tag("rhelp-truncated");
            }
            if (ansmax == 1) o.tag("rhelp-one-byte");
        }
        for (auto x : tb)
            delete x;
        return true;
    }
    if (op == "rshv")
    {
        // rshv <dropargs> <names> <arg>...   (argc = number of args >= 1)
        int drop = atoi(w[1].c_str());
        toks names = list_arg(w[2]);
        toks args;
        for (size_t i = 3; i < w.size(); i++)
            args.push_back(U(w[i]));
        names_keeper nk;
        xbuf tb((names.size() + 1) * sizeof(rshell_command), 0);
        rshell_command *c = (rshell_command *)tb.p;
        for (size_t i = 0; i < names.size(); i++)
        {
            c[i].name = nk.add(names[i]);
            c[i].func = RH[i];
            c[i].help = 0;
        }
        xbuf av(args.size() * sizeof(char *), 0);
        for (size_t i = 0; i < args.size(); i++)
            ((char **)av.p)[i] = (char *)nk.add(args[i]);
        xbuf outb(7, 0);
        g_called = -1;
        g_argc = 0;
        g_args.clear();
        int ret = -777;
        // the handler must not read argv[i] for i >= argc - drop: rec() reads argc entries
        int rc = rshell_execute_v((int)args.size(), (char **)av.p, c, &ret, drop, outb.p, 7);
        o.result = fmt_dispatch(rc, ret);
        str want = "rc=" + std::to_string(ENOENT) + " ret=-777 call=none";
        for (size_t i = 0; i < names.size(); i++)
            if (names[i] == args[0])
            {
                want = "rc=0 ret=" + std::to_string(100 + i) + " call=" + std::to_string(i) + "/" + std::to_string((int)args.size() - drop);
                for (size_t a = drop; a < args.size(); a++)
                    want += ":" + H(args[a]);
                break;
            }
        if (o.result != want)
            o.fail("dispatch " + o.result + " != expected " + want);
        o.tag(g_called >= 0 ? "rshv-hit" : "rshv-miss");
        if (g_called >= 0 && drop) o.tag("rshv-dropargs");
        return true;
    }
    return false;
}
