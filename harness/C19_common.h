// C19 harness: text, path and command-line utilities of igris against the
// Lean model (IgrisModel/C19).
//
//   igris/util/string.{h,cpp}      split(char), split(delims), split_cmdargs, join, join<Iter>, trim
//   igris/string/replace.cpp       igris::replace
//   igris/string/replace_substrings.c, igris/string/memmem.c
//   igris/datastruct/argvc.h       argvc_internal_split, argvc_internal_split_n
//   igris/shell/mshell.c, rshell.c the four dispatchers
//   igris/util/pathops.h           path_next, path_iterate, path_compare_node, path_remove_prefix
//   igris/creader.h                creader_readline, creader_skip, creader_skipws
//   extension (round 3, see run_op2/gen2): path_is_abs/is_simple/is_double_dot/last_node, path_next(path,NULL),
//   argvc_length_of_first, igris::buffer ==/!= and constructors, dstring (string.cpp via C19_dstr.cpp, util/dstring.h,
//   util/dstring.c), mshell/rshell help routines, rshell_execute_v with the caller's argv
//
// Every buffer handed to the code is an exactly sized heap allocation (also
// the empty one: a pointer one past a 1-byte block), C strings are text+NUL in
// exactly strlen+1 bytes, so ASan reports any access outside the extent.
// The oracles are independent std::string based references.
#pragma once
#include "common/hv.h"
#include <algorithm>
#include <cerrno>
#include <functional>
#include <set>

#include <igris/util/string.h>
#include <igris/util/pathops.h>
#include <igris/creader.h>
#include <igris/util/dstring.h>
extern "C"
{
#include <igris/shell/mshell.h>
#include <igris/shell/rshell.h>
}

using namespace hv;
typedef std::string str;
typedef std::vector<std::string> toks;
bool c19_dstring_cpp_present();
std::string c19_dstring_cpp(const void *data, size_t size);
std::string c19_dstring_cpp_str(const std::string &s);

static_assert(sizeof(void *) == 8, "LP64");
static_assert((char)0x80 < 0, "char is signed");

// ------------------------------------------------------------------ buffers
// exactly sized heap copy; for n == 0 the pointer is one past a 1-byte block,
// so that even reading *p is reported (hv::exact_buf would give a valid byte)
// ---- round 3: long-lived argument buffers at FIXED addresses (op `re`)
// While g_arena is set, every xbuf / command name of a call is placed into the
// next slot of one long-lived block instead of a fresh allocation: the k-th
// buffer of every call of a case has the same address, only the contents (and
// the size) change between the calls.  The extent stays exact: everything of a
// slot outside [p, p+n) is poisoned by hand, so ASan reports an access in front
// of or behind the extent exactly as for a heap block.
#if defined(__SANITIZE_ADDRESS__)
#include <sanitizer/asan_interface.h>
#define C19_POISON(p, n) __asan_poison_memory_region((p), (n))
#define C19_UNPOISON(p, n) __asan_unpoison_memory_region((p), (n))
#else
#define C19_POISON(p, n) ((void)0)
#define C19_UNPOISON(p, n) ((void)0)
#endif
struct arena
{
    static const size_t NSLOT = 48, SLOT = 16384, RED = 64;
    char *block;
    size_t next = 0;
    arena()
    {
        block = (char *)aligned_alloc(64, NSLOT * SLOT);
        C19_POISON(block, NSLOT * SLOT);
    }
    ~arena()
    {
        C19_UNPOISON(block, NSLOT * SLOT);
        free(block);
    }
    void rewind() { next = 0; }
    // the next slot with exactly n addressable bytes, or 0 when it does not fit
    char *place(size_t n)
    {
        if (next >= NSLOT || n > SLOT - 2 * RED)
            return 0;
        char *slot = block + next++ * SLOT;
        C19_POISON(slot, SLOT);
        C19_UNPOISON(slot + RED, n);
        return slot + RED;
    }
};
inline arena *g_arena = 0; // shared by all translation units

struct xbuf
{
    char *base;
    char *p;
    size_t n;
    bool own = true;
    void alloc()
    {
        if (g_arena && (p = g_arena->place(n)))
        {
            base = 0;
            own = false;
            return;
        }
        if (n == 0)
        {
            base = (char *)malloc(1);
            p = base + 1;
        }
        else
        {
            base = (char *)malloc(n);
            p = base;
        }
    }
    explicit xbuf(const str &s) : n(s.size())
    {
        alloc();
        if (n)
            memcpy(p, s.data(), n);
    }
    xbuf(size_t size, int fill) : n(size)
    {
        alloc();
        if (n)
            memset(p, fill, n);
    }
    ~xbuf()
    {
        if (own)
            free(base);
    }
    xbuf(const xbuf &) = delete;
    str get() const { return str(p, n); }
    igris::buffer buf() const { return igris::buffer((const void *)p, n); }
};
// C string: text + NUL in exactly text.size()+1 bytes
static str cz(const str &s) { return s + str(1, '\0'); }

static str H(const str &s) { return hex(s); }
static str U(const std::string &h)
{
    auto v = unhex(h);
    return str(v.begin(), v.end());
}
static str fmt_toks(const toks &v)
{
    str r = std::to_string(v.size());
    for (auto &t : v)
        r += " " + H(t);
    return r;
}
static toks list_arg(const std::string &w) // "61,62" or "-" -> {"a","b"} / {}
{
    toks r;
    if (w == "-")
        return r;
    size_t i = 0;
    while (true)
    {
        size_t j = w.find(',', i);
        r.push_back(U(w.substr(i, j == str::npos ? j : j - i)));
        if (j == str::npos)
            break;
        i = j + 1;
    }
    return r;
}
static str upto_nul(const str &s) { return s.substr(0, s.find('\0')); }

// ---------------------------------------------------------------- references
// init_priority: constructed in front of the pre-main runner (round 3) that uses them
static const str WS_ARGV __attribute__((init_priority(101))) = str(" \r\n\t");
static const str WS_TRIM __attribute__((init_priority(101))) = str(" \n\r\t");

// maximal runs of characters not in `delims`
static toks ref_runs(const str &s, const str &delims)
{
    toks out;
    size_t i = 0;
    while ((i = s.find_first_not_of(delims, i)) != str::npos)
    {
        size_t j = s.find_first_of(delims, i);
        out.push_back(s.substr(i, j == str::npos ? j : j - i));
        if (j == str::npos)
            break;
        i = j;
    }
    return out;
}
static str ref_join(const toks &v, const str &d)
{
    str r;
    for (size_t i = 0; i < v.size(); i++)
    {
        if (i)
            r += d;
        r += v[i];
    }
    return r;
}
static str ref_trim(const str &s)
{
    size_t a = s.find_first_not_of(WS_TRIM);
    if (a == str::npos)
        return "";
    size_t b = s.find_last_not_of(WS_TRIM);
    return s.substr(a, b - a + 1);
}
static str ref_replace(const str &s, const str &o, const str &n)
{
    if (o.empty())
        return s;
    str r;
    size_t i = 0;
    while (true)
    {
        size_t j = s.find(o, i);
        if (j == str::npos)
            break;
        r += s.substr(i, j - i);
        r += n;
        i = j + o.size();
    }
    r += s.substr(i);
    return r;
}
static toks ref_cmdargs(const str &s)
{
    toks out;
    size_t i = 0;
    while ((i = s.find_first_not_of(' ', i)) != str::npos)
    {
        if (s[i] == '"' || s[i] == '\'')
        {
            size_t j = s.find(s[i], i + 1);
            if (j == str::npos)
            {
                out.push_back(s.substr(i + 1));
                break;
            }
            out.push_back(s.substr(i + 1, j - i - 1));
            i = j + 1;
        }
        else
        {
            size_t j = s.find(' ', i);
            out.push_back(s.substr(i, j == str::npos ? j : j - i));
            if (j == str::npos)
                break;
            i = j;
        }
    }
    return out;
}
static toks take(const toks &v, size_t n) { return toks(v.begin(), v.begin() + std::min(n, v.size())); }

// paths, component-wise
struct comp
{
    size_t pos;
    str s;
};
static std::vector<comp> raw_comps(const str &p) // split on '/', always >= 1 piece
{
    std::vector<comp> r;
    size_t i = 0;
    while (true)
    {
        size_t j = p.find('/', i);
        r.push_back({i, p.substr(i, j == str::npos ? j : j - i)});
        if (j == str::npos)
            break;
        i = j + 1;
    }
    return r;
}
static bool real(const comp &c) { return !c.s.empty() && c.s != "."; }
static toks real_comps(const str &p)
{
    toks r;
    for (auto &c : raw_comps(p))
        if (real(c))
            r.push_back(c.s);
    return r;
}
// position of the first real component with raw index >= k, or p.size()
static size_t first_real(const str &p, size_t k, size_t *len = 0)
{
    auto cs = raw_comps(p);
    for (size_t i = k; i < cs.size(); i++)
        if (real(cs[i]))
        {
            if (len)
                *len = cs[i].s.size();
            return cs[i].pos;
        }
    return p.size();
}
// nodes as path_iterate walks them: a leading '/' is a node of its own (""),
// a relative path starts with its first raw component whatever it is,
// afterwards only real components
static std::vector<comp> nodes(const str &p)
{
    std::vector<comp> r;
    if (p.empty())
        return r;
    auto cs = raw_comps(p);
    r.push_back(cs[0]);
    for (size_t i = 1; i < cs.size(); i++)
        if (real(cs[i]))
            r.push_back(cs[i]);
    return r;
}
static int ref_cmp(const str &a, const str &b)
{
    str ca = a.substr(0, a.find('/')), cb = b.substr(0, b.find('/'));
    std::vector<signed char> va(ca.begin(), ca.end()), vb(cb.begin(), cb.end());
    if (va == vb)
        return 0;
    return std::lexicographical_compare(va.begin(), va.end(), vb.begin(), vb.end()) ? -1 : 1;
}

// ---------------------------------------------------------------- shell glue
static int g_called, g_argc, g_max;
static toks g_args __attribute__((init_priority(101)));
static char *g_out;
static void rec(int k, int argc, char **argv)
{
    g_called = k;
    g_argc = argc;
    for (int i = 0; i < argc; i++)
        g_args.push_back(argv[i]);
}
template <int K> static int mh(int argc, char **argv)
{
    rec(K, argc, argv);
    return 100 + K;
}
template <int K> static int rh(int argc, char **argv, char *out, int maxsize)
{
    rec(K, argc, argv);
    g_out = out;
    g_max = maxsize;
    return 100 + K;
}
typedef int (*mfn)(int, char **);
typedef int (*rfn)(int, char **, char *, int);
static mfn MH[12] = {mh<0>, mh<1>, mh<2>, mh<3>, mh<4>, mh<5>, mh<6>, mh<7>, mh<8>, mh<9>, mh<10>, mh<11>};
static rfn RH[12] = {rh<0>, rh<1>, rh<2>, rh<3>, rh<4>, rh<5>, rh<6>, rh<7>, rh<8>, rh<9>, rh<10>, rh<11>};

struct names_keeper
{
    std::vector<char *> ptrs;
    const char *add(const str &s)
    {
        char *p = g_arena ? g_arena->place(s.size() + 1) : 0;
        bool own = !p;
        if (own)
            p = (char *)malloc(s.size() + 1);
        memcpy(p, s.data(), s.size());
        p[s.size()] = 0;
        if (own)
            ptrs.push_back(p);
        return p;
    }
    ~names_keeper()
    {
        for (auto p : ptrs)
            free(p);
    }
};

static str fmt_dispatch(int rc, int ret)
{
    str r = "rc=" + std::to_string(rc) + " ret=" + std::to_string(ret) + " call=";
    if (g_called < 0)
        return r + "none";
    r += std::to_string(g_called) + "/" + std::to_string(g_argc);
    for (auto &a : g_args)
        r += ":" + H(a);
    return r;
}

// expected dispatch: tables[t] = names; handler index = 4*t + i; drop[t]
static str ref_dispatch(const str &text, const std::vector<toks> &tables, const std::vector<int> &drop, int rc_blank)
{
    toks tk = take(ref_runs(upto_nul(text), WS_ARGV), 10);
    if (tk.empty())
        return "rc=" + std::to_string(rc_blank) + " ret=-777 call=none";
    for (size_t t = 0; t < tables.size(); t++)
        for (size_t i = 0; i < tables[t].size(); i++)
            if (tables[t][i] == tk[0])
            {
                int k = (int)(4 * t + i);
                int argc = (int)tk.size() - drop[t];
                str r = "rc=0 ret=" + std::to_string(100 + k) + " call=" + std::to_string(k) + "/" + std::to_string(argc);
                for (size_t a = drop[t]; a < tk.size(); a++)
                    r += ":" + H(tk[a]);
                return r;
            }
    return "rc=" + std::to_string(ENOENT) + " ret=-777 call=none";
}

// ---------------------------------------------------------------- run
static uint32_t fnv(const str &s)
{
    uint32_t h = 2166136261u;
    for (unsigned char c : s)
        h = (h ^ c) * 16777619u;
    return h;
}
static str digest(const str &s) { return std::to_string(s.size()) + " " + hexn(fnv(s), 8); }
static void add_tags(out &o, const out &sub)
{
    size_t i = 0;
    while (i < sub.tags.size())
    {
        size_t j = sub.tags.find(',', i);
        str t = sub.tags.substr(i, j == str::npos ? j : j - i);
        if (("," + o.tags + ",").find("," + t + ",") == str::npos)
            o.tag(t.c_str());
        if (j == str::npos)
            break;
        i = j + 1;
    }
}

// ---- calls BEFORE main(): an object with init_priority runs a fixed list of ops from its
// constructor (the references it needs are constructed with a smaller priority number in
// front of it) and keeps the result lines; `premain <k> <op>` reports them later.
static const char *const PREMAIN[] = {
    "splitc 2061206220 20", "splitd 612c623b63 2c3b", "cmdargs 612022622063222064", "trim 20096120620d0a", "join 2c 61 62 63",
    "joinf 2c20 5b 5d 61 62", "memmem 6162616263 6263", "replace 6161626161 6161 63", "rsub 5 61626162 62 6363", "argv 206120620963 2",
    "argvn 6120622063 3", "msh 2062206120 61,62", "msht 6220 61 62", "rsh 6120622063 1 61", "rsht 6220 0:61 1:62",
    "pnext 2f2e2f612f62", "piter 2f612f2f62", "pcmp 612f 62", "prem 2f612f62 2f61", "creader 610d0a620a63",
    "cskipws 20090a61", "lenfirst 616220", "pabs 2f61", "psimple 6162", "pdd 2e2e2f", "plast 615c62", "pnext0 2e2f61", "beq 6162 6162",
    "beqz 6162 6162", "dstr 5c0a80", "mhelp 61:68", "rhelp 9 61:68", "rhelpt 9 61:68", "rshv 0 61 61 62"};
static const size_t NPREMAIN = sizeof(PREMAIN) / sizeof(PREMAIN[0]);
// ---- round 3b: nothing but the public API is named.  The type behind path_next's length pointer is taken
// from the function's own signature (the property does not fix its width: `unsigned` today); its width
// is reported by `consts` as a TAG, the compared field only says "at least the 32 bits the model assumes".
template <class R, class A, class L> static L c19_pointee(R (*)(A, L *));
typedef decltype(c19_pointee(&path_next)) plen_t;
// ---- the translation units of the harness (compiled in parallel by bin/check, see checks/C19.json "sources")
//   C19.cpp      run_op: the ops of the first rounds, main
//   C19_ext.cpp  run_op2: the ops of the extension (path predicates, buffer ==, dstring, help, rshell_execute_v)
//   C19_r3.cpp   run_op3: re / long / premain / consts / rsubip, the pre-main runner
//   C19_gen.cpp  gen: the generator
void run_op(const std::vector<std::string> &w, const std::string &, out &o);
bool run_op2(const std::vector<std::string> &w, out &o);
bool run_op3(const std::vector<std::string> &w, out &o);
void gen(rng &r, const std::string &tier);
inline bool g_in_main = false; // constant-initialised: false while the pre-main runner works
