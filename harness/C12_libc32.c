/* C12: the WITHOUT_ATOF64 build flavour of the repo's C sources, compiled a SECOND time under private
 * names (prefix igv32_), so that both flavours of igris_strtod / igris_ftoa / compat strtod / atof
 * live in one harness binary:
 *   - igris/util/numconvert.c with -DWITHOUT_ATOF64: igris_strtod -> igris_atof32,
 *     igris_ftoa(float32_t) -> igris_f32toa
 *   - compat/libc/stdlib/strtod.c with -DWITHOUT_ATOF64: strtod / atof -> igris_atof32
 * Every external function of numconvert.c that exists today is renamed; see the note on
 * --allow-multiple-definition below for functions added later.                          */
#include <stdlib.h>
#define WITHOUT_ATOF64 1

#define igris_i64toa igv32_i64toa
#define igris_i32toa igv32_i32toa
#define igris_i16toa igv32_i16toa
#define igris_i8toa igv32_i8toa
#define igris_u64toa igv32_u64toa
#define igris_u32toa igv32_u32toa
#define igris_u16toa igv32_u16toa
#define igris_u8toa igv32_u8toa
#define igris_atou32 igv32_atou32
#define igris_atou64 igv32_atou64
#define igris_atou16 igv32_atou16
#define igris_atou8 igv32_atou8
#define igris_atoi32 igv32_atoi32
#define igris_atoi64 igv32_atoi64
#define igris_atoi16 igv32_atoi16
#define igris_atoi8 igv32_atoi8
#define igris_f32toa igv32_f32toa
#define igris_atof32 igv32_atof32
#define igris_f64toa igv32_f64toa
#define igris_atof64 igv32_atof64
#define igris_strtod igv32_igris_strtod
#define igris_ftoa igv32_igris_ftoa

/* ROUND 3b (fragility): no prototypes of internal functions here (with WITHOUT_ATOF64 the header does not declare
 * igris_atof64 / igris_f64toa, numconvert.c still defines them: a definition without a prototype is fine in C), and the
 * harness is linked with -Wl,--allow-multiple-definition (checks/C12.json "ldflags"): an external function that is
 * ADDED to numconvert.c later exists in both flavours under one name - the linker keeps the first (identical) copy
 * instead of failing. */

#include <igris/util/numconvert.c>

/* what the flavour's entry points are bound to, readable by the harness (op `sz`) */
int igv32_sizeof_ftoa_arg(void) { return (int)sizeof(float32_t); }

#define strtod igv32_strtod
#define atof igv32_atof
#include <compat/libc/stdlib/strtod.c>
