// C06 harness, declarations shared by its translation units (round 3b: harness/C06.cpp was one unit of 1 900
// lines whose compilation under ASan+UBSan took half of the quick tier's wall time; it is now
//   harness/C06.cpp         run side: the ops, the oracles, the pre-main calls, main()
//   harness/C06_gen.cpp     the generator
//   harness/C06_shared.cpp  the variadic shim / dispatch, the ISO classifier, argument helpers
//   harness/C06_consts.c    constants of printf_impl.c (optional, see there)
// compiled in parallel by bin/check).
#pragma once
#include "common/hv.h"
#include <cstdarg>
#include <sys/wait.h>
#include <climits>
#include <memory>
#include <algorithm>
#include <igris/util/printf_impl.h>

static_assert(sizeof(long) == 8 && sizeof(void *) == 8 && sizeof(int) == 4, "LP64 assumed");
static_assert((char)0x80 < 0, "char signed assumed");

extern "C" int igv_vsprintf(char *s, const char *format, va_list ap);
extern "C" int igv_sprintf(char *buf, const char *format, ...);
extern "C" int vfdprintf(int fd, const char *format, va_list args);
extern "C" int fdprintf(int fd, const char *format, ...);
extern "C" int igv_snprintf(char *buf, size_t maxlen, const char *format, ...);
#ifndef C06_NO_VSNPRINTF
extern "C" int igv_vsnprintf(char *buf, size_t maxlen, const char *format, va_list ap);
#endif

extern "C" int c06c_print_i_buff_sz(void);
extern "C" const char *c06c_null_str(void);
extern "C" unsigned long c06c_null_str_size(void);
extern "C" unsigned c06c_ops(int i);
extern "C" unsigned long c06c_sizeof_ret(void);
extern "C" unsigned long c06c_n_size(int i);

using namespace hv;
typedef std::vector<uint8_t> bytes;

// ---------------------------------------------------------------- arguments
struct Arg
{
    char kind; // i l p s u n
    long long v = 0;
    bytes s;
    exact_buf *buf = nullptr;
};

bool parse_arg(const std::string &w, Arg &a);

// ---------------------------------------------------------------- the shim
struct Sink
{
    bytes out;
    long calls = 0;
};
void sink_cb(void *d, int c);

enum Which
{
    W_PRINTF,
    W_VSPRINTF,
    W_FD,
    W_GLIBC,
    W_SPRINTF,
    W_SNPRINTF,
    W_FDPRINTF,
    W_VSNPRINTF
};
struct Call
{
    Which which;
    Sink *sink;
    char *buf;
    size_t bufsz;
};

static const size_t MAXARGS = 6;
// builds the variadic call with the right C types, argument by argument (C06_shared.cpp)
int dispatch(Call *c, const char *fmt, const std::vector<Arg> &args, size_t i);

extern bytes g_fd_out;
extern long g_fd_limit;

// ---------------------------------------------------------------- ISO classifier
// An independent, deliberately plain parser of the directive grammar: decides
// whether ISO C defines the behaviour (so that glibc is a valid oracle) and
// extracts what the %p oracle needs.
struct Dir
{
    bool minus = false, plus = false, space = false, hash = false, zero = false;
    int width_kind = 0; // 0 none 1 literal 2 star
    long width = 0;
    int prec_kind = 0;
    bool prec_written = false; // a '.' appears in the directive (even if `*` then gives a negative value)
    long prec = 0;
    std::string len;
    char conv = 0;
    int argi = -1; // index of the value argument
    size_t pos = 0; // index of the conversion character in the format
    size_t start = 0; // index of the directive's '%'
};
struct Parsed
{
    bool defined = true; // ISO defines the behaviour, arguments fit
    bool has_p = false, has_lit_wp = false;
    bool wide = false;        // %lc / %ls with a wide argument (ISO defines it, the Lean spec leaves it out)
    bool has_n = false;       // a %n directive
    bool lit_overflow = false; // a literal width/precision beyond INT_MAX: atoi overflows (undefined in C)
    bool lit_runnable = true;  // ... and what host atoi makes of it, (int)strtol, is small enough to run
    std::vector<Dir> dirs;
    std::string why;
    std::string need; // kinds of the arguments the format consumes, in order
};

Parsed classify(const bytes &f, const std::vector<Arg> &args);

// calls made BEFORE main() (run side) and announced by the generator
static const char *const PREMAIN[] = {
    "sp 25647c2535737c252378 i:-42 s:6162 i:255",    // %d|%5s|%#x
    "sn 4 256c6c64 l:123456789",                       // %lld into 4 bytes
    "fd -1 25632563252520252d33647c i:65 i:0 i:7",     // %c%c%% %-3d|
    "spv 3c25703e p:1234",                             // <%p>
    "pn 61253034646225686e i:7 N:0",                   // a%04db%hn
};
static const int NPREMAIN = (int)(sizeof PREMAIN / sizeof PREMAIN[0]);

std::string arg_str(const Arg &a);
bytes B(const std::string &s);
Arg AI(long long v);
Arg AL(long long v);
Arg AP(unsigned long long v);
Arg AS(const bytes &s, bool term);
unsigned long long conv_u(const Dir &d, long long v);
std::string finding_key(const Parsed &P, const std::vector<Arg> &args);
std::string former_finding_class(const Parsed &P, const std::vector<Arg> &args);
void gen(rng &r, const std::string &tier);
