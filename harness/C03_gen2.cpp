// C03 harness, generator part 2: extension rounds (gen_ext, gen_lifetime, gen_round3, gen_round3b).
#include "C03_gen.h"

// ---- extension: ring_for_each with a body, size 1, copy/move of the typed ring,
// the slot-lifetime counters, ring_counter at the edges of int
void gen_ext(rng &r, bool th)
{
    // (a) ring_for_each reading the slots: every (size, head, tail) state
    unsigned salt = 0;
    for (unsigned size = 2; size <= (th ? 12u : 9u); size++)
        for (unsigned h = 0; h < size; h++)
            for (unsigned t = 0; t < size; t++)
            {
                reach(size, h, t, salt++);
                P("eachv");
                P("each");
                P("read " + S(size));
                P("eachv");
            }
    // (b) a ring of size 1 (capacity 0: always empty and full)
    P("reset ring 1 1");
    for (const char *op : {"putc ff", "getc", "write 0102", "read 3", "each", "eachv", "mh 0", "mt 0", "mh 1", "mt 1", "mh1", "mt1",
                           "mh 5", "clean", "fix 0", "fix -1", "fix 7", "putc 00", "getc", "dump"})
        P(op);
    // (c) random histories with for_each after every few operations; bulk writes that exactly fill
    for (int rep = 0; rep < (th ? 6 : 1); rep++)
        for (unsigned size : {2u, 3u, 4u, 5u, 7u, 8u, 9u, 16u, 17u, 33u, 64u, 100u})
        {
            P("reset ring " + S(size) + " " + S(size));
            unsigned cnt = 0, cap = size - 1;
            for (int k = 0; k < (th ? 300 : 120); k++)
            {
                unsigned y = (unsigned)r.below(100);
                unsigned room = cap - cnt;
                if (y < 20) { P("putc " + rhex(r, 1)); if (cnt < cap) cnt++; }
                else if (y < 30) { P("write " + rhex(r, room)); cnt = cap; }                  // exactly fills
                else if (y < 40) { unsigned n = (unsigned)r.range(0, room + 2); P("write " + rhex(r, n)); cnt += std::min(n, room); }
                else if (y < 55) { P("getc"); if (cnt) cnt--; }
                else if (y < 65) { P("read " + S(cnt)); cnt = 0; }                            // exactly drains
                else if (y < 75) { unsigned n = (unsigned)r.range(0, cnt + 2); P("read " + S(n)); cnt -= std::min(n, cnt); }
                else if (y < 80 && room) { unsigned n = (unsigned)r.range(1, room); P("prod " + rhex(r, n)); cnt += n; }
                else if (y < 85 && cnt) { unsigned n = (unsigned)r.range(1, cnt); P("cons " + S(n)); cnt -= n; }
                else P("eachv");
            }
            P("eachv");
            P("read " + S(size));
        }
    // (d) igris::ring<int>: copy construction / assignment / move at every (head, fill)
    for (int n = 1; n <= (th ? 8 : 5); n++)
    {
        int size = n + 1;
        for (int h = 0; h < size; h++)
            for (int fill = 0; fill <= n; fill++)
                for (const char *op : {"copy", "assign", "move"})
                {
                    int t = ((h - fill) % size + size) % size;
                    P("reset typed " + S(n));
                    for (int i = 0; i < t; i++) { P("push " + S(-i - 1)); P("pop"); }
                    for (int i = 0; i < fill; i++) P("push " + S(100 + i));
                    P(op);
                    if (fill) { P("last"); P("tail"); P("getlast 0 " + S(fill) + " 0"); }
                    if (fill < n) P("push 777");
                    for (int i = 0; i < fill + (fill < n ? 1 : 0); i++) { P("tail"); P("pop"); }
                    // resize drops the content: the ring is empty with the new capacity
                    P("push 5");
                    P("resize " + S(n + 2));
                    P("push 6");
                    P("tail");
                    P("last");
                }
    }
    for (int rep = 0; rep < (th ? 6 : 1); rep++)
        for (int n : {1, 2, 3, 5, 8, 16, 17, 100})
        {
            P("reset typed " + S(n));
            int cnt = 0, v = 1;
            for (int k = 0; k < (th ? 300 : 120); k++)
            {
                unsigned y = (unsigned)r.below(100);
                if (y < 40) { if (cnt < n) { P("push " + S(v++)); cnt++; } }
                else if (y < 65) { if (cnt) { P("pop"); cnt--; } }
                else if (y < 72) P("copy");
                else if (y < 79) P("assign");
                else if (y < 86) P("move");
                else if (y < 92) { if (cnt) P("last"); }
                else if (y < 98) { if (cnt) P("tail"); }
                else { P("resize " + S(n)); cnt = 0; }
            }
            P("clear");
        }
    // (e) slot lifetime of ring<Tracked>: every contract-respecting push/pop script up to a
    // length on rings of 1..3 elements, then random scripts with clear/resize/copy/move
    for (int n = 1; n <= 3; n++)
    {
        int maxlen = th ? 9 : 7;
        std::vector<std::pair<std::string, int>> cur = {{"", 0}};
        P("lifecount " + S(n) + " -");
        for (int len = 1; len <= maxlen; len++)
        {
            std::vector<std::pair<std::string, int>> nxt;
            for (auto &p : cur)
            {
                if (p.second < n) nxt.push_back({p.first + "u", p.second + 1});
                if (p.second > 0) nxt.push_back({p.first + "o", p.second - 1});
            }
            for (auto &p : nxt) P("lifecount " + S(n) + " " + p.first);
            cur = nxt;
        }
    }
    for (int n : {1, 2, 3, 4, 5, 8, 16})
        for (int rep = 0; rep < (th ? 40 : 8); rep++)
        {
            std::string sc;
            int cnt = 0, len = (int)r.range(1, 4 * n + 10);
            for (int k = 0; k < len; k++)
            {
                unsigned y = (unsigned)r.below(100);
                if (y < 45) { if (cnt < n) { sc += 'u'; cnt++; } }
                else if (y < 80) { if (cnt) { sc += 'o'; cnt--; } }
                else if (y < 85) { sc += 'c'; cnt = 0; }
                else if (y < 89) { sc += 'z'; cnt = 0; }
                else if (y < 95) sc += 'y';
                else sc += 'm';
            }
            P("lifecount " + S(n) + " " + (sc.empty() ? "-" : sc));
        }
    // (f) ring_counter: negative i, results below 0, the edges of int (all inside the
    // precondition "counter +- argument fits an int")
    for (int n : {1, 2, 3, 7, 8})
    {
        P("reset rc " + S(n));
        for (int c = 0; c < n; c++)
        {
            P("set " + S(c));
            for (int i = -2 * n - 1; i < 0; i++) { P("prev " + S(i)); P("last " + S(i)); }
        }
        P("set 0");
        P("inc -1");
        P("get");
        P("prev 0");
        P("last 0");
        P("inc 1");
        P("inc -" + S(n + 2));
        P("last 1");
        P("set 0");
    }
    for (long long n : {2147483647ll, 2147483646ll, 1073741824ll, 65536ll})
    {
        P("reset rc " + S(n));
        P("set " + S(n - 1));
        P("prev 0");
        P("prev " + S(n - 1));
        P("last -1");
        P("inc " + S(2147483647ll - (n - 1))); // counter + arg == INT_MAX exactly
        P("get");
        P("set 2147483647");
        P("get");
        P("set 5");
        P("prev 2147483647");
        P("last 2147483647");
        P("last -2147483642"); // counter - no == INT_MAX
        P("fixpos -2147483648");
        P("fixpos 2147483647");
        P("inc -2147483648");
        P("get");
        P("set 0");
    }
}

// element lifetime in unbounded_array / ring / cyclic_buffer (oracle-only)
void gen_lifetime()
{
    P("reset rc 1");
    for (int a : {0, 1, 3, 8})
    {
        P("lifeprobe array " + S(a));
        P("lifeprobe arrmisc " + S(a));
        P("lifeprobe arrview " + S(a));
        P("lifeprobe copy " + S(a));
        P("lifeprobe selfassign " + S(a));
        for (int b : {0, 1, 5})
        {
            P("lifeprobe resize " + S(a) + " " + S(b));
            P("lifeprobe assign " + S(a) + " " + S(b));
            P("lifeprobe ringctor " + S(a) + " " + S(b));
            if (a) P("lifeprobe cyc " + S(a) + " " + S(b));
        }
    }
    // repaired in round 3 (5bfd4f6, fcfbb44; was finding C03-ring-element-lifetime): igris::ring<T>
    // placement-constructed over the live element the array constructed and pop() destroyed an element
    // the array destroyed again
    for (int n : {1, 3, 8})
    {
        P("lifeprobe push " + S(n) + " " + S(n));
        P("lifeprobe pushpop " + S(n) + " " + S(2 * n + 1));
    }
}


// ---- round 3 ---------------------------------------------------------------
// every history of depth `depth` on ONE ring of `size` slots over the alphabet putc, getc,
// ring_write of 0..room+1 bytes, ring_read of 0..avail+1 bytes (lengths beyond room+1 / avail+1 take the
// same path as room+1 / avail+1); typed: push / tail+pop inside the contract, write, read
static void gen_hist_rec(const std::string &head, unsigned cap, int depth, unsigned cnt, const std::string &sc, bool typed)
{
    if (depth == 0) { P(head + " " + sc); return; }
    std::string pre = sc.empty() ? "" : sc + ",";
    unsigned room = cap - cnt;
    if (!typed || cnt < cap) gen_hist_rec(head, cap, depth - 1, cnt < cap ? cnt + 1 : cnt, pre + (typed ? "u" : "p"), typed);
    if (!typed || cnt > 0) gen_hist_rec(head, cap, depth - 1, cnt ? cnt - 1 : 0, pre + (typed ? "o" : "g"), typed);
    for (unsigned n = 0; n <= room + 1; n++) gen_hist_rec(head, cap, depth - 1, cnt + std::min(n, room), pre + "w" + S(n), typed);
    for (unsigned n = 0; n <= cnt + 1; n++) gen_hist_rec(head, cap, depth - 1, cnt - std::min(n, cnt), pre + "r" + S(n), typed);
}

void gen_round3(rng &r, bool th)
{
    // (a) constants of the build, calls before main()
    P("reset widths");
    P("reset premain");
    // (b) interleavings of bulk and single operations on one object, exhaustive
    for (unsigned size = 1; size <= 4; size++) gen_hist_rec("reset hist " + S(size), size - 1, 5, 0, "", false);
    for (unsigned n = 1; n <= 3; n++) gen_hist_rec("reset histt " + S(n), n, th ? 5 : 4, 0, "", true);
    // (c) long inputs (oracle only): > 300 KiB through one ring_write / ring_read, wrapping; more than the room
    P("reset longrun 400003 307200");
    P("reset longrun 65536 307200");
    P("reset longrun 307201 307200");
    // (d) boundary sizes 65535 / 65536 / 65537 with the head next to the wrap point
    for (unsigned size : {65535u, 65536u, 65537u})
    {
        P("reset ring " + S(size) + " " + S(size));
        P("mh " + S(size - 3)); P("mt " + S(size - 3));
        P("write " + rhex(r, 7)); P("putc ff"); P("read 3"); P("getc"); P("fix -1"); P("fix " + S(size));
        P("prod " + rhex(r, 5)); P("cons 4"); P("mh " + S(size - 20)); P("putc 00"); P("mt " + S(size - 9)); P("read 9"); P("getc");
    }
    for (int n : {65534, 65535, 65536})
    {
        P("reset typed " + S(n));
        for (int i = 0; i < 4; i++) { P("push " + S(i + 1)); P("last"); }
        P("setlast " + S(n - 1)); P("mt1"); P("mt1"); P("mt1"); P("mt1"); P("push 7"); P("push 8"); P("last"); P("getlast 0 2 1");
        P("fixup -1"); P("fixup " + S(n + 1)); P("distance 0 " + S(n)); P("pop"); P("tail");
    }
    // (d1) pop / push with the tail and head passing 256 resp. 65536 on a FULL ring of visible content
    // (an index held in a narrower type than unsigned int addresses a stored slot)
    for (auto nw : {std::make_pair(299, 256), std::make_pair(65536, 65536), std::make_pair(65535, 65535)})
    {
        int n = nw.first, W = nw.second;
        P("reset typed " + S(n));
        P("fillbuf");
        P("setlast " + S(W - 8));   // head = W - 7
        P("settail " + S(W - 6));   // full
        for (int i = 0; i < 10; i++) { P("tail"); P("pop"); P("push " + S(7000 + i)); P("last"); }
        for (int i = 0; i < 4; i++) { P("tail"); P("pop"); }
        P("getlast 0 5 1");
    }
    // (d2) a default-constructed ring comes to life through resize()
    for (int n : {0, 1, 3, 8})
    {
        P("reset tempty");
        P("resize " + S(n));
        for (int i = 0; i < n; i++) P("push " + S(10 + i));
        P("last"); P("tail"); P("fixup -1"); P("distance 0 " + S(n)); P("getlast 0 " + S(n) + " 1");
        if (n) { P("pop"); P("tail"); P("push 77"); P("last"); }
        P("moveback " + S(n + 1));
        P("push 5"); P("last"); P("tail"); P("pop");
        P("moveback 0"); P("last");
    }
    // (d3) igris::ring<char>: every member function of the second instantiation, mixed with read/write
    for (int rep = 0; rep < (th ? 6 : 1); rep++)
        for (int n0 : {1, 2, 3, 7, 8, 16})
        {
            int n = n0, cnt = 0;
            P("reset tchar " + S(n));
            for (int k = 0; k < (th ? 300 : 120); k++)
            {
                int size = n + 1;
                unsigned y = (unsigned)r.below(100);
                if (y < 18) { if (cnt < n) { P(std::string(r.chance(50) ? "push " : "emplace ") + S((int)r.range(-128, 127))); cnt++; } }
                else if (y < 32) { if (cnt > 0) { P("pop"); cnt--; } }
                else if (y < 42) { int m = (int)r.range(0, n - cnt + 1); P("write " + rhex(r, m)); cnt += std::min(m, n - cnt); }
                else if (y < 52) { int m = (int)r.range(0, cnt + 1); P("read " + S(m)); cnt -= std::min(m, cnt); }
                else if (y < 57) P("last");
                else if (y < 62) P("tail");
                else if (y < 70) { int off = (int)r.range(0, cnt), c = (int)r.range(0, cnt - off); P("getlast " + S(off) + " " + S(c) + " " + S((int)r.below(2))); }
                else if (y < 75) P("fixup " + S((int)r.range(-3 * size, 3 * size)));
                else if (y < 80) P("distance " + S(r.below(size)) + " " + S(r.below(size)));
                else if (y < 83) P("get " + S(r.below(size)));
                else if (y < 86) P("headplace");
                else if (y < 88) { P("clear"); cnt = 0; }
                else if (y < 90) { P("rst"); cnt = 0; }
                else if (y < 92) { n = (int)r.range(1, 20); P("resize " + S(n)); cnt = 0; }
                else if (y < 94) { P("setlast " + S((int)r.range(-1, size - 1))); P("clear"); cnt = 0; }
                else if (y < 96) { P("mh1"); P("clear"); cnt = 0; }
                else if (y < 98) { P("mt1"); P("clear"); cnt = 0; }
                else { P(r.chance(50) ? "copy" : r.chance(50) ? "assign" : "move"); }
            }
            P("read " + S(n + 1));
        }
    // (e) the argument of push() aliasing the head slot, at every (head, fill < n) of rings 1..4
    for (int n = 1; n <= 4; n++)
        for (int h = 0; h <= n; h++)
            for (int fill = 0; fill < n; fill++)
            {
                int size = n + 1, t = ((h - fill) % size + size) % size;
                P("reset typed " + S(n));
                for (int i = 0; i < t; i++) { P("push " + S(-i - 1)); P("pop"); }
                for (int i = 0; i < fill; i++) P("push " + S(100 + i));
                P("pushalias");
                P("last");
                for (int i = 0; i <= fill; i++) { P("tail"); P("pop"); }
            }
    // (f) lifetime of ring<Tracked> under ANY push/pop sequence (contract or not) and the aliasing push
    for (int n = 1; n <= 2; n++)
    {
        int maxlen = th ? 7 : 6;
        std::vector<std::pair<std::string, int>> cur = {{"", 0}};
        for (int len = 1; len <= maxlen; len++)
        {
            std::vector<std::pair<std::string, int>> nxt;
            for (auto &p : cur)
            {
                nxt.push_back({p.first + (p.second < n ? "u" : "U"), p.second < n ? p.second + 1 : 0});
                nxt.push_back({p.first + (p.second > 0 ? "o" : "O"), p.second > 0 ? p.second - 1 : n});
                nxt.push_back({p.first + "a", p.second < n ? p.second + 1 : 0});
            }
            if (len == maxlen) for (auto &p : nxt) P("lifecount " + S(n) + " " + p.first);
            cur = nxt;
        }
    }
    for (int n : {1, 2, 3, 5, 8})
        for (int rep = 0; rep < (th ? 40 : 8); rep++)
        {
            std::string sc;
            int len = (int)r.range(1, 4 * n + 10);
            int cnt = 0;
            for (int k = 0; k < len; k++)
            {
                unsigned y = (unsigned)r.below(100);
                if (y < 35) { sc += cnt < n ? 'u' : 'U'; cnt = cnt < n ? cnt + 1 : 0; }
                else if (y < 65) { sc += cnt > 0 ? 'o' : 'O'; cnt = cnt > 0 ? cnt - 1 : n; }
                else if (y < 75) { sc += 'a'; cnt = cnt < n ? cnt + 1 : 0; }
                else if (y < 80) { sc += 'c'; cnt = 0; }
                else if (y < 86) { sc += 'z'; cnt = 0; }
                else if (y < 91) sc += 'y';
                else if (y < 96) sc += 'g';
                else sc += 'm';
            }
            P("lifecount " + S(n) + " " + sc);
        }
    for (const char *sc : {"g", "ug", "ugouga", "guog", "Ug", "Og", "ygm", "zgcg", "M", "uMuo", "uMgMy", "UOMa"})
        for (int n : {1, 2, 3}) P("lifecount " + S(n) + " " + sc);
    P("lifecount 3 uuugooog");
    // (g) cyclic_buffer[i] for negative i down to the boundary counter - size + 1 (admissible: counter - i < size)
    for (int n = 1; n <= 6; n++)
    {
        P("reset cyc " + S(n));
        for (int k = 0; k <= 2 * n; k++)
        {
            int counter = k % n;
            for (int i = counter - n + 1; i < 0; i++) P("at " + S(i));
            P("at 0");
            P("push " + S(500 + k));
        }
    }
    // ---- probes of recorded findings (objects / arguments outside the property's quantifier) ----
    // igris::ring<T>::push / pop do not reject on full / empty
    for (int n : {1, 3, 8})
    {
        P("reset typed " + S(n));
        for (int i = 0; i < n; i++) P("push " + S(i + 1));
        P("@F:C03-typed-ring-no-reject pushfull 99");
        P("reset typed " + S(n));
        P("push 1"); P("pop");
        P("@F:C03-typed-ring-no-reject popempty");
    }
    if (getenv("C03_NO_CRASH_PROBES")) { P("reset rc 1"); return; } // bin/cov: an aborting process writes no coverage data
    // cyclic_buffer[i] at i == counter - size: ring_counter_prev returns size, data[size] is outside
    P("reset cyc 3");
    P("@F:C03-cyclic-index-below-range at -3");
    P("reset cyc 4");
    P("push 1");
    P("@F:C03-cyclic-index-below-range at -3");
    // size 0 (ring_init(r, 0), default-constructed igris::ring): division by zero, null store, endless loop
    P("@F:C03-ring-size-zero reset sizezero fix");
    P("@F:C03-ring-size-zero reset sizezero tlast");
    P("@F:C03-ring-size-zero reset sizezero tpush");
    if (th) P("@F:C03-ring-size-zero reset sizezero mh");
    // a moved-from igris::ring keeps r.size and has no storage
    P("@F:C03-moved-from-ring-use reset movedpush 3");
    P("reset rc 1");
}

// ---- round 3b ---------------------------------------------------------------
// a stateless one-line op as a case of its own (replay granularity = the line)
static void PL(const std::string &s) { P("reset rc 1"); P(s); }
void gen_round3b(rng &r, bool th)
{
    // (a) `lifeviol`: ring<Tracked>(n) under ANY sequence over push / pop (contract or not), push(head_place()),
    // emplace(head_place()) [e] and a push whose copy constructor throws [x]; the five ledger counters are
    // compared with the model, the oracle judges values (FIFO; strong guarantee of the throwing push)
    for (int n = 1; n <= 2; n++)
    {
        int maxlen = th ? 6 : 5;
        std::vector<std::string> cur = {""};
        for (int len = 1; len <= maxlen; len++)
        {
            std::vector<std::string> nxt;
            for (auto &p : cur)
                for (char c : {'U', 'O', 'a', 'e', 'x'}) nxt.push_back(p + c);
            for (auto &p : nxt)
                if (len == maxlen || p.back() == 'e' || p.back() == 'x') PL("lifeviol " + S(n) + " " + p);
            cur = nxt;
        }
    }
    for (int n : {1, 2, 3, 5, 8, 300})
        for (int rep = 0; rep < (th ? 40 : 8); rep++)
        {
            std::string sc;
            int len = (int)r.range(1, 30);
            for (int k = 0; k < len; k++)
            {
                unsigned y = (unsigned)r.below(100);
                sc += y < 25 ? 'U' : y < 45 ? 'O' : y < 55 ? 'a' : y < 67 ? 'e' : y < 80 ? 'x' : y < 84 ? 'c' : y < 88 ? 'z'
                      : y < 92 ? 'y' : y < 96 ? 'g' : 'm';
            }
            PL("lifeviol " + S(n) + " " + sc);
        }
    // the same two events as probes of the recorded findings (lifetime clause of `lifecount`)
    for (const char *sc : {"e", "ue", "uoe"}) PL(std::string("@F:C03-emplace-alias-head-slot lifecount 2 ") + sc);
    // repaired in round 3b (6d59c1e; was shown as a VIOLATION by `lifecount 1 x`): a push whose copy constructor
    // throws left the head slot without an object.  Now part of the strict lifetime stream: every sequence over
    // push / pop (contract or not), aliasing push and throwing push of length 5 [6] on rings 1..2, random scripts
    for (const char *sc : {"x", "ux", "uxu", "xx", "uxo", "xuo", "X", "uX", "XxX", "uXo", "XuoX"}) for (int n : {1, 2, 3}) if (n > 1 || std::string(sc) != "uxu") PL("lifecount " + S(n) + " " + sc);
    for (int n = 1; n <= 2; n++)
    {
        int maxlen = th ? 6 : 5;
        std::vector<std::pair<std::string, int>> cur = {{"", 0}};
        for (int len = 1; len <= maxlen; len++)
        {
            std::vector<std::pair<std::string, int>> nxt;
            for (auto &p : cur)
            {
                nxt.push_back({p.first + (p.second < n ? "u" : "U"), p.second < n ? p.second + 1 : 0});
                nxt.push_back({p.first + (p.second > 0 ? "o" : "O"), p.second > 0 ? p.second - 1 : n});
                nxt.push_back({p.first + "a", p.second < n ? p.second + 1 : 0});
                nxt.push_back({p.first + "x", p.second});
            }
            if (len == maxlen) for (auto &p : nxt) if (p.first.find('x') != std::string::npos) PL("lifecount " + S(n) + " " + p.first);
            cur = nxt;
        }
    }
    for (int n : {1, 2, 3, 5, 8})
        for (int rep = 0; rep < (th ? 40 : 8); rep++)
        {
            std::string sc;
            int len = (int)r.range(1, 4 * n + 10);
            for (int k = 0; k < len; k++)
            {
                unsigned y = (unsigned)r.below(100);
                sc += y < 25 ? 'U' : y < 45 ? 'O' : y < 55 ? 'a' : y < 70 ? 'x' : y < 80 ? 'X' : y < 84 ? 'c' : y < 88 ? 'z' : y < 92 ? 'y' : y < 96 ? 'g' : 'm';
            }
            PL("lifecount " + S(n) + " " + sc);
        }
    // (b) `arr`: unbounded_array<Tracked>(n) under fill / clear / self-assignment / assignment / resize /
    // begin-end: every token sequence up to length 3 [4] on arrays of 0, 1, 3 elements, random longer ones
    const std::vector<std::string> toks = {"f5", "c", "s", "g2", "g0", "z3", "z0", "b"};
    for (int n : {0, 1, 3})
    {
        int maxlen = th ? 4 : 3;
        std::vector<std::string> cur = {""};
        for (int len = 1; len <= maxlen; len++)
        {
            std::vector<std::string> nxt;
            for (auto &p : cur)
                for (auto &t : toks) nxt.push_back(p.empty() ? t : p + "," + t);
            for (auto &p : nxt) PL("arr " + S(n) + " " + p);
            cur = nxt;
        }
    }
    for (int n : {2, 7, 255, 256, 257, 1000})
        for (int rep = 0; rep < (th ? 12 : 3); rep++)
        {
            std::string sc;
            int len = (int)r.range(1, 8);
            for (int k = 0; k < len; k++)
            {
                unsigned y = (unsigned)r.below(100);
                std::string t = y < 30 ? "f" + S(r.range(0, 99)) : y < 40 ? "c" : y < 55 ? "s" : y < 70 ? "g" + S(r.pick(std::vector<int>{0, 1, 2, n, n + 1, 300}))
                                : y < 85 ? "z" + S(r.pick(std::vector<int>{0, 1, n - 1, n, n + 1, 256})) : "b";
                sc += (k ? "," : "") + t;
            }
            PL("arr " + S(n) + " " + sc);
        }
    // (c) igris::ring<char>::write / read with a size_t request of 2^32 + k (repaired ab63e64: the request was
    // truncated to k): every (head, fill) of rings 1..4 [6] x k in {0, 1, room-1, room, room+1, size}; the source
    // holds size + 1 bytes, more than any ring of that size can take
    for (int n = 1; n <= (th ? 6 : 4); n++)
        for (int head = 0; head <= n; head++)
            for (int fill = 0; fill <= n; fill++)
                for (int which = 0; which < 2; which++)
                {
                    int room = n - fill;
                    std::vector<int> ks = {0, 1, room - 1, room, room + 1, n + 1};
                    if (which) ks = {0, 1, fill - 1, fill, fill + 1, n + 1};
                    std::sort(ks.begin(), ks.end());
                    ks.erase(std::unique(ks.begin(), ks.end()), ks.end());
                    for (int k : ks)
                    {
                        if (k < 0) continue;
                        P("reset tchar " + S(n));
                        for (int i = 0; i < head; i++) { P("push 1"); P("pop"); }
                        for (int i = 0; i < fill; i++) P("push " + S((int)(signed char)SPECIAL[(i + head) % 7]));
                        if (!which)
                        {
                            std::vector<uint8_t> d((size_t)n + 2);
                            for (size_t i = 0; i < d.size(); i++) d[i] = SPECIAL[(i + 3 + k) % 7];
                            P("writebig " + S(k) + " " + hex(d));
                            P("read " + S(n + 1));
                        }
                        else
                        {
                            P("readbig " + S(k));
                            P("write ff00");
                            P("readbig " + S(k));
                        }
                    }
                }
    for (int n : {255, 256, 300})
    {
        P("reset tchar " + S(n));
        std::vector<uint8_t> d((size_t)n + 2);
        for (auto &x : d) x = (uint8_t)r.below(256);
        P("writebig 5 " + hex(d));
        P("readbig 7");
        P("writebig 0 " + hex(d));
        P("readbig 4294967295");
    }
    P("reset rc 1");
}
