// C01: second translation unit, compiled as C (gnu11: the macros in their native `typeof` form) and
// optimised at -O2 (the main harness TU is C++ at -O1): the single-evaluation contract of the
// container_of macros and the static initialisers must hold here as well.
#pragma GCC optimize("O2")
#define MM_CAT_(a, b) a##b
#define MM_CAT(a, b) MM_CAT_(a, b)
#define MM_FN c01_mm_o2
#include "C01_macros.inc"

// a C list that is initialised statically (DLIST_HEAD / SLIST_HEAD) in this TU and used before main()
// by the init_priority(101) object of the C++ TU
DLIST_HEAD(c01_pm_head);
struct dlist_head c01_pm_nodes[3] = {DLIST_HEAD_INIT(c01_pm_nodes[0]), DLIST_HEAD_INIT(c01_pm_nodes[1]), DLIST_HEAD_INIT(c01_pm_nodes[2])};
SLIST_HEAD(c01_pm_shead);
struct slist_head c01_pm_snodes[2] = {SLIST_HEAD_INIT(c01_pm_snodes[0]), SLIST_HEAD_INIT(c01_pm_snodes[1])};

// widths as the C compiler sees them
int c01_o2_widths(char *buf, int cap)
{
    struct dlist_head h;
    return snprintf(buf, cap, "%zu %zu %zu %zu %zu %zu", sizeof(dlist_size(&h)), sizeof(slist_size((struct slist_head *)0)), sizeof(struct dlist_head),
                    sizeof(struct slist_head), sizeof(struct hlist_node), sizeof(struct hlist_head));
}
