// C10: what the two halves of the harness (C10.cpp = run, C10_gen.cpp = gen) share
#pragma once
#include <cstddef>
// (sizeof(T), alignof(T), Capacity) of the static_object_pool instantiations
#define C10_SOPK_LIST(X) \
    X(1, 1, 1) X(1, 1, 5) X(4, 4, 2) X(8, 8, 7) X(12, 4, 3) X(12, 4, 33) X(24, 8, 1) X(24, 8, 6) X(40, 8, 9) X(32, 32, 4) X(48, 16, 5) \
    X(64, 8, 33) X(2, 2, 16) X(16, 16, 8) X(96, 32, 3) X(7, 1, 10)
// size of the static arena `_heap_start` (the default heap of lin_malloc.cpp)
static const size_t STATIC_ARENA = 1u << 20;

#include <string>
#include <vector>
#include <cstdint>
static inline std::string s(long long v) { return std::to_string(v); }
static inline std::string su(size_t v) { return std::to_string((unsigned long long)v); }
static inline uint8_t pat(uint64_t seed, size_t i) { return (uint8_t)(((seed * 0x9E37u + i * 131u) % 251u) + 1u); }
namespace hv { struct out; }
// the heap half (C10_heap.cpp)
namespace c10
{
bool heap_active();                                                  // a `reset heap` case is running
void heap_drop();                                                    // forget it (every `reset`)
void heap_early_op(hv::out &o);                                      // op `early`
void heap_reset_op(const std::vector<std::string> &w, hv::out &o);   // `reset heap ...` / `reset crit ...`
void heap_op(const std::vector<std::string> &w, hv::out &o);         // every op of a heap case
}

// the static_object_pool half (C10_sop.cpp)
#include <set>
#include <functional>
extern std::set<const void *> sop_objs; // ledger: objects alive
extern std::string sop_err;
extern long sop_ctor_runs, sop_dtor_runs;
extern const void *sop_last_ctor, *sop_last_dtor;
struct SopBase
{
    virtual ~SopBase() {}
    virtual void *create() = 0;
    virtual int create_throw() = 0; // create(args) whose constructor throws: 0 = nullptr came back, 1 = the exception propagated, 2 = an object came back
    virtual void destroy(void *) = 0;
    virtual size_t avail() = 0;
    virtual char *base() = 0;
    virtual size_t storage() = 0;
    virtual size_t cap() = 0;
    virtual size_t szT() = 0;
    virtual size_t alT() = 0;
    virtual bool intact(void *) = 0;
    virtual void engage(void *zone, size_t ncells) = 0; // through freelist()
};
struct SopKind
{
    size_t sz, al, cap;
    std::function<SopBase *()> mk;
};
extern const std::vector<SopKind> sop_kinds;
