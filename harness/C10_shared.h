// C10: what the two halves of the harness (C10.cpp = run, C10_gen.cpp = gen) share
#pragma once
#include <cstddef>
// (sizeof(T), alignof(T), Capacity) of the static_object_pool instantiations
#define C10_SOPK_LIST(X) \
    X(1, 1, 1) X(1, 1, 5) X(4, 4, 2) X(8, 8, 7) X(12, 4, 3) X(12, 4, 33) X(24, 8, 1) X(24, 8, 6) X(40, 8, 9) X(32, 32, 4) X(48, 16, 5) \
    X(64, 8, 33) X(2, 2, 16) X(16, 16, 8) X(96, 32, 3) X(7, 1, 10)
// size of the static arena `_heap_start` (the default heap of lin_malloc.cpp)
static const size_t STATIC_ARENA = 1u << 20;

#include <string>
#include <vector>
#include <cstdint>
static inline std::string s(long long v) { return std::to_string(v); }
static inline std::string su(size_t v) { return std::to_string((unsigned long long)v); }
static inline uint8_t pat(uint64_t seed, size_t i) { return (uint8_t)(((seed * 0x9E37u + i * 131u) % 251u) + 1u); }
namespace hv { struct out; }
// the heap half (C10_heap.cpp)
namespace c10
{
bool heap_active();                                                  // a `reset heap` case is running
void heap_drop();                                                    // forget it (every `reset`)
void heap_early_op(hv::out &o);                                      // op `early`
void heap_reset_op(const std::vector<std::string> &w, hv::out &o);   // `reset heap ...` / `reset crit ...`
void heap_op(const std::vector<std::string> &w, hv::out &o);         // every op of a heap case
}
