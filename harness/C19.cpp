// C19 harness, translation unit 1: the ops of the first rounds and main (see C19_common.h)
#include "C19_common.h"
static void run_argv(bool bounded, const str &text, int argcmax, out &o, bool judge_term = false)
{
    // data: bounded -> exactly the bytes; terminated -> text + NUL
    str data = bounded ? text : cz(text);
    xbuf b(data);
    xbuf av((size_t)argcmax * sizeof(char *), 0x5a);
    char **argv = (char **)av.p;
    int argc = bounded ? argvc_internal_split_n(b.p, (int)b.n, argv, argcmax) : argvc_internal_split(b.p, argv, argcmax);
    str after = b.get();
    str r = std::to_string(argc);
    toks got;
    bool ptr_ok = true;
    for (int i = 0; i < argc && i < argcmax; i++)
    {
        if (argv[i] < b.p || argv[i] > b.p + b.n)
        {
            ptr_ok = false;
            break;
        }
        size_t off = argv[i] - b.p;
        str t = upto_nul(after.substr(off)); // C string, bounded by the extent
        got.push_back(t);
        r += " " + std::to_string(off) + ":" + H(t);
    }
    r += " |" + H(after);
    o.result = r;
    if (!ptr_ok)
        o.fail("argv entry outside the buffer");
    if (argc < 0 || argc > argcmax)
        o.fail("argc " + std::to_string(argc) + " > argcmax " + std::to_string(argcmax));
    // white space: " \r\n\t"; the terminated variant stops at the first NUL, the
    // bounded variant cannot hold a NUL inside a C-string token: NUL separates
    // argvnz (probe of the recorded finding): the bounded variant judged as "the safe
    // variant of argvc_internal_split": white-space runs of the line up to its terminator
    toks want = bounded && !judge_term ? ref_runs(text, WS_ARGV + str(1, '\0')) : ref_runs(upto_nul(text), WS_ARGV);
    bool truncated = want.size() > (size_t)argcmax;
    want = take(want, argcmax);
    if (got != want)
        o.fail("tokens " + fmt_toks(got) + " != first argcmax white-space runs " + fmt_toks(want));
    // the only bytes changed are separators turned into NUL
    for (size_t i = 0; i < data.size(); i++)
        if (after[i] != data[i] && !(after[i] == 0 && WS_ARGV.find(data[i]) != str::npos))
            o.fail("byte " + std::to_string(i) + " of the line changed to something else than a terminator over white space");
    if (want.empty()) o.tag(text.empty() ? "argv-empty" : "argv-blank");
    if (truncated) o.tag("argv-more-than-max");
    if ((int)want.size() == argcmax && !truncated && argcmax > 0) o.tag("argv-exactly-max");
    if (bounded && !text.empty() && WS_ARGV.find(text.back()) == str::npos && text.back() != 0 && !want.empty() && !truncated) o.tag("argvn-token-at-end");
    if (!text.empty() && WS_ARGV.find(text.back()) != str::npos) o.tag("argv-trailing-ws");
    if (argcmax == 0) o.tag("argcmax0");
}

static void run_msh(bool multi, const std::vector<std::string> &w, out &o)
{
    str text = U(w[1]);
    std::vector<toks> tables;
    for (size_t i = 2; i < w.size(); i++)
        tables.push_back(list_arg(w[i]));
    if (!multi && tables.empty())
        tables.push_back({});
    names_keeper nk;
    std::vector<xbuf *> tb;
    for (size_t t = 0; t < tables.size(); t++)
    {
        xbuf *x = new xbuf((tables[t].size() + 1) * sizeof(mshell_command), 0);
        mshell_command *c = (mshell_command *)x->p;
        for (size_t i = 0; i < tables[t].size(); i++)
        {
            c[i].name = nk.add(tables[t][i]);
            c[i].func = MH[4 * t + i];
            c[i].help = 0;
        }
        tb.push_back(x);
    }
    xbuf tp((tables.size() + 1) * sizeof(void *), 0);
    for (size_t t = 0; t < tables.size(); t++)
        ((const mshell_command **)tp.p)[t] = (const mshell_command *)tb[t]->p;
    xbuf line(cz(text));
    g_called = -1;
    g_argc = 0;
    g_args.clear();
    int ret = -777;
    int rc = multi ? mshell_tables_execute(line.p, (const mshell_command *const *)tp.p, &ret)
                   : mshell_execute(line.p, (const mshell_command *)tb[0]->p, &ret);
    o.result = fmt_dispatch(rc, ret);
    str want = ref_dispatch(text, tables, std::vector<int>(tables.size(), 0), ENOENT);
    if (o.result != want)
        o.fail("dispatch " + o.result + " != expected " + want);
    for (auto x : tb)
        delete x;
    toks tk = ref_runs(upto_nul(text), WS_ARGV);
    if (tk.empty()) o.tag(upto_nul(text).empty() ? "sh-empty-line" : "sh-blank-line");
    else if (g_called >= 0) o.tag(g_called >= 4 ? "sh-hit-later-table" : "sh-hit");
    else o.tag("sh-miss");
    if (tk.size() > 10) o.tag("sh-more-than-10-args");
}

static void run_rsh(bool multi, const std::vector<std::string> &w, out &o)
{
    // rsh <text> <drop> <names>      rsht <text> <drop>:<names> ...
    str text = U(w[1]);
    std::vector<toks> tables;
    std::vector<int> drop;
    if (!multi)
    {
        drop.push_back(atoi(w[2].c_str()));
        tables.push_back(list_arg(w.size() > 3 ? w[3] : "-"));
    }
    else
        for (size_t i = 2; i < w.size(); i++)
        {
            size_t c = w[i].find(':');
            drop.push_back(atoi(w[i].substr(0, c).c_str()));
            tables.push_back(list_arg(w[i].substr(c + 1)));
        }
    names_keeper nk;
    std::vector<xbuf *> tb;
    for (size_t t = 0; t < tables.size(); t++)
    {
        xbuf *x = new xbuf((tables[t].size() + 1) * sizeof(rshell_command), 0);
        rshell_command *c = (rshell_command *)x->p;
        for (size_t i = 0; i < tables[t].size(); i++)
        {
            c[i].name = nk.add(tables[t][i]);
            c[i].func = RH[4 * t + i];
            c[i].help = 0;
        }
        tb.push_back(x);
    }
    xbuf tp((tables.size() + 1) * sizeof(rshell_command_table), 0);
    for (size_t t = 0; t < tables.size(); t++)
    {
        ((rshell_command_table *)tp.p)[t].table = (const rshell_command *)tb[t]->p;
        ((rshell_command_table *)tp.p)[t].dropargs = drop[t];
    }
    xbuf line(cz(text));
    xbuf outb(7, 0);
    g_called = -1;
    g_argc = 0;
    g_args.clear();
    g_out = 0;
    g_max = -1;
    int ret = -777;
    int rc = multi ? rshell_tables_execute(line.p, (const rshell_command_table *)tp.p, &ret, outb.p, 7)
                   : rshell_execute(line.p, (const rshell_command *)tb[0]->p, &ret, drop[0], outb.p, 7);
    o.result = fmt_dispatch(rc, ret);
    str want = ref_dispatch(text, tables, drop, 0);
    if (o.result != want)
        o.fail("dispatch " + o.result + " != expected " + want);
    if (g_called >= 0 && (g_out != outb.p || g_max != 7))
        o.fail("output buffer / maxsize not passed through to the handler");
    for (auto x : tb)
        delete x;
    toks tk = ref_runs(upto_nul(text), WS_ARGV);
    if (tk.empty()) o.tag(upto_nul(text).empty() ? "sh-empty-line" : "sh-blank-line");
    else if (g_called >= 0) o.tag(g_called >= 4 ? "sh-hit-later-table" : "sh-hit");
    else o.tag("sh-miss");
    if (g_called >= 0 && drop[g_called / 4]) o.tag("sh-dropargs");
}

void run_op(const std::vector<std::string> &w, const std::string &, out &o)
{
    if (run_op3(w, o))
        return;
    if (run_op2(w, o))
        return;
    const std::string &op = w[0];
    if (op == "reset")
    {
        o.result = "ok";
        return;
    }
    if (op == "splitc" || op == "splitd")
    {
        str s = U(w[1]), d = U(w[2]);
        xbuf b(s);
        toks got;
        if (op == "splitc")
            got = igris::split(b.buf(), d[0]);
        else
        {
            xbuf dz(cz(d));
            got = igris::split(b.buf(), (const char *)dz.p);
        }
        o.result = fmt_toks(got);
        toks want = ref_runs(s, d);
        if (got != want)
            o.fail("split " + fmt_toks(got) + " != maximal runs of non-delimiters " + fmt_toks(want));
        // inverse law on the implementation: split(join(tokens)) == tokens
        if (!got.empty())
        {
            str j = igris::join(got, d[0]);
            xbuf jb(j);
            toks again = op == "splitc" ? igris::split(jb.buf(), d[0]) : igris::split(jb.buf(), cz(d).c_str());
            if (again != got && s.find('\0') == str::npos)
                o.fail("split(join(split(s))) != split(s)");
        }
        if (s.empty()) o.tag("split-empty");
        else if (want.empty()) o.tag("split-all-delims");
        else
        {
            if (d.find(s.back()) != str::npos) o.tag("split-trailing-delim");
            else o.tag("split-token-at-end");
            if (d.find(s[0]) != str::npos) o.tag("split-leading-delim");
            if (want.size() > 1) o.tag("split-multi");
        }
        if (s.find('\0') != str::npos) o.tag("split-nul-in-buffer");
        return;
    }
    if (op == "join")
    {
        str d = U(w[1]);
        toks v;
        for (size_t i = 2; i < w.size(); i++)
            v.push_back(U(w[i]));
        // round 3: the vector and its strings are long-lived objects whose contents are rewritten
        static toks LV;
        LV.resize(v.size());
        for (size_t i = 0; i < v.size(); i++)
            LV[i].assign(v[i]);
        str got = igris::join(LV, d[0]);
        o.result = H(got);
        if (LV != v)
            o.fail("join changed its argument");
        if (got != ref_join(v, d))
            o.fail("join != intercalate");
        bool clean = !v.empty();
        for (auto &t : v)
            if (t.empty() || t.find(d[0]) != str::npos)
                clean = false;
        if (clean)
        {
            xbuf jb(got);
            if (igris::split(jb.buf(), d[0]) != v)
                o.fail("split(join(tokens)) != tokens for delimiter-free non-empty tokens");
            o.tag("join-clean");
        }
        if (v.empty()) o.tag("join-empty-list");
        if (v.size() == 1) o.tag("join-single");
        return;
    }
    if (op == "joinf")
    {
        // joinf <delim> <prefix> <postfix> tok...
        str d = U(w[1]), pre = U(w[2]), post = U(w[3]);
        toks v;
        for (size_t i = 4; i < w.size(); i++)
            v.push_back(U(w[i]));
        xbuf dz(cz(d)), prez(cz(pre)), postz(cz(post));
        static toks LV;
        LV.resize(v.size());
        for (size_t i = 0; i < v.size(); i++)
            LV[i].assign(v[i]);
        str got = igris::join(LV.begin(), LV.end(), (const char *)dz.p, (const char *)prez.p, (const char *)postz.p);
        if (LV != v)
            o.fail("join(range) changed its argument");
        o.result = H(got);
        if (got != pre + ref_join(v, d) + post)
            o.fail("join(range) != prefix + intercalate + postfix");
        if (v.empty()) o.tag("joinf-empty-range");
        else o.tag("joinf");
        return;
    }
    if (op == "trim")
    {
        str s = U(w[1]);
        xbuf b(s);
        str got = igris::trim(b.buf());
        o.result = H(got);
        if (got != ref_trim(s))
            o.fail("trim " + H(got) + " != strip " + H(ref_trim(s)));
        if (s.empty()) o.tag("trim-empty");
        else if (got.empty()) o.tag("trim-all-ws");
        else
        {
            if (WS_TRIM.find(s[0]) != str::npos) o.tag("trim-leading");
            if (WS_TRIM.find(s.back()) != str::npos) o.tag("trim-trailing");
            if (got.find_first_of(WS_TRIM) != str::npos) o.tag("trim-inner-ws-kept");
            if (got.size() == 1) o.tag("trim-single-char");
        }
        return;
    }
    if (op == "replace")
    {
        str s = U(w[1]), a = U(w[2]), b = U(w[3]);
        // std::string arguments: exactly what the API takes
        // round 3: long-lived std::string objects, contents rewritten between the calls
        static str LS, LA, LB;
        LS.assign(s);
        LA.assign(a);
        LB.assign(b);
        str got = igris::replace(LS, LA, LB);
        o.result = H(got);
        if (LS != s || LA != a || LB != b)
            o.fail("replace changed an argument");
        str want = ref_replace(s, a, b);
        if (got != want)
            o.fail("replace " + H(got) + " != leftmost non-overlapping substitution " + H(want));
        if (a.empty()) o.tag("replace-empty-pattern");
        else if (want != s || s.find(a) != str::npos) o.tag("replace-hit");
        if (!a.empty() && b.find(a) != str::npos) o.tag("replace-rep-contains-pattern");
        return;
    }
    if (op == "rsub")
    {
        size_t maxsize = strtoul(w[1].c_str(), 0, 10);
        str s = U(w[2]), a = U(w[3]), b = U(w[4]);
        xbuf in(s), sub(a), rep(b), outb(maxsize, 0xA5);
        replace_substrings(outb.p, maxsize, in.p, in.n, sub.p, sub.n, rep.p, rep.n);
        str got = outb.get();
        o.result = H(got);
        str full = ref_replace(s, a, b);
        if (maxsize > 0)
        {
            str want = full.substr(0, std::min(full.size(), maxsize - 1)) + str(1, '\0');
            want += str(maxsize - want.size(), (char)0xA5);
            if (got != want)
                o.fail("replace_substrings buffer " + H(got) + " != truncated substitution + NUL " + H(want));
            if (full.size() + 1 > maxsize) o.tag("rsub-truncated");
            else if (full.size() + 1 == maxsize) o.tag("rsub-exact-fit");
            else o.tag("rsub-fits");
        }
        else
            o.tag("rsub-maxsize0");
        if (a.empty()) o.tag("rsub-empty-pattern");
        return;
    }
    if (op == "memmem")
    {
        str l = U(w[1]), s = U(w[2]);
        xbuf lb(l), sb(s);
        char *r = (char *)igris_memmem(lb.p, lb.n, sb.p, sb.n);
        o.result = r ? std::to_string(r - lb.p) : "none";
        // first occurrence; by the routine's own convention ("we need
        // something to compare") an empty needle is never found
        size_t want = s.empty() ? str::npos : l.find(s);
        if (want == str::npos ? r != 0 : (r == 0 || (size_t)(r - lb.p) != want))
            o.fail("memmem " + o.result + " != first occurrence " + (want == str::npos ? str("none") : std::to_string(want)));
        if (s.empty()) o.tag("memmem-empty-needle");
        else if (l.size() < s.size()) o.tag("memmem-needle-longer");
        else if (want == str::npos) o.tag("memmem-miss");
        else if (want + s.size() == l.size()) o.tag("memmem-hit-at-end");
        else o.tag("memmem-hit");
        if (s.size() == 1) o.tag("memmem-single");
        if (want != str::npos && l.find(s, want + 1) != str::npos) o.tag("memmem-several");
        return;
    }
    if (op == "cmdargs")
    {
        str s = U(w[1]);
        xbuf b(s);
        toks got = igris::split_cmdargs(b.buf());
        o.result = fmt_toks(got);
        toks want = ref_cmdargs(s);
        if (got != want)
            o.fail("split_cmdargs " + fmt_toks(got) + " != reference " + fmt_toks(want));
        if (s.empty()) o.tag("cmd-empty");
        else if (want.empty()) o.tag("cmd-blank");
        if (s.find('"') != str::npos) o.tag("cmd-quote");
        if (std::count(s.begin(), s.end(), '"') % 2) o.tag("cmd-unclosed-quote");
        if (!s.empty() && s.back() == '"') o.tag("cmd-quote-at-end");
        if (!s.empty() && s.back() == ' ') o.tag("cmd-trailing-space");
        return;
    }
    if (op == "argvn" || op == "argv" || op == "argvnz")
    {
        run_argv(op != "argv", U(w[1]), atoi(w[2].c_str()), o, op == "argvnz");
        return;
    }
    if (op == "msh" || op == "msht")
    {
        run_msh(op == "msht", w, o);
        return;
    }
    if (op == "rsh" || op == "rsht")
    {
        run_rsh(op == "rsht", w, o);
        return;
    }
    if (op == "pnext")
    {
        str text = U(w[1]), p = upto_nul(text);
        xbuf b(cz(text));
        plen_t len = 12345;
        const char *r = path_next(b.p, &len);
        o.result = r ? std::to_string(r - b.p) + " " + std::to_string(len) : "null";
        size_t wl = 0, wp = first_real(p, 0, &wl);
        str want = wp == p.size() ? "null" : std::to_string(wp) + " " + std::to_string(wl);
        if (o.result != want)
            o.fail("path_next " + o.result + " != first real component " + want);
        // walking with path_next enumerates the real components
        toks walk;
        const char *q = b.p;
        plen_t l2;
        for (size_t guard = 0; guard < p.size() + 2 && (q = path_next(q, &l2)); guard++)
        {
            walk.push_back(str(q, l2));
            q += l2;
        }
        if (walk != real_comps(p))
            o.fail("path_next walk " + fmt_toks(walk) + " != components " + fmt_toks(real_comps(p)));
        if (path_next(0, &l2) != 0)
            o.fail("path_next(NULL) != NULL");
        if (p.empty()) o.tag("path-empty");
        else if (!r) o.tag("path-no-component");
        else if (r != b.p) o.tag("path-next-skipped");
        if (p.find("./") != str::npos || (p.size() && p.back() == '.')) o.tag("path-dot");
        if (walk.size() > 1) o.tag("path-multi");
        return;
    }
    if (op == "piter")
    {
        str text = U(w[1]), p = upto_nul(text);
        xbuf b(cz(text));
        const char *r = path_iterate(b.p);
        o.result = r ? std::to_string(r - b.p) : "null";
        str want = p.empty() ? "null" : std::to_string(first_real(p, p[0] == '/' ? 0 : 1));
        if (o.result != want)
            o.fail("path_iterate " + o.result + " != component-wise reference " + want);
        // iterating visits exactly the nodes
        toks walk;
        const char *q = b.p;
        for (size_t guard = 0; guard < p.size() + 2 && q && *q; guard++)
        {
            const char *e = q;
            while (*e && *e != '/')
                e++;
            walk.push_back(str(q, e - q));
            q = path_iterate(q);
        }
        toks wn;
        for (auto &c : nodes(p))
            wn.push_back(c.s);
        if (walk != wn)
            o.fail("path_iterate walk " + fmt_toks(walk) + " != nodes " + fmt_toks(wn));
        if (path_iterate(0) != 0)
            o.fail("path_iterate(NULL) != NULL");
        if (p.empty()) o.tag("path-empty");
        else if (p[0] == '/') o.tag("path-abs");
        else o.tag("path-rel");
        if (r && !*r) o.tag("path-iter-to-end");
        return;
    }
    if (op == "pcmp")
    {
        str ta = U(w[1]), tb2 = U(w[2]);
        xbuf a(cz(ta)), b(cz(tb2));
        int r = path_compare_node(a.p, b.p);
        o.result = std::to_string(r);
        int want = ref_cmp(upto_nul(ta), upto_nul(tb2));
        if (r != want)
            o.fail("path_compare_node " + o.result + " != " + std::to_string(want));
        if (path_compare_node(b.p, a.p) != -r)
            o.fail("path_compare_node not antisymmetric");
        o.tag(r == 0 ? "pcmp-eq" : r < 0 ? "pcmp-lt" : "pcmp-gt");
        return;
    }
    if (op == "premc")
    {
        // probe of the recorded finding: path_remove_prefix judged by the components
        // path_next enumerates (leading "./" pieces are no components)
        str tp = U(w[1]), tq = U(w[2]), p = upto_nul(tp), q = upto_nul(tq);
        xbuf a(cz(tp)), b(cz(tq));
        const char *r = path_remove_prefix(a.p, b.p);
        o.result = r ? std::to_string(r - a.p) : "null";
        std::vector<comp> cp, cq;
        for (auto &c : raw_comps(p)) if (real(c)) cp.push_back(c);
        for (auto &c : raw_comps(q)) if (real(c)) cq.push_back(c);
        size_t i = 0;
        while (i < cp.size() && i < cq.size() && cp[i].s == cq[i].s)
            i++;
        str want = std::to_string(i < cp.size() ? cp[i].pos : p.size());
        if (o.result != want)
            o.fail("path_remove_prefix " + o.result + " != after the common leading components " + want);
        o.tag("premc");
        return;
    }
    if (op == "prem")
    {
        str tp = U(w[1]), tq = U(w[2]), p = upto_nul(tp), q = upto_nul(tq);
        xbuf a(cz(tp)), b(cz(tq));
        const char *r = path_remove_prefix(a.p, b.p);
        o.result = r ? std::to_string(r - a.p) : "null";
        auto np = nodes(p), nq = nodes(q);
        size_t i = 0;
        while (true)
        {
            if (i >= np.size() && i >= nq.size())
                break;
            str A = i < np.size() ? np[i].s : "", B = i < nq.size() ? nq[i].s : "";
            if (A != B)
                break;
            if (i >= np.size() || i >= nq.size())
                break;
            i++;
        }
        str want = std::to_string(i < np.size() ? np[i].pos : p.size());
        if (o.result != want)
            o.fail("path_remove_prefix " + o.result + " != after the common leading nodes " + want);
        if (i == 0) o.tag("prem-nothing-common");
        else if (i >= nq.size()) o.tag("prem-whole-prefix");
        else o.tag("prem-partial-prefix");
        if (p.empty() || q.empty()) o.tag("prem-empty-side");
        return;
    }
    if (op == "creader")
    {
        str s = U(w[1]);
        xbuf b(s);
        struct creader rd;
        creader_init(&rd, b.p, b.n);
        str r;
        std::vector<std::pair<size_t, long>> got;
        bool loop = true;
        for (size_t k = 0; k < s.size() + 2; k++)
        {
            const char *tk;
            ptrdiff_t len = creader_readline(&rd, &tk);
            if (len < 0)
            {
                loop = false;
                break;
            }
            got.push_back({(size_t)(tk - b.p), (long)len});
            r += std::to_string(tk - b.p) + ":" + std::to_string(len) + ":" + std::to_string(creader_curpos(&rd)) + " ";
        }
        r += loop ? "LOOP" : "end";
        o.result = r;
        // reference: lines end at '\n' or NUL; carriage returns in front of the
        // terminator are not part of the line; a last line without terminator
        // is returned as it is
        std::vector<std::pair<size_t, long>> want;
        std::set<str> tg;
        size_t pos = 0;
        while (pos < s.size())
        {
            size_t e = s.find_first_of(str("\n\0", 2), pos);
            if (e == str::npos)
            {
                want.push_back({pos, (long)(s.size() - pos)});
                tg.insert("creader-unterminated-last-line");
                break;
            }
            size_t z = e;
            while (z > pos && s[z - 1] == '\r')
                z--;
            want.push_back({pos, (long)(z - pos)});
            if (z - pos == 1) tg.insert("creader-one-char-line");
            if (z == pos) tg.insert("creader-empty-line");
            if (z != e) tg.insert("creader-crlf");
            pos = e + 1;
        }
        if (loop)
            o.fail("creader_readline never reaches the end");
        else if (got != want)
            o.fail("creader lines differ from the reference");
        for (auto &t : tg)
            o.tag(t.c_str());
        if (s.empty()) o.tag("creader-empty");
        return;
    }
    o.result = "bad-op";
}


int main(int argc, char **argv)
{
    g_in_main = true;
    return main_(argc, argv, gen, run_op);
}
