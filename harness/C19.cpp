// C19 harness: text, path and command-line utilities of igris against the
// Lean model (IgrisModel/C19).
//
//   igris/util/string.{h,cpp}      split(char), split(delims), split_cmdargs, join, join<Iter>, trim
//   igris/string/replace.cpp       igris::replace
//   igris/string/replace_substrings.c, igris/string/memmem.c
//   igris/datastruct/argvc.h       argvc_internal_split, argvc_internal_split_n
//   igris/shell/mshell.c, rshell.c the four dispatchers
//   igris/util/pathops.h           path_next, path_iterate, path_compare_node, path_remove_prefix
//   igris/creader.h                creader_readline, creader_skip, creader_skipws
//   extension (round 3, see run_op2/gen2): path_is_abs/is_simple/is_double_dot/last_node, path_next(path,NULL),
//   argvc_length_of_first, igris::buffer ==/!= and constructors, dstring (string.cpp via C19_dstr.cpp, util/dstring.h,
//   util/dstring.c), mshell/rshell help routines, rshell_execute_v with the caller's argv
//
// Every buffer handed to the code is an exactly sized heap allocation (also
// the empty one: a pointer one past a 1-byte block), C strings are text+NUL in
// exactly strlen+1 bytes, so ASan reports any access outside the extent.
// The oracles are independent std::string based references.
#include "common/hv.h"
#include <algorithm>
#include <cerrno>
#include <functional>
#include <set>

#include <igris/util/string.h>
#include <igris/util/pathops.h>
#include <igris/creader.h>
#include <igris/util/dstring.h>
extern "C"
{
#include <igris/shell/mshell.h>
#include <igris/shell/rshell.h>
}

using namespace hv;
typedef std::string str;
typedef std::vector<std::string> toks;
std::string c19_dstring_cpp(const void *data, size_t size);
std::string c19_dstring_cpp_str(const std::string &s);

static_assert(sizeof(void *) == 8, "LP64");
static_assert((char)0x80 < 0, "char is signed");

// ------------------------------------------------------------------ buffers
// exactly sized heap copy; for n == 0 the pointer is one past a 1-byte block,
// so that even reading *p is reported (hv::exact_buf would give a valid byte)
// ---- round 3: long-lived argument buffers at FIXED addresses (op `re`)
// While g_arena is set, every xbuf / command name of a call is placed into the
// next slot of one long-lived block instead of a fresh allocation: the k-th
// buffer of every call of a case has the same address, only the contents (and
// the size) change between the calls.  The extent stays exact: everything of a
// slot outside [p, p+n) is poisoned by hand, so ASan reports an access in front
// of or behind the extent exactly as for a heap block.
#if defined(__SANITIZE_ADDRESS__)
#include <sanitizer/asan_interface.h>
#define C19_POISON(p, n) __asan_poison_memory_region((p), (n))
#define C19_UNPOISON(p, n) __asan_unpoison_memory_region((p), (n))
#else
#define C19_POISON(p, n) ((void)0)
#define C19_UNPOISON(p, n) ((void)0)
#endif
struct arena
{
    static const size_t NSLOT = 48, SLOT = 16384, RED = 64;
    char *block;
    size_t next = 0;
    arena()
    {
        block = (char *)aligned_alloc(64, NSLOT * SLOT);
        C19_POISON(block, NSLOT * SLOT);
    }
    ~arena()
    {
        C19_UNPOISON(block, NSLOT * SLOT);
        free(block);
    }
    void rewind() { next = 0; }
    // the next slot with exactly n addressable bytes, or 0 when it does not fit
    char *place(size_t n)
    {
        if (next >= NSLOT || n > SLOT - 2 * RED)
            return 0;
        char *slot = block + next++ * SLOT;
        C19_POISON(slot, SLOT);
        C19_UNPOISON(slot + RED, n);
        return slot + RED;
    }
};
static arena *g_arena = 0;

struct xbuf
{
    char *base;
    char *p;
    size_t n;
    bool own = true;
    void alloc()
    {
        if (g_arena && (p = g_arena->place(n)))
        {
            base = 0;
            own = false;
            return;
        }
        if (n == 0)
        {
            base = (char *)malloc(1);
            p = base + 1;
        }
        else
        {
            base = (char *)malloc(n);
            p = base;
        }
    }
    explicit xbuf(const str &s) : n(s.size())
    {
        alloc();
        if (n)
            memcpy(p, s.data(), n);
    }
    xbuf(size_t size, int fill) : n(size)
    {
        alloc();
        if (n)
            memset(p, fill, n);
    }
    ~xbuf()
    {
        if (own)
            free(base);
    }
    xbuf(const xbuf &) = delete;
    str get() const { return str(p, n); }
    igris::buffer buf() const { return igris::buffer((const void *)p, n); }
};
// C string: text + NUL in exactly text.size()+1 bytes
static str cz(const str &s) { return s + str(1, '\0'); }

static str H(const str &s) { return hex(s); }
static str U(const std::string &h)
{
    auto v = unhex(h);
    return str(v.begin(), v.end());
}
static str fmt_toks(const toks &v)
{
    str r = std::to_string(v.size());
    for (auto &t : v)
        r += " " + H(t);
    return r;
}
static toks list_arg(const std::string &w) // "61,62" or "-" -> {"a","b"} / {}
{
    toks r;
    if (w == "-")
        return r;
    size_t i = 0;
    while (true)
    {
        size_t j = w.find(',', i);
        r.push_back(U(w.substr(i, j == str::npos ? j : j - i)));
        if (j == str::npos)
            break;
        i = j + 1;
    }
    return r;
}
static str upto_nul(const str &s) { return s.substr(0, s.find('\0')); }

// ---------------------------------------------------------------- references
// init_priority: constructed in front of the pre-main runner (round 3) that uses them
static const str WS_ARGV __attribute__((init_priority(101))) = str(" \r\n\t");
static const str WS_TRIM __attribute__((init_priority(101))) = str(" \n\r\t");

// maximal runs of characters not in `delims`
static toks ref_runs(const str &s, const str &delims)
{
    toks out;
    size_t i = 0;
    while ((i = s.find_first_not_of(delims, i)) != str::npos)
    {
        size_t j = s.find_first_of(delims, i);
        out.push_back(s.substr(i, j == str::npos ? j : j - i));
        if (j == str::npos)
            break;
        i = j;
    }
    return out;
}
static str ref_join(const toks &v, const str &d)
{
    str r;
    for (size_t i = 0; i < v.size(); i++)
    {
        if (i)
            r += d;
        r += v[i];
    }
    return r;
}
static str ref_trim(const str &s)
{
    size_t a = s.find_first_not_of(WS_TRIM);
    if (a == str::npos)
        return "";
    size_t b = s.find_last_not_of(WS_TRIM);
    return s.substr(a, b - a + 1);
}
static str ref_replace(const str &s, const str &o, const str &n)
{
    if (o.empty())
        return s;
    str r;
    size_t i = 0;
    while (true)
    {
        size_t j = s.find(o, i);
        if (j == str::npos)
            break;
        r += s.substr(i, j - i);
        r += n;
        i = j + o.size();
    }
    r += s.substr(i);
    return r;
}
static toks ref_cmdargs(const str &s)
{
    toks out;
    size_t i = 0;
    while ((i = s.find_first_not_of(' ', i)) != str::npos)
    {
        if (s[i] == '"' || s[i] == '\'')
        {
            size_t j = s.find(s[i], i + 1);
            if (j == str::npos)
            {
                out.push_back(s.substr(i + 1));
                break;
            }
            out.push_back(s.substr(i + 1, j - i - 1));
            i = j + 1;
        }
        else
        {
            size_t j = s.find(' ', i);
            out.push_back(s.substr(i, j == str::npos ? j : j - i));
            if (j == str::npos)
                break;
            i = j;
        }
    }
    return out;
}
static toks take(const toks &v, size_t n) { return toks(v.begin(), v.begin() + std::min(n, v.size())); }

// paths, component-wise
struct comp
{
    size_t pos;
    str s;
};
static std::vector<comp> raw_comps(const str &p) // split on '/', always >= 1 piece
{
    std::vector<comp> r;
    size_t i = 0;
    while (true)
    {
        size_t j = p.find('/', i);
        r.push_back({i, p.substr(i, j == str::npos ? j : j - i)});
        if (j == str::npos)
            break;
        i = j + 1;
    }
    return r;
}
static bool real(const comp &c) { return !c.s.empty() && c.s != "."; }
static toks real_comps(const str &p)
{
    toks r;
    for (auto &c : raw_comps(p))
        if (real(c))
            r.push_back(c.s);
    return r;
}
// position of the first real component with raw index >= k, or p.size()
static size_t first_real(const str &p, size_t k, size_t *len = 0)
{
    auto cs = raw_comps(p);
    for (size_t i = k; i < cs.size(); i++)
        if (real(cs[i]))
        {
            if (len)
                *len = cs[i].s.size();
            return cs[i].pos;
        }
    return p.size();
}
// nodes as path_iterate walks them: a leading '/' is a node of its own (""),
// a relative path starts with its first raw component whatever it is,
// afterwards only real components
static std::vector<comp> nodes(const str &p)
{
    std::vector<comp> r;
    if (p.empty())
        return r;
    auto cs = raw_comps(p);
    r.push_back(cs[0]);
    for (size_t i = 1; i < cs.size(); i++)
        if (real(cs[i]))
            r.push_back(cs[i]);
    return r;
}
static int ref_cmp(const str &a, const str &b)
{
    str ca = a.substr(0, a.find('/')), cb = b.substr(0, b.find('/'));
    std::vector<signed char> va(ca.begin(), ca.end()), vb(cb.begin(), cb.end());
    if (va == vb)
        return 0;
    return std::lexicographical_compare(va.begin(), va.end(), vb.begin(), vb.end()) ? -1 : 1;
}

// ---------------------------------------------------------------- shell glue
static int g_called, g_argc, g_max;
static toks g_args __attribute__((init_priority(101)));
static char *g_out;
static void rec(int k, int argc, char **argv)
{
    g_called = k;
    g_argc = argc;
    for (int i = 0; i < argc; i++)
        g_args.push_back(argv[i]);
}
template <int K> static int mh(int argc, char **argv)
{
    rec(K, argc, argv);
    return 100 + K;
}
template <int K> static int rh(int argc, char **argv, char *out, int maxsize)
{
    rec(K, argc, argv);
    g_out = out;
    g_max = maxsize;
    return 100 + K;
}
typedef int (*mfn)(int, char **);
typedef int (*rfn)(int, char **, char *, int);
static mfn MH[12] = {mh<0>, mh<1>, mh<2>, mh<3>, mh<4>, mh<5>, mh<6>, mh<7>, mh<8>, mh<9>, mh<10>, mh<11>};
static rfn RH[12] = {rh<0>, rh<1>, rh<2>, rh<3>, rh<4>, rh<5>, rh<6>, rh<7>, rh<8>, rh<9>, rh<10>, rh<11>};

struct names_keeper
{
    std::vector<char *> ptrs;
    const char *add(const str &s)
    {
        char *p = g_arena ? g_arena->place(s.size() + 1) : 0;
        bool own = !p;
        if (own)
            p = (char *)malloc(s.size() + 1);
        memcpy(p, s.data(), s.size());
        p[s.size()] = 0;
        if (own)
            ptrs.push_back(p);
        return p;
    }
    ~names_keeper()
    {
        for (auto p : ptrs)
            free(p);
    }
};

static str fmt_dispatch(int rc, int ret)
{
    str r = "rc=" + std::to_string(rc) + " ret=" + std::to_string(ret) + " call=";
    if (g_called < 0)
        return r + "none";
    r += std::to_string(g_called) + "/" + std::to_string(g_argc);
    for (auto &a : g_args)
        r += ":" + H(a);
    return r;
}

// expected dispatch: tables[t] = names; handler index = 4*t + i; drop[t]
static str ref_dispatch(const str &text, const std::vector<toks> &tables, const std::vector<int> &drop, int rc_blank)
{
    toks tk = take(ref_runs(upto_nul(text), WS_ARGV), 10);
    if (tk.empty())
        return "rc=" + std::to_string(rc_blank) + " ret=-777 call=none";
    for (size_t t = 0; t < tables.size(); t++)
        for (size_t i = 0; i < tables[t].size(); i++)
            if (tables[t][i] == tk[0])
            {
                int k = (int)(4 * t + i);
                int argc = (int)tk.size() - drop[t];
                str r = "rc=0 ret=" + std::to_string(100 + k) + " call=" + std::to_string(k) + "/" + std::to_string(argc);
                for (size_t a = drop[t]; a < tk.size(); a++)
                    r += ":" + H(tk[a]);
                return r;
            }
    return "rc=" + std::to_string(ENOENT) + " ret=-777 call=none";
}

// ---------------------------------------------------------------- run
static void run_argv(bool bounded, const str &text, int argcmax, out &o, bool judge_term = false)
{
    // data: bounded -> exactly the bytes; terminated -> text + NUL
    str data = bounded ? text : cz(text);
    xbuf b(data);
    xbuf av((size_t)argcmax * sizeof(char *), 0x5a);
    char **argv = (char **)av.p;
    int argc = bounded ? argvc_internal_split_n(b.p, (int)b.n, argv, argcmax) : argvc_internal_split(b.p, argv, argcmax);
    str after = b.get();
    str r = std::to_string(argc);
    toks got;
    bool ptr_ok = true;
    for (int i = 0; i < argc && i < argcmax; i++)
    {
        if (argv[i] < b.p || argv[i] > b.p + b.n)
        {
            ptr_ok = false;
            break;
        }
        size_t off = argv[i] - b.p;
        str t = upto_nul(after.substr(off)); // C string, bounded by the extent
        got.push_back(t);
        r += " " + std::to_string(off) + ":" + H(t);
    }
    r += " |" + H(after);
    o.result = r;
    if (!ptr_ok)
        o.fail("argv entry outside the buffer");
    if (argc < 0 || argc > argcmax)
        o.fail("argc " + std::to_string(argc) + " > argcmax " + std::to_string(argcmax));
    // white space: " \r\n\t"; the terminated variant stops at the first NUL, the
    // bounded variant cannot hold a NUL inside a C-string token: NUL separates
    // argvnz (probe of the recorded finding): the bounded variant judged as "the safe
    // variant of argvc_internal_split": white-space runs of the line up to its terminator
    toks want = bounded && !judge_term ? ref_runs(text, WS_ARGV + str(1, '\0')) : ref_runs(upto_nul(text), WS_ARGV);
    bool truncated = want.size() > (size_t)argcmax;
    want = take(want, argcmax);
    if (got != want)
        o.fail("tokens " + fmt_toks(got) + " != first argcmax white-space runs " + fmt_toks(want));
    // the only bytes changed are separators turned into NUL
    for (size_t i = 0; i < data.size(); i++)
        if (after[i] != data[i] && !(after[i] == 0 && WS_ARGV.find(data[i]) != str::npos))
            o.fail("byte " + std::to_string(i) + " of the line changed to something else than a terminator over white space");
    if (want.empty()) o.tag(text.empty() ? "argv-empty" : "argv-blank");
    if (truncated) o.tag("argv-more-than-max");
    if ((int)want.size() == argcmax && !truncated && argcmax > 0) o.tag("argv-exactly-max");
    if (bounded && !text.empty() && WS_ARGV.find(text.back()) == str::npos && text.back() != 0 && !want.empty() && !truncated) o.tag("argvn-token-at-end");
    if (!text.empty() && WS_ARGV.find(text.back()) != str::npos) o.tag("argv-trailing-ws");
    if (argcmax == 0) o.tag("argcmax0");
}

static void run_msh(bool multi, const std::vector<std::string> &w, out &o)
{
    str text = U(w[1]);
    std::vector<toks> tables;
    for (size_t i = 2; i < w.size(); i++)
        tables.push_back(list_arg(w[i]));
    if (!multi && tables.empty())
        tables.push_back({});
    names_keeper nk;
    std::vector<xbuf *> tb;
    for (size_t t = 0; t < tables.size(); t++)
    {
        xbuf *x = new xbuf((tables[t].size() + 1) * sizeof(mshell_command), 0);
        mshell_command *c = (mshell_command *)x->p;
        for (size_t i = 0; i < tables[t].size(); i++)
        {
            c[i].name = nk.add(tables[t][i]);
            c[i].func = MH[4 * t + i];
            c[i].help = 0;
        }
        tb.push_back(x);
    }
    xbuf tp((tables.size() + 1) * sizeof(void *), 0);
    for (size_t t = 0; t < tables.size(); t++)
        ((const mshell_command **)tp.p)[t] = (const mshell_command *)tb[t]->p;
    xbuf line(cz(text));
    g_called = -1;
    g_argc = 0;
    g_args.clear();
    int ret = -777;
    int rc = multi ? mshell_tables_execute(line.p, (const mshell_command *const *)tp.p, &ret)
                   : mshell_execute(line.p, (const mshell_command *)tb[0]->p, &ret);
    o.result = fmt_dispatch(rc, ret);
    str want = ref_dispatch(text, tables, std::vector<int>(tables.size(), 0), ENOENT);
    if (o.result != want)
        o.fail("dispatch " + o.result + " != expected " + want);
    for (auto x : tb)
        delete x;
    toks tk = ref_runs(upto_nul(text), WS_ARGV);
    if (tk.empty()) o.tag(upto_nul(text).empty() ? "sh-empty-line" : "sh-blank-line");
    else if (g_called >= 0) o.tag(g_called >= 4 ? "sh-hit-later-table" : "sh-hit");
    else o.tag("sh-miss");
    if (tk.size() > 10) o.tag("sh-more-than-10-args");
}

static void run_rsh(bool multi, const std::vector<std::string> &w, out &o)
{
    // rsh <text> <drop> <names>      rsht <text> <drop>:<names> ...
    str text = U(w[1]);
    std::vector<toks> tables;
    std::vector<int> drop;
    if (!multi)
    {
        drop.push_back(atoi(w[2].c_str()));
        tables.push_back(list_arg(w.size() > 3 ? w[3] : "-"));
    }
    else
        for (size_t i = 2; i < w.size(); i++)
        {
            size_t c = w[i].find(':');
            drop.push_back(atoi(w[i].substr(0, c).c_str()));
            tables.push_back(list_arg(w[i].substr(c + 1)));
        }
    names_keeper nk;
    std::vector<xbuf *> tb;
    for (size_t t = 0; t < tables.size(); t++)
    {
        xbuf *x = new xbuf((tables[t].size() + 1) * sizeof(rshell_command), 0);
        rshell_command *c = (rshell_command *)x->p;
        for (size_t i = 0; i < tables[t].size(); i++)
        {
            c[i].name = nk.add(tables[t][i]);
            c[i].func = RH[4 * t + i];
            c[i].help = 0;
        }
        tb.push_back(x);
    }
    xbuf tp((tables.size() + 1) * sizeof(rshell_command_table), 0);
    for (size_t t = 0; t < tables.size(); t++)
    {
        ((rshell_command_table *)tp.p)[t].table = (const rshell_command *)tb[t]->p;
        ((rshell_command_table *)tp.p)[t].dropargs = drop[t];
    }
    xbuf line(cz(text));
    xbuf outb(7, 0);
    g_called = -1;
    g_argc = 0;
    g_args.clear();
    g_out = 0;
    g_max = -1;
    int ret = -777;
    int rc = multi ? rshell_tables_execute(line.p, (const rshell_command_table *)tp.p, &ret, outb.p, 7)
                   : rshell_execute(line.p, (const rshell_command *)tb[0]->p, &ret, drop[0], outb.p, 7);
    o.result = fmt_dispatch(rc, ret);
    str want = ref_dispatch(text, tables, drop, 0);
    if (o.result != want)
        o.fail("dispatch " + o.result + " != expected " + want);
    if (g_called >= 0 && (g_out != outb.p || g_max != 7))
        o.fail("output buffer / maxsize not passed through to the handler");
    for (auto x : tb)
        delete x;
    toks tk = ref_runs(upto_nul(text), WS_ARGV);
    if (tk.empty()) o.tag(upto_nul(text).empty() ? "sh-empty-line" : "sh-blank-line");
    else if (g_called >= 0) o.tag(g_called >= 4 ? "sh-hit-later-table" : "sh-hit");
    else o.tag("sh-miss");
    if (g_called >= 0 && drop[g_called / 4]) o.tag("sh-dropargs");
}



// ================================================================ round 3
static void run_op(const std::vector<std::string> &w, const std::string &, out &o);
static uint32_t fnv(const str &s)
{
    uint32_t h = 2166136261u;
    for (unsigned char c : s)
        h = (h ^ c) * 16777619u;
    return h;
}
static str digest(const str &s) { return std::to_string(s.size()) + " " + hexn(fnv(s), 8); }
static void add_tags(out &o, const out &sub)
{
    size_t i = 0;
    while (i < sub.tags.size())
    {
        size_t j = sub.tags.find(',', i);
        str t = sub.tags.substr(i, j == str::npos ? j : j - i);
        if (("," + o.tags + ",").find("," + t + ",") == str::npos)
            o.tag(t.c_str());
        if (j == str::npos)
            break;
        i = j + 1;
    }
}

// ---- calls BEFORE main(): an object with init_priority runs a fixed list of ops from its
// constructor (the references it needs are constructed with a smaller priority number in
// front of it) and keeps the result lines; `premain <k> <op>` reports them later.
static const char *const PREMAIN[] = {
    "splitc 2061206220 20", "splitd 612c623b63 2c3b", "cmdargs 612022622063222064", "trim 20096120620d0a", "join 2c 61 62 63",
    "joinf 2c20 5b 5d 61 62", "memmem 6162616263 6263", "replace 6161626161 6161 63", "rsub 5 61626162 62 6363", "argv 206120620963 2",
    "argvn 6120622063 3", "msh 2062206120 61,62", "msht 6220 61 62", "rsh 6120622063 1 61", "rsht 6220 0:61 1:62",
    "pnext 2f2e2f612f62", "piter 2f612f2f62", "pcmp 612f 62", "prem 2f612f62 2f61", "creader 610d0a620a63",
    "cskipws 20090a61", "lenfirst 616220", "pabs 2f61", "psimple 6162", "pdd 2e2e2f", "plast 615c62", "pnext0 2e2f61", "beq 6162 6162",
    "beqz 6162 6162", "dstr 5c0a80", "mhelp 61:68", "rhelp 9 61:68", "rhelpt 9 61:68", "rshv 0 61 61 62"};
static const size_t NPREMAIN = sizeof(PREMAIN) / sizeof(PREMAIN[0]);
struct premain_runner
{
    std::vector<out> res;
    bool ran_before_main = false;
    premain_runner();
};
static bool g_in_main = false;
premain_runner::premain_runner()
{
    ran_before_main = !g_in_main;
    for (size_t k = 0; k < NPREMAIN; k++)
    {
        out o;
        run_op(words(PREMAIN[k]), PREMAIN[k], o);
        res.push_back(o);
    }
}

static bool run_op3(const std::vector<std::string> &w, out &o);

// ================================================================ extension
// help tables: "_" = empty table, else entries "name[:help]" (hex or "-")
struct hentry
{
    str name;
    bool has_help;
    str help;
};
static std::vector<hentry> help_table(const std::string &w)
{
    std::vector<hentry> r;
    if (w == "_")
        return r;
    size_t i = 0;
    while (true)
    {
        size_t j = w.find(',', i);
        std::string e = w.substr(i, j == str::npos ? j : j - i);
        size_t c = e.find(':');
        hentry h;
        h.name = U(e.substr(0, c));
        h.has_help = c != str::npos;
        if (h.has_help)
            h.help = U(e.substr(c + 1));
        r.push_back(h);
        if (j == str::npos)
            break;
        i = j + 1;
    }
    return r;
}
static str ref_help(const std::vector<hentry> &t)
{
    str r;
    for (auto &e : t)
    {
        r += e.name;
        if (e.has_help)
            r += " - " + e.help;
        r += "\r\n";
    }
    return r;
}
static toks g_pieces __attribute__((init_priority(101)));
static void *g_priv;
static void help_write(void *priv, const char *p, size_t n)
{
    g_priv = priv;
    g_pieces.push_back(str(p, n));
}
static int dummy_m(int, char **) { return 0; }
static int dummy_r(int, char **, char *, int) { return 0; }

// reference decoder of the dstring notation (independent of igris and of the model)
static bool ref_undstring(const str &e, str &out)
{
    out.clear();
    for (size_t i = 0; i < e.size(); i++)
    {
        unsigned char c = (unsigned char)e[i];
        if (c < 0x20 || c > 0x7e)
            return false; // the notation is printable ASCII only
        if (c != '\\')
        {
            out.push_back((char)c);
            continue;
        }
        if (i + 1 >= e.size())
            return false;
        char k = e[++i];
        if (k == 'n') out.push_back('\n');
        else if (k == 't') out.push_back('\t');
        else if (k == '\\') out.push_back('\\');
        else if (k == 'x')
        {
            if (i + 2 >= e.size())
                return false;
            int h = hexval(e[i + 1]), l = hexval(e[i + 2]);
            if (h < 0 || l < 0)
                return false;
            out.push_back((char)(h * 16 + l));
            i += 2;
        }
        else
            return false;
    }
    return true;
}

template <size_t N> static size_t ctor_size(bool is_const, const str &a)
{
    char *m = (char *)malloc(N); // exactly sized
    memcpy(m, a.data(), N);
    size_t r = is_const ? igris::buffer(*(const char(*)[N])m).size() : igris::buffer(*(char(*)[N])m).size();
    free(m);
    return r;
}

static bool run_op2(const std::vector<std::string> &w, out &o)
{
    const std::string &op = w[0];
    if (op == "pabs" || op == "psimple" || op == "pdd")
    {
        str text = U(w[1]), p = upto_nul(text);
        xbuf b(cz(text));
        int r = op == "pabs" ? path_is_abs(b.p) : op == "psimple" ? path_is_simple(b.p) : path_is_double_dot(b.p);
        o.result = r ? "1" : "0";
        bool want = op == "pabs" ? (!p.empty() && p[0] == '/') : op == "psimple" ? p.find('/') == str::npos : p.substr(0, p.find('/')) == "..";
        if ((r != 0) != want)
            o.fail(op + " " + o.result + " != " + (want ? "1" : "0"));
        if (r != 0 && r != 1)
            o.fail(op + " returns something else than 0/1");
        if (p.empty()) o.tag("path-empty");
        o.tag(r ? (op + "-yes").c_str() : (op + "-no").c_str());
        if (op == "pdd" && !p.empty() && p[0] == '.' && !r) o.tag("pdd-dot-but-not-dotdot");
        return true;
    }
    if (op == "plast" || op == "plastu")
    {
        // plast: judged by the routine's own separator ('\\');
        // plastu: judged by the separator of every other helper of pathops.h ('/')
        str text = U(w[1]), p = upto_nul(text);
        xbuf b(cz(text));
        const char *r = path_last_node(b.p);
        o.result = std::to_string(r - b.p);
        char sep = op == "plast" ? '\\' : '/';
        size_t k = p.rfind(sep);
        size_t want = k == str::npos ? 0 : k + 1;
        if (r < b.p || r > b.p + p.size())
            o.fail("path_last_node points outside the path");
        else if ((size_t)(r - b.p) != want)
            o.fail("path_last_node " + o.result + " != offset behind the last '" + str(1, sep) + "' " + std::to_string(want));
        if (p.empty()) o.tag("path-empty");
        else if (k == str::npos) o.tag("plast-no-separator");
        else if (k + 1 == p.size()) o.tag("plast-trailing-separator");
        else if (k == 0) o.tag("plast-separator-first");
        else o.tag("plast-inner");
        return true;
    }
    if (op == "pnext0")
    {
        str text = U(w[1]), p = upto_nul(text);
        xbuf b(cz(text));
        const char *r = path_next(b.p, NULL);
        o.result = r ? std::to_string(r - b.p) : "null";
        size_t wp = first_real(p, 0);
        str want = wp == p.size() ? "null" : std::to_string(wp);
        if (o.result != want)
            o.fail("path_next(path, NULL) " + o.result + " != first real component " + want);
        o.tag(r ? "pnext0-found" : "pnext0-null");
        return true;
    }
    if (op == "lenfirst")
    {
        str text = U(w[1]), p = upto_nul(text);
        xbuf b(cz(text));
        ptrdiff_t r = argvc_length_of_first(b.p);
        o.result = std::to_string(r);
        size_t k = p.find(' ');
        if ((size_t)r != (k == str::npos ? p.size() : k))
            o.fail("argvc_length_of_first != length of the run in front of the first space");
        o.tag(k == str::npos ? "lenfirst-to-end" : k == 0 ? "lenfirst-zero" : "lenfirst-word");
        return true;
    }
    if (op == "cskip" || op == "cskipws")
    {
        str s = U(w[1]), sy = op == "cskip" ? U(w[2]) : str("\t\n\r ");
        xbuf b(s), z(cz(sy));
        struct creader rd;
        creader_init(&rd, b.p, b.n);
        int n = op == "cskip" ? creader_skip(&rd, z.p) : creader_skipws(&rd);
        o.result = std::to_string(n) + " " + std::to_string(creader_curpos(&rd));
        str set = upto_nul(sy);
        size_t k = set.empty() ? 0 : s.find_first_not_of(set);
        if (k == str::npos)
            k = s.size();
        if (set.empty())
            k = 0;
        if ((size_t)n != k || creader_curpos(&rd) != k)
            o.fail("creader_skip " + o.result + " != length of the leading run of the symbols " + std::to_string(k));
        if (rd.cursor != rd.fini && set.find(*rd.cursor) != str::npos)
            o.fail("creader_skip stops in front of a symbol");
        if (s.empty()) o.tag("cskip-empty");
        else if (k == s.size()) o.tag("cskip-to-end");
        else if (k == 0) o.tag("cskip-nothing");
        else o.tag("cskip-some");
        if (set.empty()) o.tag("cskip-no-symbols");
        if (k < s.size() && s[k] == 0) o.tag("cskip-stops-at-nul");
        return true;
    }
    if (op == "beq")
    {
        str a = U(w[1]), b = U(w[2]);
        xbuf xa(a), xb(b);
        const igris::buffer ba = xa.buf(), bb = xb.buf();
        bool eq = ba == bb, ne = ba != bb;
        o.result = str(eq ? "1" : "0") + " " + (ne ? "1" : "0");
        if (eq != (a == b))
            o.fail(str("buffer == is ") + (eq ? "true" : "false") + " for " + (a == b ? "equal" : "different") + " contents");
        if (ne == eq)
            o.fail("buffer != is not the negation of ==");
        if (a.size() != b.size()) o.tag("beq-size-differs");
        else if (a.empty()) o.tag("beq-both-empty");
        else if (a == b) o.tag("beq-equal");
        else if (upto_nul(a) == upto_nul(b) && upto_nul(a).size() < a.size()) o.tag("beq-differ-behind-nul");
        else o.tag("beq-differ");
        return true;
    }
    if (op == "beqz")
    {
        str a = U(w[1]), t = U(w[2]), z = upto_nul(t);
        xbuf xa(a), xz(cz(t));
        igris::buffer ba = xa.buf();
        bool eq = ba == (const char *)xz.p, ne = ba != (const char *)xz.p;
        o.result = str(eq ? "1" : "0") + " " + (ne ? "1" : "0");
        if (eq != (a == z))
            o.fail(str("buffer == const char* is ") + (eq ? "true" : "false") + " for " + (a == z ? "equal" : "different") + " contents");
        if (ne == eq)
            o.fail("buffer != const char* is not the negation of ==");
        if (a == z) o.tag("beqz-equal");
        else if (z.size() > a.size() && z.compare(0, a.size(), a) == 0) o.tag("beqz-buffer-is-proper-prefix");
        else if (a.find('\0') != str::npos) o.tag("beqz-nul-in-buffer");
        else o.tag("beqz-differ");
        return true;
    }
    if (op == "bufctor")
    {
        // which constructor takes an array: const char[N] -> buffer(const char*),
        // char[N] -> the array template (size N).  Correspondence only.
        bool c = w[1] == "c";
        str a = U(w[2]);
        size_t r = 0;
        switch (a.size())
        {
        case 1: r = ctor_size<1>(c, a); break;
        case 2: r = ctor_size<2>(c, a); break;
        case 3: r = ctor_size<3>(c, a); break;
        case 4: r = ctor_size<4>(c, a); break;
        case 5: r = ctor_size<5>(c, a); break;
        case 6: r = ctor_size<6>(c, a); break;
        default: o.result = "bad-op"; return true;
        }
        o.result = std::to_string(r);
        if (igris::buffer("abc").size() != 3)
            o.fail("buffer(\"abc\").size() != 3");
        o.tag(c ? "bufctor-const-array" : "bufctor-mutable-array");
        if (!c && r != upto_nul(a).size()) o.tag("bufctor-counts-behind-text");
        return true;
    }
    if (op == "dstr")
    {
        str s = U(w[1]);
        xbuf b(s);
        str got = c19_dstring_cpp(b.p, b.n);                 // string.cpp
        str got_h = igris::dstring((const void *)b.p, b.n);  // util/dstring.h
        str got_s = c19_dstring_cpp_str(s);
        str got_b = igris::dstring(b.buf());
        o.result = H(got);
        if (got_h != got || got_s != got || got_b != got)
            o.fail("the dstring overloads of string.cpp and util/dstring.h disagree");
        // reference size: exactly the bytes bytes_to_dstring may write
        {
            xbuf ob(got.size() + 1, 0xA5);
            int n = bytes_to_dstring(ob.p, b.p, b.n);
            if (n != (int)got.size() || ob.get() != cz(got))
                o.fail("bytes_to_dstring disagrees with dstring");
        }
        str back;
        if (!ref_undstring(got, back))
            o.fail("dstring output " + H(got) + " is not in the notation (printable ASCII, \\n \\t \\\\ \\xHH)");
        else if (back != s)
            o.fail("dstring output " + H(got) + " reads back as " + H(back) + ", not as the input (notation ambiguous)");
        if (s.empty()) o.tag("dstr-empty");
        if (s.find('\\') != str::npos) o.tag("dstr-backslash");
        if (s.find('\n') != str::npos || s.find('\t') != str::npos) o.tag("dstr-nl-tab");
        for (unsigned char c : s)
            if (c >= 0x80) { o.tag("dstr-high-byte"); break; }
        for (unsigned char c : s)
            if (c < 0x20 && c != '\n' && c != '\t') { o.tag("dstr-control"); break; }
        if (s.find('\x7f') != str::npos) o.tag("dstr-del");
        return true;
    }
    if (op == "mhelp" || op == "mhelpt")
    {
        std::vector<std::vector<hentry>> tables;
        for (size_t i = 1; i < w.size(); i++)
            tables.push_back(help_table(w[i]));
        names_keeper nk;
        std::vector<xbuf *> tb;
        for (auto &t : tables)
        {
            xbuf *x = new xbuf((t.size() + 1) * sizeof(mshell_command), 0);
            mshell_command *c = (mshell_command *)x->p;
            for (size_t i = 0; i < t.size(); i++)
            {
                c[i].name = nk.add(t[i].name);
                c[i].func = dummy_m;
                c[i].help = t[i].has_help ? nk.add(t[i].help) : 0;
            }
            tb.push_back(x);
        }
        xbuf tp((tables.size() + 1) * sizeof(void *), 0);
        for (size_t t = 0; t < tables.size(); t++)
            ((const mshell_command **)tp.p)[t] = (const mshell_command *)tb[t]->p;
        g_pieces.clear();
        g_priv = 0;
        int cookie;
        if (op == "mhelp")
            mshell_help((const mshell_command *)tb[0]->p, help_write, &cookie);
        else
            mshell_tables_help((const mshell_command *const *)tp.p, help_write, &cookie);
        o.result = fmt_toks(g_pieces);
        str all, want;
        for (auto &p : g_pieces)
            all += p;
        for (auto &t : tables)
            want += ref_help(t);
        if (all != want)
            o.fail("help text " + H(all) + " != " + H(want));
        if (!g_pieces.empty() && g_priv != &cookie)
            o.fail("privdata not passed to write");
        for (auto x : tb)
            delete x;
        o.tag(want.empty() ? "help-empty" : "help-text");
        return true;
    }
    if (op == "rhelp" || op == "rhelpt")
    {
        int ansmax = atoi(w[1].c_str());
        std::vector<std::vector<hentry>> tables;
        for (size_t i = 2; i < w.size(); i++)
            tables.push_back(help_table(w[i]));
        names_keeper nk;
        std::vector<xbuf *> tb;
        for (auto &t : tables)
        {
            xbuf *x = new xbuf((t.size() + 1) * sizeof(rshell_command), 0);
            rshell_command *c = (rshell_command *)x->p;
            for (size_t i = 0; i < t.size(); i++)
            {
                c[i].name = nk.add(t[i].name);
                c[i].func = dummy_r;
                c[i].help = t[i].has_help ? nk.add(t[i].help) : 0;
            }
            tb.push_back(x);
        }
        xbuf tp((tables.size() + 1) * sizeof(rshell_command_table), 0);
        for (size_t t = 0; t < tables.size(); t++)
            ((rshell_command_table *)tp.p)[t].table = (const rshell_command *)tb[t]->p;
        size_t room = ansmax > 0 ? (size_t)ansmax : 0;
        xbuf ans(room, 0xA5);
        int len = op == "rhelp" ? rshell_help((const rshell_command *)tb[0]->p, ans.p, ansmax)
                                : rshell_tables_help((const rshell_command_table *)tp.p, ans.p, ansmax);
        str got = ans.get();
        o.result = std::to_string(len) + " " + H(got);
        str full;
        for (auto &t : tables)
            full += ref_help(t);
        if (ansmax <= 0)
        {
            if (len != 0)
                o.fail("no room at all but a length is returned");
            o.tag("rhelp-no-room");
        }
        else
        {
            // NUL-terminated inside the buffer, a prefix of the full text, the
            // returned length is its length, untouched behind the terminator
            size_t z = got.find('\0');
            if (z == str::npos)
                o.fail("answer not terminated inside ansmax bytes");
            else
            {
                str text = got.substr(0, z);
                if (len != (int)z)
                    o.fail("returned length " + std::to_string(len) + " != strlen(ans) " + std::to_string(z));
                if (full.compare(0, text.size(), text) != 0)
                    o.fail("answer " + H(text) + " is not a prefix of the help text " + H(full));
                // rshell_help uses all the room; the tables variant keeps one more byte free
                size_t must = std::min(full.size(), room - (op == "rhelp" ? 1 : std::min<size_t>(2, room)));
                if (text.size() < must)
                    o.fail("answer has " + std::to_string(text.size()) + " characters, " + std::to_string(must) + " fit");
                if (got.substr(z + 1) != str(room - z - 1, (char)0xA5))
                    o.fail("bytes behind the terminator were written");
                if (text.size() == full.size()) o.tag(full.size() + 1 == room ? "rhelp-exact-fit" : "rhelp-fits");
                else o.tag("rhelp-truncated");
            }
            if (ansmax == 1) o.tag("rhelp-one-byte");
        }
        for (auto x : tb)
            delete x;
        return true;
    }
    if (op == "rshv")
    {
        // rshv <dropargs> <names> <arg>...   (argc = number of args >= 1)
        int drop = atoi(w[1].c_str());
        toks names = list_arg(w[2]);
        toks args;
        for (size_t i = 3; i < w.size(); i++)
            args.push_back(U(w[i]));
        names_keeper nk;
        xbuf tb((names.size() + 1) * sizeof(rshell_command), 0);
        rshell_command *c = (rshell_command *)tb.p;
        for (size_t i = 0; i < names.size(); i++)
        {
            c[i].name = nk.add(names[i]);
            c[i].func = RH[i];
            c[i].help = 0;
        }
        xbuf av(args.size() * sizeof(char *), 0);
        for (size_t i = 0; i < args.size(); i++)
            ((char **)av.p)[i] = (char *)nk.add(args[i]);
        xbuf outb(7, 0);
        g_called = -1;
        g_argc = 0;
        g_args.clear();
        int ret = -777;
        // the handler must not read argv[i] for i >= argc - drop: rec() reads argc entries
        int rc = rshell_execute_v((int)args.size(), (char **)av.p, c, &ret, drop, outb.p, 7);
        o.result = fmt_dispatch(rc, ret);
        str want = "rc=" + std::to_string(ENOENT) + " ret=-777 call=none";
        for (size_t i = 0; i < names.size(); i++)
            if (names[i] == args[0])
            {
                want = "rc=0 ret=" + std::to_string(100 + i) + " call=" + std::to_string(i) + "/" + std::to_string((int)args.size() - drop);
                for (size_t a = drop; a < args.size(); a++)
                    want += ":" + H(args[a]);
                break;
            }
        if (o.result != want)
            o.fail("dispatch " + o.result + " != expected " + want);
        o.tag(g_called >= 0 ? "rshv-hit" : "rshv-miss");
        if (g_called >= 0 && drop) o.tag("rshv-dropargs");
        return true;
    }
    return false;
}

static void run_op(const std::vector<std::string> &w, const std::string &, out &o)
{
    if (run_op3(w, o))
        return;
    if (run_op2(w, o))
        return;
    const std::string &op = w[0];
    if (op == "reset")
    {
        o.result = "ok";
        return;
    }
    if (op == "splitc" || op == "splitd")
    {
        str s = U(w[1]), d = U(w[2]);
        xbuf b(s);
        toks got;
        if (op == "splitc")
            got = igris::split(b.buf(), d[0]);
        else
        {
            xbuf dz(cz(d));
            got = igris::split(b.buf(), (const char *)dz.p);
        }
        o.result = fmt_toks(got);
        toks want = ref_runs(s, d);
        if (got != want)
            o.fail("split " + fmt_toks(got) + " != maximal runs of non-delimiters " + fmt_toks(want));
        // inverse law on the implementation: split(join(tokens)) == tokens
        if (!got.empty())
        {
            str j = igris::join(got, d[0]);
            xbuf jb(j);
            toks again = op == "splitc" ? igris::split(jb.buf(), d[0]) : igris::split(jb.buf(), cz(d).c_str());
            if (again != got && s.find('\0') == str::npos)
                o.fail("split(join(split(s))) != split(s)");
        }
        if (s.empty()) o.tag("split-empty");
        else if (want.empty()) o.tag("split-all-delims");
        else
        {
            if (d.find(s.back()) != str::npos) o.tag("split-trailing-delim");
            else o.tag("split-token-at-end");
            if (d.find(s[0]) != str::npos) o.tag("split-leading-delim");
            if (want.size() > 1) o.tag("split-multi");
        }
        if (s.find('\0') != str::npos) o.tag("split-nul-in-buffer");
        return;
    }
    if (op == "join")
    {
        str d = U(w[1]);
        toks v;
        for (size_t i = 2; i < w.size(); i++)
            v.push_back(U(w[i]));
        // round 3: the vector and its strings are long-lived objects whose contents are rewritten
        static toks LV;
        LV.resize(v.size());
        for (size_t i = 0; i < v.size(); i++)
            LV[i].assign(v[i]);
        str got = igris::join(LV, d[0]);
        o.result = H(got);
        if (LV != v)
            o.fail("join changed its argument");
        if (got != ref_join(v, d))
            o.fail("join != intercalate");
        bool clean = !v.empty();
        for (auto &t : v)
            if (t.empty() || t.find(d[0]) != str::npos)
                clean = false;
        if (clean)
        {
            xbuf jb(got);
            if (igris::split(jb.buf(), d[0]) != v)
                o.fail("split(join(tokens)) != tokens for delimiter-free non-empty tokens");
            o.tag("join-clean");
        }
        if (v.empty()) o.tag("join-empty-list");
        if (v.size() == 1) o.tag("join-single");
        return;
    }
    if (op == "joinf")
    {
        // joinf <delim> <prefix> <postfix> tok...
        str d = U(w[1]), pre = U(w[2]), post = U(w[3]);
        toks v;
        for (size_t i = 4; i < w.size(); i++)
            v.push_back(U(w[i]));
        xbuf dz(cz(d)), prez(cz(pre)), postz(cz(post));
        static toks LV;
        LV.resize(v.size());
        for (size_t i = 0; i < v.size(); i++)
            LV[i].assign(v[i]);
        str got = igris::join(LV.begin(), LV.end(), (const char *)dz.p, (const char *)prez.p, (const char *)postz.p);
        if (LV != v)
            o.fail("join(range) changed its argument");
        o.result = H(got);
        if (got != pre + ref_join(v, d) + post)
            o.fail("join(range) != prefix + intercalate + postfix");
        if (v.empty()) o.tag("joinf-empty-range");
        else o.tag("joinf");
        return;
    }
    if (op == "trim")
    {
        str s = U(w[1]);
        xbuf b(s);
        str got = igris::trim(b.buf());
        o.result = H(got);
        if (got != ref_trim(s))
            o.fail("trim " + H(got) + " != strip " + H(ref_trim(s)));
        if (s.empty()) o.tag("trim-empty");
        else if (got.empty()) o.tag("trim-all-ws");
        else
        {
            if (WS_TRIM.find(s[0]) != str::npos) o.tag("trim-leading");
            if (WS_TRIM.find(s.back()) != str::npos) o.tag("trim-trailing");
            if (got.find_first_of(WS_TRIM) != str::npos) o.tag("trim-inner-ws-kept");
            if (got.size() == 1) o.tag("trim-single-char");
        }
        return;
    }
    if (op == "replace")
    {
        str s = U(w[1]), a = U(w[2]), b = U(w[3]);
        // std::string arguments: exactly what the API takes
        // round 3: long-lived std::string objects, contents rewritten between the calls
        static str LS, LA, LB;
        LS.assign(s);
        LA.assign(a);
        LB.assign(b);
        str got = igris::replace(LS, LA, LB);
        o.result = H(got);
        if (LS != s || LA != a || LB != b)
            o.fail("replace changed an argument");
        str want = ref_replace(s, a, b);
        if (got != want)
            o.fail("replace " + H(got) + " != leftmost non-overlapping substitution " + H(want));
        if (a.empty()) o.tag("replace-empty-pattern");
        else if (want != s || s.find(a) != str::npos) o.tag("replace-hit");
        if (!a.empty() && b.find(a) != str::npos) o.tag("replace-rep-contains-pattern");
        return;
    }
    if (op == "rsub")
    {
        size_t maxsize = strtoul(w[1].c_str(), 0, 10);
        str s = U(w[2]), a = U(w[3]), b = U(w[4]);
        xbuf in(s), sub(a), rep(b), outb(maxsize, 0xA5);
        replace_substrings(outb.p, maxsize, in.p, in.n, sub.p, sub.n, rep.p, rep.n);
        str got = outb.get();
        o.result = H(got);
        str full = ref_replace(s, a, b);
        if (maxsize > 0)
        {
            str want = full.substr(0, std::min(full.size(), maxsize - 1)) + str(1, '\0');
            want += str(maxsize - want.size(), (char)0xA5);
            if (got != want)
                o.fail("replace_substrings buffer " + H(got) + " != truncated substitution + NUL " + H(want));
            if (full.size() + 1 > maxsize) o.tag("rsub-truncated");
            else if (full.size() + 1 == maxsize) o.tag("rsub-exact-fit");
            else o.tag("rsub-fits");
        }
        else
            o.tag("rsub-maxsize0");
        if (a.empty()) o.tag("rsub-empty-pattern");
        return;
    }
    if (op == "memmem")
    {
        str l = U(w[1]), s = U(w[2]);
        xbuf lb(l), sb(s);
        char *r = (char *)igris_memmem(lb.p, lb.n, sb.p, sb.n);
        o.result = r ? std::to_string(r - lb.p) : "none";
        // first occurrence; by the routine's own convention ("we need
        // something to compare") an empty needle is never found
        size_t want = s.empty() ? str::npos : l.find(s);
        if (want == str::npos ? r != 0 : (r == 0 || (size_t)(r - lb.p) != want))
            o.fail("memmem " + o.result + " != first occurrence " + (want == str::npos ? str("none") : std::to_string(want)));
        if (s.empty()) o.tag("memmem-empty-needle");
        else if (l.size() < s.size()) o.tag("memmem-needle-longer");
        else if (want == str::npos) o.tag("memmem-miss");
        else if (want + s.size() == l.size()) o.tag("memmem-hit-at-end");
        else o.tag("memmem-hit");
        if (s.size() == 1) o.tag("memmem-single");
        if (want != str::npos && l.find(s, want + 1) != str::npos) o.tag("memmem-several");
        return;
    }
    if (op == "cmdargs")
    {
        str s = U(w[1]);
        xbuf b(s);
        toks got = igris::split_cmdargs(b.buf());
        o.result = fmt_toks(got);
        toks want = ref_cmdargs(s);
        if (got != want)
            o.fail("split_cmdargs " + fmt_toks(got) + " != reference " + fmt_toks(want));
        if (s.empty()) o.tag("cmd-empty");
        else if (want.empty()) o.tag("cmd-blank");
        if (s.find('"') != str::npos) o.tag("cmd-quote");
        if (std::count(s.begin(), s.end(), '"') % 2) o.tag("cmd-unclosed-quote");
        if (!s.empty() && s.back() == '"') o.tag("cmd-quote-at-end");
        if (!s.empty() && s.back() == ' ') o.tag("cmd-trailing-space");
        return;
    }
    if (op == "argvn" || op == "argv" || op == "argvnz")
    {
        run_argv(op != "argv", U(w[1]), atoi(w[2].c_str()), o, op == "argvnz");
        return;
    }
    if (op == "msh" || op == "msht")
    {
        run_msh(op == "msht", w, o);
        return;
    }
    if (op == "rsh" || op == "rsht")
    {
        run_rsh(op == "rsht", w, o);
        return;
    }
    if (op == "pnext")
    {
        str text = U(w[1]), p = upto_nul(text);
        xbuf b(cz(text));
        unsigned len = 12345;
        const char *r = path_next(b.p, &len);
        o.result = r ? std::to_string(r - b.p) + " " + std::to_string(len) : "null";
        size_t wl = 0, wp = first_real(p, 0, &wl);
        str want = wp == p.size() ? "null" : std::to_string(wp) + " " + std::to_string(wl);
        if (o.result != want)
            o.fail("path_next " + o.result + " != first real component " + want);
        // walking with path_next enumerates the real components
        toks walk;
        const char *q = b.p;
        unsigned l2;
        for (size_t guard = 0; guard < p.size() + 2 && (q = path_next(q, &l2)); guard++)
        {
            walk.push_back(str(q, l2));
            q += l2;
        }
        if (walk != real_comps(p))
            o.fail("path_next walk " + fmt_toks(walk) + " != components " + fmt_toks(real_comps(p)));
        if (path_next(0, &l2) != 0)
            o.fail("path_next(NULL) != NULL");
        if (p.empty()) o.tag("path-empty");
        else if (!r) o.tag("path-no-component");
        else if (r != b.p) o.tag("path-next-skipped");
        if (p.find("./") != str::npos || (p.size() && p.back() == '.')) o.tag("path-dot");
        if (walk.size() > 1) o.tag("path-multi");
        return;
    }
    if (op == "piter")
    {
        str text = U(w[1]), p = upto_nul(text);
        xbuf b(cz(text));
        const char *r = path_iterate(b.p);
        o.result = r ? std::to_string(r - b.p) : "null";
        str want = p.empty() ? "null" : std::to_string(first_real(p, p[0] == '/' ? 0 : 1));
        if (o.result != want)
            o.fail("path_iterate " + o.result + " != component-wise reference " + want);
        // iterating visits exactly the nodes
        toks walk;
        const char *q = b.p;
        for (size_t guard = 0; guard < p.size() + 2 && q && *q; guard++)
        {
            const char *e = q;
            while (*e && *e != '/')
                e++;
            walk.push_back(str(q, e - q));
            q = path_iterate(q);
        }
        toks wn;
        for (auto &c : nodes(p))
            wn.push_back(c.s);
        if (walk != wn)
            o.fail("path_iterate walk " + fmt_toks(walk) + " != nodes " + fmt_toks(wn));
        if (path_iterate(0) != 0)
            o.fail("path_iterate(NULL) != NULL");
        if (p.empty()) o.tag("path-empty");
        else if (p[0] == '/') o.tag("path-abs");
        else o.tag("path-rel");
        if (r && !*r) o.tag("path-iter-to-end");
        return;
    }
    if (op == "pcmp")
    {
        str ta = U(w[1]), tb2 = U(w[2]);
        xbuf a(cz(ta)), b(cz(tb2));
        int r = path_compare_node(a.p, b.p);
        o.result = std::to_string(r);
        int want = ref_cmp(upto_nul(ta), upto_nul(tb2));
        if (r != want)
            o.fail("path_compare_node " + o.result + " != " + std::to_string(want));
        if (path_compare_node(b.p, a.p) != -r)
            o.fail("path_compare_node not antisymmetric");
        o.tag(r == 0 ? "pcmp-eq" : r < 0 ? "pcmp-lt" : "pcmp-gt");
        return;
    }
    if (op == "premc")
    {
        // probe of the recorded finding: path_remove_prefix judged by the components
        // path_next enumerates (leading "./" pieces are no components)
        str tp = U(w[1]), tq = U(w[2]), p = upto_nul(tp), q = upto_nul(tq);
        xbuf a(cz(tp)), b(cz(tq));
        const char *r = path_remove_prefix(a.p, b.p);
        o.result = r ? std::to_string(r - a.p) : "null";
        std::vector<comp> cp, cq;
        for (auto &c : raw_comps(p)) if (real(c)) cp.push_back(c);
        for (auto &c : raw_comps(q)) if (real(c)) cq.push_back(c);
        size_t i = 0;
        while (i < cp.size() && i < cq.size() && cp[i].s == cq[i].s)
            i++;
        str want = std::to_string(i < cp.size() ? cp[i].pos : p.size());
        if (o.result != want)
            o.fail("path_remove_prefix " + o.result + " != after the common leading components " + want);
        o.tag("premc");
        return;
    }
    if (op == "prem")
    {
        str tp = U(w[1]), tq = U(w[2]), p = upto_nul(tp), q = upto_nul(tq);
        xbuf a(cz(tp)), b(cz(tq));
        const char *r = path_remove_prefix(a.p, b.p);
        o.result = r ? std::to_string(r - a.p) : "null";
        auto np = nodes(p), nq = nodes(q);
        size_t i = 0;
        while (true)
        {
            if (i >= np.size() && i >= nq.size())
                break;
            str A = i < np.size() ? np[i].s : "", B = i < nq.size() ? nq[i].s : "";
            if (A != B)
                break;
            if (i >= np.size() || i >= nq.size())
                break;
            i++;
        }
        str want = std::to_string(i < np.size() ? np[i].pos : p.size());
        if (o.result != want)
            o.fail("path_remove_prefix " + o.result + " != after the common leading nodes " + want);
        if (i == 0) o.tag("prem-nothing-common");
        else if (i >= nq.size()) o.tag("prem-whole-prefix");
        else o.tag("prem-partial-prefix");
        if (p.empty() || q.empty()) o.tag("prem-empty-side");
        return;
    }
    if (op == "creader")
    {
        str s = U(w[1]);
        xbuf b(s);
        struct creader rd;
        creader_init(&rd, b.p, b.n);
        str r;
        std::vector<std::pair<size_t, long>> got;
        bool loop = true;
        for (size_t k = 0; k < s.size() + 2; k++)
        {
            const char *tk;
            ptrdiff_t len = creader_readline(&rd, &tk);
            if (len < 0)
            {
                loop = false;
                break;
            }
            got.push_back({(size_t)(tk - b.p), (long)len});
            r += std::to_string(tk - b.p) + ":" + std::to_string(len) + ":" + std::to_string(creader_curpos(&rd)) + " ";
        }
        r += loop ? "LOOP" : "end";
        o.result = r;
        // reference: lines end at '\n' or NUL; carriage returns in front of the
        // terminator are not part of the line; a last line without terminator
        // is returned as it is
        std::vector<std::pair<size_t, long>> want;
        std::set<str> tg;
        size_t pos = 0;
        while (pos < s.size())
        {
            size_t e = s.find_first_of(str("\n\0", 2), pos);
            if (e == str::npos)
            {
                want.push_back({pos, (long)(s.size() - pos)});
                tg.insert("creader-unterminated-last-line");
                break;
            }
            size_t z = e;
            while (z > pos && s[z - 1] == '\r')
                z--;
            want.push_back({pos, (long)(z - pos)});
            if (z - pos == 1) tg.insert("creader-one-char-line");
            if (z == pos) tg.insert("creader-empty-line");
            if (z != e) tg.insert("creader-crlf");
            pos = e + 1;
        }
        if (loop)
            o.fail("creader_readline never reaches the end");
        else if (got != want)
            o.fail("creader lines differ from the reference");
        for (auto &t : tg)
            o.tag(t.c_str());
        if (s.empty()) o.tag("creader-empty");
        return;
    }
    o.result = "bad-op";
}


// ---------------------------------------------------------------- round 3 ops
#include <thread>
static premain_runner g_premain __attribute__((init_priority(102)));

static std::vector<std::vector<std::string>> split_calls(const std::vector<std::string> &w, size_t from)
{
    std::vector<std::vector<std::string>> r(1);
    for (size_t i = from; i < w.size(); i++)
        if (w[i] == "/")
            r.emplace_back();
        else
            r.back().push_back(w[i]);
    return r;
}

static bool run_op3(const std::vector<std::string> &w, out &o)
{
    const std::string &op = w[0];
    if (op == "re")
    {
        // re <call> / <call> / ...   one case = ONE set of long-lived argument buffers at fixed
        // addresses; every call rewrites their contents.  A call that starts with @t runs on a
        // second thread.  Every call is judged on its own by the oracle of its routine; the model
        // treats the calls as independent.
        static arena A;
        A.rewind();
        str res;
        bool first = true;
        for (auto &c : split_calls(w, 1))
        {
            bool thr = !c.empty() && c[0] == "@t";
            std::vector<std::string> cw(c.begin() + (thr ? 1 : 0), c.end());
            out sub;
            if (cw.empty() || cw[0] == "re" || cw[0] == "long" || cw[0] == "premain")
                sub.result = "bad-op";
            else
            {
                A.rewind();
                g_arena = &A;
                if (thr)
                {
                    std::thread t([&]() { run_op(cw, "", sub); });
                    t.join();
                }
                else
                    run_op(cw, "", sub);
                g_arena = 0;
            }
            res += (first ? "" : " / ") + sub.result;
            first = false;
            if (sub.oracle != "ok")
                o.fail("call `" + cw[0] + "` of the case: " + sub.oracle.substr(5));
            add_tags(o, sub);
            if (thr) o.tag("re-second-thread");
        }
        o.result = res;
        o.tag("re-fixed-addresses");
        return true;
    }
    if (op == "long")
    {
        // long <count> <unit> <tail> <routine> <args, one of them "@">: "@" = unit x count + tail.
        // The result is the digest (length, FNV-1a) of the routine's result line.
        size_t count = strtoul(w[1].c_str(), 0, 10);
        str unit = U(w[2]), tail = U(w[3]), big;
        big.reserve(unit.size() * count + tail.size());
        for (size_t i = 0; i < count; i++)
            big += unit;
        big += tail;
        std::vector<std::string> cw(w.begin() + 4, w.end());
        for (auto &x : cw)
            if (x == "@")
                x = H(big);
        out sub;
        if (cw.empty() || cw[0] == "re" || cw[0] == "long" || cw[0] == "premain")
            sub.result = "bad-op";
        else
            run_op(cw, "", sub);
        o.result = digest(sub.result);
        o.oracle = sub.oracle;
        o.tags = sub.tags;
        o.tag(big.size() >= 300 * 1024 ? "long-300KiB" : big.size() >= 65536 ? "long-64KiB" : "long");
        return true;
    }
    if (op == "premain")
    {
        // premain <k> <op>: the result the k-th op gave when it ran BEFORE main()
        size_t k = strtoul(w[1].c_str(), 0, 10);
        str line;
        for (size_t i = 2; i < w.size(); i++)
            line += (i > 2 ? " " : "") + w[i];
        if (k >= NPREMAIN || line != PREMAIN[k])
        {
            o.result = "bad-op";
            return true;
        }
        const out &pre = g_premain.res[k];
        o.result = pre.result;
        o.oracle = pre.oracle;
        o.tags = pre.tags;
        if (!g_premain.ran_before_main)
            o.fail("the pre-main runner did not run before main");
        out now;
        run_op(words(line), line, now);
        if (now.result != pre.result)
            o.fail("before main(): " + pre.result + ", inside main(): " + now.result);
        o.tag("premain");
        return true;
    }
    if (op == "consts")
    {
        // constants and widths the model embeds, read out of the compiled code
        auto argc_of = [&](bool r) {
            names_keeper nk;
            g_called = -1;
            g_argc = 0;
            g_args.clear();
            int ret = 0;
            xbuf line(cz("a b c d e f g h i j k l m n"));
            if (r)
            {
                rshell_command t[2] = {{nk.add("a"), RH[0], 0}, {0, 0, 0}};
                xbuf ob(4, 0);
                rshell_execute(line.p, t, &ret, 0, ob.p, 4);
            }
            else
            {
                mshell_command t[2] = {{nk.add("a"), MH[0], 0}, {0, 0, 0}};
                mshell_execute(line.p, t, &ret);
            }
            return g_argc;
        };
        unsigned plen = 0;
        o.result = "argcmax_m=" + std::to_string(argc_of(false)) + " argcmax_r=" + std::to_string(argc_of(true)) + " enoent=" + std::to_string(ENOENT) +
                   " ok=" + std::to_string(SSHELL_OK) + " plen=" + std::to_string(sizeof(plen) * 8) + " size_t=" + std::to_string(sizeof(size_t) * 8) +
                   " bufsize=" + std::to_string(sizeof(decltype(igris::buffer().size())) * 8) + " int=" + std::to_string(sizeof(int) * 8) +
                   " char_signed=" + std::to_string((int)((char)0x80 < 0)) + " isprint=";
        // the isprint table dstring relies on, as a 256-bit set
        str bits;
        for (int c = 0; c < 256; c += 8)
        {
            int b = 0;
            for (int k = 0; k < 8; k++)
                if (isprint((int)(char)(c + k)) )
                    b |= 1 << k;
            bits.push_back((char)b);
        }
        o.result += H(bits);
        static_assert(std::is_same<decltype(path_next((const char *)0, &plen)), const char *>::value, "path_next(const char*, unsigned*)");
        o.tag("consts");
        return true;
    }
    if (op == "rsubip")
    {
        // rsubip <block> <inlen> <sub> <rep>: replace_substrings IN PLACE, buffer == input ==
        // a block of <block> bytes (maxsize = block) whose first <inlen> bytes are the input.
        // Only for replen == sublen (or no occurrence): then every memcpy has dst == src.
        str blk = U(w[1]);
        size_t inlen = strtoul(w[2].c_str(), 0, 10);
        str a = U(w[3]), b = U(w[4]);
        xbuf m(blk), sub(a), rep(b);
        str in = blk.substr(0, inlen);
        replace_substrings(m.p, m.n, m.p, inlen, sub.p, sub.n, rep.p, rep.n);
        str got = m.get();
        o.result = H(got);
        str full = ref_replace(in, a, b);
        str want = full.substr(0, std::min(full.size(), blk.size() - 1)) + str(1, '\0');
        if (want.size() < blk.size())
            want += blk.substr(want.size());
        if (got != want)
            o.fail("in-place replace_substrings " + H(got) + " != substitution + NUL, rest of the block untouched " + H(want));
        o.tag(full == in ? "rsubip-no-hit" : "rsubip-hit");
        if (full.size() + 1 > blk.size()) o.tag("rsubip-truncated");
        return true;
    }
    return false;
}

// ---------------------------------------------------------------- gen
static void all_strings(const str &alpha, int maxlen, const std::function<void(const str &)> &f, int minlen = 0)
{
    for (int len = minlen; len <= maxlen; len++)
    {
        std::vector<int> idx(len, 0);
        while (true)
        {
            str s(len, 0);
            for (int i = 0; i < len; i++)
                s[i] = alpha[idx[i]];
            f(s);
            int k = len - 1;
            while (k >= 0 && ++idx[k] == (int)alpha.size())
                idx[k--] = 0;
            if (k < 0)
                break;
        }
    }
}
static str rnd_str(rng &r, const str &alpha, int len)
{
    str s(len, 0);
    for (auto &c : s)
        c = alpha[r.below(alpha.size())];
    return s;
}
static str names_arg(const toks &v)
{
    if (v.empty())
        return "-";
    str r;
    for (size_t i = 0; i < v.size(); i++)
        r += (i ? "," : "") + H(v[i]);
    return r;
}
// every generated line is printed; lines outside recorded findings are also kept (a bounded
// reservoir per routine) as the material of the fixed-address cases of round 3 (gen3)
#include <cstdarg>
#include <map>
static std::map<std::string, std::vector<std::string>> g_pool;
static std::map<std::string, unsigned long> g_seen;
static hv::rng g_pool_rng(12345);
static bool g_pool_on = true;
static void emitf(const char *fmt, ...) __attribute__((format(printf, 1, 2)));
static void emitf(const char *fmt, ...)
{
    va_list ap, ap2;
    va_start(ap, fmt);
    va_copy(ap2, ap);
    int n = vsnprintf(0, 0, fmt, ap);
    va_end(ap);
    std::string buf((size_t)n + 1, 0);
    vsnprintf(&buf[0], buf.size(), fmt, ap2);
    va_end(ap2);
    buf.resize((size_t)n);
    fputs(buf.c_str(), stdout);
    if (!g_pool_on)
        return;
    size_t i = 0;
    while (i < buf.size())
    {
        size_t j = buf.find('\n', i);
        if (j == std::string::npos)
            j = buf.size();
        std::string line = buf.substr(i, j - i);
        i = j + 1;
        if (line.empty() || line[0] == '@' || line.size() > 160)
            continue;
        std::string op = line.substr(0, line.find(' '));
        auto &v = g_pool[op];
        unsigned long k = ++g_seen[op];
        if (v.size() < 600)
            v.push_back(line);
        else
        {
            unsigned long x = g_pool_rng.below(k);
            if (x < v.size())
                v[x] = line;
        }
    }
}
#define P(...) emitf(__VA_ARGS__)
static const char *F_NUL = "@F:C19-split-delims-nul ";

static const char *F_ARGVN = "@F:C19-argvn-nul-not-terminator ";
static const char *F_PREMC = "@F:C19-path-remove-prefix-leading-dot ";
// probe where "NUL is one more separator" (the code) and "the line ends at its
// terminator" (argvc.h: safe variant of argvc_internal_split) give different arguments
static void emit_argvn_probe(const str &s, int m)
{
    if (s.find('\0') == str::npos || m <= 0)
        return;
    if (take(ref_runs(s, WS_ARGV + str(1, '\0')), m) != take(ref_runs(upto_nul(s), WS_ARGV), m))
        P("%sargvnz %s %d\n", F_ARGVN, H(s).c_str(), m);
}
// probe where a leading single-dot piece makes the node reading (the code) and the
// component reading differ
static void emit_premc_probe(const str &tp, const str &tq)
{
    str p = upto_nul(tp), q = upto_nul(tq);
    auto dot = [](const str &x) { return x == "." || x.compare(0, 2, "./") == 0; };
    if (!dot(p) && !dot(q))
        return;
    auto np = nodes(p), nq = nodes(q);
    size_t i = 0;
    while (i < np.size() && i < nq.size() && np[i].s == nq[i].s)
        i++;
    size_t code = i < np.size() ? np[i].pos : p.size();
    std::vector<comp> cp, cq;
    for (auto &c : raw_comps(p)) if (real(c)) cp.push_back(c);
    for (auto &c : raw_comps(q)) if (real(c)) cq.push_back(c);
    size_t k = 0;
    while (k < cp.size() && k < cq.size() && cp[k].s == cq[k].s)
        k++;
    size_t want = k < cp.size() ? cp[k].pos : p.size();
    if (code != want)
        P("%spremc %s %s\n", F_PREMC, H(tp).c_str(), H(tq).c_str());
}

static void emit_unary(const str &s)
{
    str h = H(s);
    bool nul = s.find('\0') != str::npos;
    P("splitc %s 20\nsplitc %s 2f\n", h.c_str(), h.c_str());
    P("%ssplitd %s 202f\n", nul ? F_NUL : "", h.c_str());
    P("trim %s\ncmdargs %s\ncreader %s\n", h.c_str(), h.c_str(), h.c_str());
    P("argvn %s 2\nargv %s 2\n", h.c_str(), h.c_str());
    emit_argvn_probe(s, 2);
    P("pnext %s\npiter %s\n", h.c_str(), h.c_str());
}


// ---------------------------------------------------------------- gen (extension)
static const char *F_BSL = "@F:C19-path-last-node-backslash ";
static const char *F_EQZ = "@F:C19-buffer-eq-cstr-prefix ";
static str entry_arg(const str &name, int help_kind, const str &help) // help_kind 0: NULL
{
    return H(name) + (help_kind ? ":" + H(help) : "");
}
static void emit_path2(const str &s)
{
    str h = H(s), p = upto_nul(s);
    P("pabs %s\npsimple %s\npdd %s\nplast %s\npnext0 %s\n", h.c_str(), h.c_str(), h.c_str(), h.c_str(), h.c_str());
    // the unix-separator reading of path_last_node: recorded finding
    size_t a = p.rfind('\\'), b = p.rfind('/');
    if ((a == str::npos ? 0 : a + 1) != (b == str::npos ? 0 : b + 1))
        P("%splastu %s\n", F_BSL, h.c_str());
}
// strncmp(a, z, |a|) == 0 computed by hand: where it differs from equality the
// comparison with a C string is a recorded finding (prefix / NUL in the buffer)
static void emit_beqz(const str &a, const str &t)
{
    str z = upto_nul(t);
    bool prefix_eq = true;
    for (size_t i = 0; i < a.size(); i++)
    {
        char x = a[i], y = i < z.size() ? z[i] : 0;
        if (x != y) { prefix_eq = false; break; }
        if (x == 0) break;
    }
    P("%sbeqz %s %s\n", prefix_eq != (a == z) ? F_EQZ : "", H(a).c_str(), H(t).c_str());
}
static void gen2(rng &r, bool th)
{
    // paths: every string <= 5 over {a / . \ NUL 0x80}, length 6 (7) over {a / . \}
    all_strings(str("a/.\\\0\x80", 6), 5, [&](const str &s) { emit_path2(s); });
    all_strings(str("a/.\\", 4), th ? 7 : 6, [&](const str &s) { emit_path2(s); }, 6);
    all_strings(str(" a\0\t", 4), th ? 6 : 5, [&](const str &s) { P("lenfirst %s\n", H(s).c_str()); });
    // creader_skip: every buffer <= 5 (6) over {space tab a NUL 0x80} x symbol sets
    {
        const std::vector<str> SY = {"", " ", "\t\n\r ", "a ", "\x80", str(" \0a", 3), "\x80\t"};
        all_strings(str(" \ta\0\x80", 5), th ? 6 : 5, [&](const str &s) {
            for (auto &y : SY)
                P("cskip %s %s\n", H(s).c_str(), H(y).c_str());
            P("cskipws %s\n", H(s).c_str());
        });
        all_strings(str(" \t\n\ra", 5), 4, [&](const str &s) { P("cskipws %s\n", H(s).c_str()); });
    }
    // buffer ==: all pairs of strings <= 3 over {a b NUL 0x80}; with C strings <= 4 over {a b 0x80}
    {
        std::vector<str> as, zs;
        all_strings(str("ab\0\x80", 4), 3, [&](const str &s) { as.push_back(s); });
        all_strings(str("ab\x80", 3), 4, [&](const str &s) { zs.push_back(s); });
        for (auto &a : as)
            for (auto &b : as)
                P("beq %s %s\n", H(a).c_str(), H(b).c_str());
        for (auto &a : as)
            for (auto &z : zs)
                emit_beqz(a, z);
        const char *arrs[] = {"00", "6100", "616200", "61006200", "6162630000", "610000000000", "616263646500"};
        for (auto a : arrs)
            P("bufctor c %s\nbufctor m %s\n", a, a);
        P("bufctor m 61\nbufctor m 616263\nbufctor m 616263646566\n");
    }
    // dstring: every single byte, every string <= 3 over the critical alphabet
    for (int c = 0; c < 256; c++)
        P("dstr %02x\ndstr 61%02x\n", c, c);
    all_strings(str("a\\\n\t\0\x80\xffnx~\x7f\x1f ", 13), 3, [&](const str &s) { P("dstr %s\n", H(s).c_str()); });
    all_strings(str("\\nx0a", 5), th ? 6 : 5, [&](const str &s) { P("dstr %s\n", H(s).c_str()); }, 4);
    // help: tables of <= 2 entries from a pool, every ansmax from -1 to the full length + 3
    {
        const std::vector<str> E = {entry_arg("a", 0, ""), entry_arg("ab", 1, "h"), entry_arg("", 1, ""), entry_arg("b", 1, ""), entry_arg("\x80", 1, "xy"),
                                    entry_arg("help", 1, "this text")};
        std::vector<str> T = {"_"};
        std::vector<size_t> L = {0};
        auto elen = [&](size_t i) { const size_t n[] = {3, 8, 5, 6, 8, 18}; return n[i]; };
        for (size_t i = 0; i < E.size(); i++)
        {
            T.push_back(E[i]);
            L.push_back(elen(i));
        }
        for (size_t i = 0; i < E.size(); i++)
            for (size_t j = 0; j < E.size(); j++)
            {
                T.push_back(E[i] + "," + E[j]);
                L.push_back(elen(i) + elen(j));
            }
        for (size_t t = 0; t < T.size(); t++)
        {
            P("mhelp %s\n", T[t].c_str());
            for (int m = -1; m <= (int)L[t] + 3; m++)
                P("rhelp %d %s\n", m, T[t].c_str());
        }
        P("mhelpt\nrhelpt 0\nrhelpt 1\nrhelpt 5\n");
        for (size_t t = 0; t < T.size(); t += (th ? 1 : 3))
            for (size_t u = 0; u < T.size(); u += (th ? 2 : 5))
            {
                P("mhelpt %s %s\n", T[t].c_str(), T[u].c_str());
                for (int m = -1; m <= (int)(L[t] + L[u]) + 3; m++)
                    P("rhelpt %d %s %s\n", m, T[t].c_str(), T[u].c_str());
            }
        for (int k = 0; k < (th ? 400 : 60); k++)
        {
            size_t a = r.below(T.size()), b = r.below(T.size()), c = r.below(T.size());
            int m = (int)r.range(-1, (int)(L[a] + L[b] + L[c]) + 3);
            P("rhelpt %d %s %s %s\nmhelpt %s %s %s\n", m, T[a].c_str(), T[b].c_str(), T[c].c_str(), T[a].c_str(), T[b].c_str(), T[c].c_str());
        }
    }
    // rshell_execute_v with the caller's argv (strings may contain white space), argc 1..3
    {
        const std::vector<str> Wd = {"a", "b", "ab", "", "a b", "\x80"};
        const std::vector<toks> tables = {{}, {"a"}, {"b", "a"}, {"ab", "a", "a"}, {"", "a b", "\x80"}};
        for (int n = 1; n <= 3; n++)
        {
            std::vector<int> idx(n, 0);
            while (true)
            {
                str line;
                for (int i = 0; i < n; i++)
                    line += " " + H(Wd[idx[i]]);
                for (auto &t : tables)
                    if (n < 3 || th || r.chance(25))
                        P("rshv %d %s%s\n", (int)r.below(n + 2), names_arg(t).c_str(), line.c_str());
                int k = n - 1;
                while (k >= 0 && ++idx[k] == (int)Wd.size())
                    idx[k--] = 0;
                if (k < 0)
                    break;
            }
        }
    }
    // command tables and lines with bytes >= 0x80 (strcmp compares unsigned char, the splitter char)
    {
        const std::vector<toks> tables = {{"\x80"}, {"a\xff", "\xff"}, {"a", "\x80" "a"}, {"\xff\x80", "\xff"}};
        all_strings(str(" a\x80\xff", 4), th ? 4 : 3, [&](const str &s) {
            for (auto &t : tables)
            {
                P("msh %s %s\nrsh %s %d %s\n", H(s).c_str(), names_arg(t).c_str(), H(s).c_str(), (int)r.below(2), names_arg(t).c_str());
            }
            P("msht %s %s %s\n", H(s).c_str(), names_arg(tables[1]).c_str(), names_arg(tables[0]).c_str());
            P("rsht %s 0:%s 1:%s\n", H(s).c_str(), names_arg(tables[2]).c_str(), names_arg(tables[3]).c_str());
        });
    }
    // random longer inputs
    int N = th ? 3000 : 400;
    const str WIDE = str(" a/.\\\"\0\n\r\t'bz\x80\xff\x7f\x01n", 18);
    for (int i = 0; i < N; i++)
    {
        int len = (int)r.range(6, r.chance(10) ? 200 : 40);
        str s = rnd_str(r, r.chance(50) ? str("ab/.\\") : WIDE, len);
        if (r.chance(30)) s.back() = r.chance(50) ? '\\' : '/';
        if (r.chance(15)) s[0] = r.chance(50) ? '\\' : '/';
        if (r.chance(30)) s = (r.chance(50) ? ".." : ".") + s;
        emit_path2(s);
        str t = rnd_str(r, WIDE, len);
        P("dstr %s\nlenfirst %s\n", H(t).c_str(), H(t).c_str());
        str ws = rnd_str(r, " \t\n\r", (int)r.range(0, 6)) + rnd_str(r, WIDE, (int)r.range(0, 10));
        P("cskipws %s\ncskip %s %s\n", H(ws).c_str(), H(ws).c_str(), H(rnd_str(r, " \t\n\ra\x80", (int)r.range(0, 4))).c_str());
        // buffers: equal, differing in one byte, differing behind a NUL, prefix
        str a = rnd_str(r, str("ab\0\x80", 4), (int)r.range(0, 24)), b = a;
        if (!b.empty() && r.chance(60)) b[r.below(b.size())] ^= (char)(1 << r.below(8));
        if (r.chance(15)) b += "a";
        P("beq %s %s\n", H(a).c_str(), H(b).c_str());
        str z = rnd_str(r, str("ab\x80", 3), (int)r.range(0, 12)), za = z.substr(0, r.below(z.size() + 1));
        emit_beqz(r.chance(50) ? z : za, z);
        emit_beqz(a, upto_nul(b));
    }
}


// ---------------------------------------------------------------- gen (round 3)
static void gen3(rng &r, bool th)
{
    g_pool_on = false;
    P("consts\n");
    for (size_t k = 0; k < NPREMAIN; k++)
        P("premain %zu %s\n", k, PREMAIN[k]);
    // (a) fixed-address cases.  split(buffer, delims): every ordered pair of delimiter strings of
    //     the SAME length (same extent, same address, other contents) on lines that contain both
    {
        const std::vector<str> D1 = {",", ";", " ", "a"}, D2 = {",;", "; ", " ,", "a,"};
        const std::vector<str> L = {"a,b;c,d", ";a, b;", "a b,c;d a", ",,;;", "abc"};
        for (auto &l : L)
            for (auto *D : {&D1, &D2})
                for (auto &d1 : *D)
                    for (auto &d2 : *D)
                    {
                        if (d1 == d2)
                            continue;
                        P("re splitd %s %s / splitd %s %s\n", H(l).c_str(), H(d1).c_str(), H(l).c_str(), H(d2).c_str());
                        if (th || r.chance(40))
                            P("re splitd %s %s / @t splitd %s %s / splitd %s %s / splitd %s %s\n", H(l).c_str(), H(d1).c_str(), H(L[r.below(L.size())]).c_str(),
                              H(d2).c_str(), H(l).c_str(), H(d2).c_str(), H(L[r.below(L.size())]).c_str(), H(d1).c_str());
                    }
        // the same for every routine with pointer arguments: cases of 2..4 calls drawn from the
        // lines the generators above produced for that routine (same roles -> same addresses),
        // a call on a second thread in between, and cases that mix routines
        std::vector<std::string> ops;
        for (auto &kv : g_pool)
            if (kv.first != "reset" && kv.first != "bufctor")
                ops.push_back(kv.first);
        int per = th ? 1200 : 160;
        for (auto &op : ops)
        {
            auto &v = g_pool[op];
            for (int i = 0; i < per; i++)
            {
                int n = (int)r.range(2, 4);
                int t = r.chance(25) ? (int)r.range(1, n - 1) : -1;
                str line = "re";
                for (int k = 0; k < n; k++)
                    line += str(k ? " / " : " ") + (k == t ? "@t " : "") + v[r.below(v.size())];
                P("%s\n", line.c_str());
            }
        }
        for (int i = 0; i < (th ? 6000 : 800); i++)
        {
            int n = (int)r.range(2, 5);
            str line = "re";
            for (int k = 0; k < n; k++)
            {
                auto &v = g_pool[ops[r.below(ops.size())]];
                line += str(k ? " / " : " ") + (r.chance(10) ? "@t " : "") + v[r.below(v.size())];
            }
            P("%s\n", line.c_str());
        }
    }
    // (b) boundary parameters, permanently in the stream: argcmax 0, 1, words-1, words, words+1
    //     for lines of 0..12 words; maxsize 0 .. needed+2 of replace_substrings
    for (int words = 0; words <= 12; words++)
    {
        str line = r.chance(50) ? " " : "";
        for (int k = 0; k < words; k++)
            line += str(1, (char)('a' + k)) + (k + 1 < words || r.chance(50) ? (r.chance(50) ? " " : "\t ") : "");
        std::set<int> ms = {0, 1, words - 1, words, words + 1};
        for (int m : ms)
            if (m >= 0)
                P("argv %s %d\nargvn %s %d\n", H(line).c_str(), m, H(line).c_str(), m);
    }
    {
        std::vector<str> pats;
        all_strings("a.", 2, [&](const str &s) { pats.push_back(s); });
        all_strings("a.", th ? 5 : 4, [&](const str &s) {
            for (auto &p : pats)
                for (auto &q : {str(""), str("."), str("aa."), str("a")})
                {
                    size_t full = ref_replace(s, p, q).size();
                    for (size_t m = 0; m <= full + 2; m++)
                        if (th || m <= 1 || m + 2 >= full)
                            P("rsub %zu %s %s %s\n", m, H(s).c_str(), H(p).c_str(), H(q).c_str());
                }
        });
    }
    // (c) replace_substrings in place (buffer == input), replacement as long as the pattern
    {
        std::vector<str> pats;
        all_strings("a.", 2, [&](const str &s) { pats.push_back(s); }, 1);
        all_strings("a.", th ? 5 : 4, [&](const str &s) {
            for (auto &p : pats)
                for (auto &q : pats)
                    if (p.size() == q.size())
                    {
                        P("rsubip %s %zu %s %s\n", H(s + "Z").c_str(), s.size(), H(p).c_str(), H(q).c_str());    // room for the terminator
                        P("rsubip %s %zu %s %s\n", H(s + "ZYX").c_str(), s.size(), H(p).c_str(), H(q).c_str()); // generous
                        if (!s.empty())
                            P("rsubip %s %zu %s %s\n", H(s).c_str(), s.size(), H(p).c_str(), H(q).c_str()); // maxsize == inlen: last byte cut
                    }
        });
    }
    // (d) long inputs: boundary lengths and >= 300 KiB through every linear routine
    {
        // sel: which routines (quick tier: the 300 KiB inputs go through a selection, the model
        // driver needs about a second for each; thorough: all of them)
        auto each = [&](size_t count, const str &unit, const str &tail, const char *sel = 0) {
            str a = std::to_string(count) + " " + H(unit) + " " + H(tail);
            auto on = [&](char c) { return th || !sel || strchr(sel, c); };
            if (on('c')) P("long %s splitc @ 20\n", a.c_str());
            if (on('d')) P("long %s splitd @ 202c\n", a.c_str());
            if (on('q')) P("long %s cmdargs @\n", a.c_str());
            if (on('t')) P("long %s trim @\n", a.c_str());
            if (on('m')) P("long %s memmem @ 6162\nlong %s memmem @ %s\n", a.c_str(), a.c_str(), H(tail.empty() ? unit : tail).c_str());
            // the model's replace loop costs (matches x length): many matches only on the short inputs
            if (on('r')) P("long %s replace @ %s 6262\n", a.c_str(), unit.size() * count > 8192 ? "6162" : "61");
            if (on('s')) P("long %s rsub %zu @ 6120 2e\n", a.c_str(), (size_t)r.range(0, (long)(unit.size() * count + 2)));
            if (on('a')) P("long %s argv @ 10\n", a.c_str());
            if (on('n')) P("long %s argvn @ 10\n", a.c_str());
            if (on('l')) P("long %s creader @\n", a.c_str());
            if (on('h')) P("long %s msh @ 61\n", a.c_str());
            if (on('p')) P("long %s pnext @\nlong %s piter @\n", a.c_str(), a.c_str());
        };
        for (size_t n : {255, 256, 257, 4095, 4096, 4097})
        {
            each(n, "a", "");
            each(n - 1, "a", " ");
        }
        if (th)
            for (size_t n : {65535, 65536, 65537})
                each(n, "a", "");
        // 300 KiB: about 1000 tokens / lines / matches of 307 bytes each
        str w300(299, 'a');
        each(1001, w300 + " a, b\n", "", "dtma");
        each(1001, " " + w300 + "/./a\"b\r\n", "x", "-");
        // 300 KiB without any delimiter, of white space only, of one-character path components
        each(307200, "a", "", "tm");
        each(307200, " ", "", "dtah");
        each(153600, "a/", "", "cp");
        {
            // a periodic needle (every position a candidate), 300 matches of a 65-byte pattern
            str nd = str(127, 'a') + "b", u1k = str(1023, 'a') + "b", n64 = str(64, 'a') + "b";
            P("long 307200 61 62 memmem @ %s\nlong 307200 61 - memmem @ %s\n", H(nd).c_str(), H(nd).c_str());
            P("long 300 %s - replace @ %s 2e\n", H(u1k).c_str(), H(n64).c_str());
            if (th)
            {
                P("long 300 %s - rsub 300000 @ %s 2e2e\n", H(u1k).c_str(), H(n64).c_str());
                P("long 300 %s - rsub 310000 @ 62 2e2e2e\n", H(u1k).c_str());
            }
        }
        // join of 1000 tokens of 300 bytes
        if (th)
        {
            str line;
            for (int k = 0; k < 1000; k++)
                line += " @";
            P("long 300 61 - join 2c%s\nlong 300 61 - joinf 2c20 5b 5d%s\n", line.c_str(), line.c_str());
        }
    }
}

static void gen(rng &r, const std::string &tier)
{
    bool th = tier == "thorough";
    const str A7 = str(" a/.\"\0\n", 7);
    // (1) all strings over the property's alphabet
    //     quick: length <= 5 for every unary routine (19 608 strings);
    //     thorough: length 6 as well, cut in 8 slices by seed % 8 (the 8
    //     derived seeds of a thorough run cover all of them)
    all_strings(A7, 5, [&](const str &s) { emit_unary(s); });
    {
        // r.s % 8 is a bijection of seed % 8 (odd multiplier) and the derived
        // seeds of a thorough run are seed*1000 + 0..7: all slices are covered
        unsigned long n = 0, slice = (unsigned long)(r.s % 8);
        all_strings(
            A7, 6,
            [&](const str &s) {
                n++;
                if (th ? (n % 8 == slice) : (n % 64 == slice))
                    emit_unary(s);
            },
            6);
    }
    // (2) routine-specific alphabets
    //     white-space sets of trim / argv: " \n\r\t"
    all_strings(str(" \n\r\ta\0", 6), th ? 5 : 4, [&](const str &s) {
        str h = H(s);
        P("trim %s\nargv %s 3\nargvn %s 3\ncreader %s\n", h.c_str(), h.c_str(), h.c_str(), h.c_str());
        emit_argvn_probe(s, 3);
        P("%ssplitd %s 0a0d09\n", s.find('\0') != str::npos ? F_NUL : "", h.c_str());
    });
    //     both quote characters
    all_strings(str(" a\"'", 4), th ? 7 : 6, [&](const str &s) { P("cmdargs %s\n", H(s).c_str()); });
    //     argcmax 0..3 on short lines
    all_strings(str(" a\t\0", 4), 5, [&](const str &s) {
        for (int m = 0; m <= 3; m++)
        {
            P("argvn %s %d\nargv %s %d\n", H(s).c_str(), m, H(s).c_str(), m);
            emit_argvn_probe(s, m);
        }
    });
    //     memmem: every haystack <= 6 x needle <= 3 over {a, /, NUL}
    {
        std::vector<str> needles;
        all_strings(str("a/\0", 3), 3, [&](const str &s) { needles.push_back(s); });
        all_strings(str("a/\0", 3), th ? 7 : 6, [&](const str &l) {
            for (auto &s : needles)
                P("memmem %s %s\n", H(l).c_str(), H(s).c_str());
        });
    }
    //     replace / replace_substrings: src <= 5 over {a, ., NUL}, pattern <= 2
    {
        std::vector<str> pats;
        all_strings(str("a.\0", 3), 2, [&](const str &s) { pats.push_back(s); });
        const std::vector<str> reps = {"", "a", "..", str("a\0a", 3), "aa."};
        all_strings(str("a.\0", 3), 5, [&](const str &s) {
            for (auto &p : pats)
                for (auto &q : reps)
                {
                    P("replace %s %s %s\n", H(s).c_str(), H(p).c_str(), H(q).c_str());
                    str full = ref_replace(s, p, q);
                    // output buffers: exact fit, one short, generous, tiny
                    size_t sizes[4] = {full.size() + 1, full.size(), full.size() + 3, (size_t)r.below(3)};
                    size_t pick = r.below(3);
                    for (size_t k = 0; k < 4; k++)
                        if (th || k == pick || k == 3)
                            P("rsub %zu %s %s %s\n", sizes[k], H(s).c_str(), H(p).c_str(), H(q).c_str());
                }
        });
    }
    //     joins: all token lists of <= 3 tokens over tokens {"", a, aa, " ", "a b"}
    {
        const std::vector<str> T = {"", "a", "aa", " ", "a b", "/"};
        for (int n = 0; n <= 3; n++)
        {
            std::vector<int> idx(n, 0);
            while (true)
            {
                str line;
                for (int i = 0; i < n; i++)
                    line += " " + H(T[idx[i]]);
                P("join 20%s\njoin 2f%s\njoinf 2c20 5b 5d%s\njoinf - - -%s\n", line.c_str(), line.c_str(), line.c_str(), line.c_str());
                int k = n - 1;
                while (k >= 0 && ++idx[k] == (int)T.size())
                    idx[k--] = 0;
                if (k < 0)
                    break;
            }
        }
    }
    //     paths: pairs of all paths <= 4 over {a, b, /, .} for compare, <= 4 over {a,/,.} for remove_prefix
    {
        std::vector<str> ps;
        all_strings("ab/.", 3, [&](const str &s) { ps.push_back(s); });
        for (auto &a : ps)
            for (auto &b : ps)
                P("pcmp %s %s\n", H(a).c_str(), H(b).c_str());
        std::vector<str> qs;
        all_strings("a/.", th ? 5 : 4, [&](const str &s) { qs.push_back(s); });
        for (auto &a : qs)
            for (auto &b : qs)
            {
                P("prem %s %s\n", H(a).c_str(), H(b).c_str());
                emit_premc_probe(a, b);
            }
        all_strings("ab/.", th ? 8 : 7, [&](const str &s) { P("pnext %s\npiter %s\n", H(s).c_str(), H(s).c_str()); }, 6);
    }
    //     dispatchers: every line <= 4 over {space, a, b, tab, NUL} x command tables of 0..3 entries
    {
        const std::vector<toks> tables = {{}, {"a"}, {"b", "a"}, {"ab", "a", "a"}, {"aa", "b", "ab"}};
        all_strings(str(" ab\t\0", 5), th ? 5 : 4, [&](const str &s) {
            const toks &t = tables[r.below(tables.size())];
            const toks &t2 = tables[r.below(tables.size())];
            P("msh %s %s\n", H(s).c_str(), names_arg(t).c_str());
            P("rsh %s %d %s\n", H(s).c_str(), (int)r.below(2), names_arg(t).c_str());
            if (th || r.chance(30))
            {
                P("msht %s %s %s\n", H(s).c_str(), names_arg(t).c_str(), names_arg(t2).c_str());
                P("rsht %s %d:%s %d:%s\n", H(s).c_str(), (int)r.below(2), names_arg(t).c_str(), (int)r.below(2), names_arg(t2).c_str());
            }
        });
        // no table at all / three tables
        P("msht 61\nrsht 61\nmsht - \nmsht 61 - - 61\nrsht 61 0:- 1:- 0:61\n");
    }
    // (2b) the routines added by the extension
    gen2(r, th);
    // (3) random longer inputs, biased towards structure
    int N = th ? 4000 : 600;
    const str WIDE = str(" a/.\"\0\n\r\t'bz\x80\xff,", 15);
    for (int i = 0; i < N; i++)
    {
        int len = (int)r.range(7, r.chance(10) ? 200 : 40);
        const str &al = r.chance(50) ? A7 : WIDE;
        str s = rnd_str(r, al, len);
        // boundary bias: force the last / first character
        if (r.chance(30)) s.back() = r.chance(50) ? ' ' : '"';
        if (r.chance(20)) s[0] = ' ';
        emit_unary(s);
        str h = H(s);
        P("argvn %s %d\nargv %s %d\n", h.c_str(), (int)r.range(0, 12), h.c_str(), (int)r.range(0, 12));
        str d = rnd_str(r, str(" /.,\n\t\"a"), (int)r.range(1, 3));
        P("%ssplitd %s %s\n", s.find('\0') != str::npos ? F_NUL : "", h.c_str(), H(d).c_str());
        P("splitc %s %s\n", h.c_str(), H(str(1, al[r.below(al.size())])).c_str());
        // memmem / replace with a needle cut out of the haystack (mostly hits)
        size_t a = r.below(len), l = (size_t)r.range(0, std::min(4, len - (int)a));
        str needle = r.chance(75) ? s.substr(a, l) : rnd_str(r, al, (int)r.range(0, 3));
        P("memmem %s %s\n", h.c_str(), H(needle).c_str());
        str rep = rnd_str(r, al, (int)r.range(0, 4));
        P("replace %s %s %s\n", h.c_str(), H(needle).c_str(), H(rep).c_str());
        str full = ref_replace(s, needle, rep);
        size_t ms = r.chance(50) ? full.size() + 1 : (size_t)r.range(0, (int)full.size() + 4);
        P("rsub %zu %s %s %s\n", ms, h.c_str(), H(needle).c_str(), H(rep).c_str());
        // joins of random tokens
        {
            int n = (int)r.range(0, 6);
            str line;
            for (int k = 0; k < n; k++)
                line += " " + H(rnd_str(r, r.chance(70) ? str("abz.") : al, (int)r.range(r.chance(80) ? 1 : 0, 5)));
            P("join 20%s\njoinf %s %s %s%s\n", line.c_str(), H(rnd_str(r, ", ;", (int)r.range(0, 2))).c_str(), H(rnd_str(r, "[(<", (int)r.range(0, 2))).c_str(),
              H(rnd_str(r, "])>", (int)r.range(0, 2))).c_str(), line.c_str());
        }
        // structured paths: components from a small pool joined by runs of '/'
        {
            auto mk = [&]() {
                static const std::vector<str> C = {"a", "b", ".", "..", "ab", "", "a.", ".a", "\x80"};
                str p = r.chance(50) ? "/" : "";
                int n = (int)r.range(0, 5);
                for (int k = 0; k < n; k++)
                    p += C[r.below(C.size())] + (k + 1 < n || r.chance(30) ? str(1 + r.below(2), '/') : "");
                return p;
            };
            str p1 = mk(), p2 = r.chance(60) ? p1.substr(0, r.below(p1.size() + 1)) + (r.chance(30) ? mk() : "") : mk();
            P("pnext %s\npiter %s\npcmp %s %s\nprem %s %s\nprem %s %s\n", H(p1).c_str(), H(p1).c_str(), H(p1).c_str(), H(p2).c_str(), H(p1).c_str(),
              H(p2).c_str(), H(p2).c_str(), H(p1).c_str());
            emit_premc_probe(p1, p2);
            emit_premc_probe(p2, p1);
        }
        // command lines: words from a pool, 0..14 of them, random white space
        {
            static const std::vector<str> Wd = {"a", "b", "ab", "help", "set", "x"};
            int n = (int)r.range(0, r.chance(15) ? 14 : 4);
            str line = rnd_str(r, " \t", (int)r.below(3));
            for (int k = 0; k < n; k++)
                line += Wd[r.below(Wd.size())] + rnd_str(r, " \t\r\n", (int)r.range(k + 1 < n ? 1 : 0, 3));
            std::vector<toks> tb;
            for (int t = 0; t < 3; t++)
            {
                toks names;
                int m = (int)r.range(0, 3);
                for (int k = 0; k < m; k++)
                    names.push_back(Wd[r.below(Wd.size())]);
                tb.push_back(names);
            }
            str lh = H(line);
            P("msh %s %s\n", lh.c_str(), names_arg(tb[0]).c_str());
            P("rsh %s %d %s\n", lh.c_str(), (int)r.below(3), names_arg(tb[0]).c_str());
            P("msht %s %s %s %s\n", lh.c_str(), names_arg(tb[0]).c_str(), names_arg(tb[1]).c_str(), names_arg(tb[2]).c_str());
            P("rsht %s %d:%s %d:%s %d:%s\n", lh.c_str(), (int)r.below(2), names_arg(tb[0]).c_str(), (int)r.below(2), names_arg(tb[1]).c_str(), (int)r.below(3),
              names_arg(tb[2]).c_str());
            P("argv %s %d\nargvn %s %d\n", lh.c_str(), (int)r.range(0, 12), lh.c_str(), (int)r.range(0, 12));
        }
    }
    // (4) round 3: fixed-address cases, boundary parameters, long inputs, pre-main calls, constants
    gen3(r, th);
}

int main(int argc, char **argv)
{
    g_in_main = true;
    return main_(argc, argv, gen, run_op);
}
