// C19 harness: text, path and command-line utilities of igris against the
// Lean model (IgrisModel/C19).
//
//   igris/util/string.{h,cpp}      split(char), split(delims), split_cmdargs, join, join<Iter>, trim
//   igris/string/replace.cpp       igris::replace
//   igris/string/replace_substrings.c, igris/string/memmem.c
//   igris/datastruct/argvc.h       argvc_internal_split, argvc_internal_split_n
//   igris/shell/mshell.c, rshell.c the four dispatchers
//   igris/util/pathops.h           path_next, path_iterate, path_compare_node, path_remove_prefix
//   igris/creader.h                creader_readline
//
// Every buffer handed to the code is an exactly sized heap allocation (also
// the empty one: a pointer one past a 1-byte block), C strings are text+NUL in
// exactly strlen+1 bytes, so ASan reports any access outside the extent.
// The oracles are independent std::string based references.
#include "common/hv.h"
#include <algorithm>
#include <cerrno>
#include <functional>
#include <set>

#include <igris/util/string.h>
#include <igris/util/pathops.h>
#include <igris/creader.h>
extern "C"
{
#include <igris/shell/mshell.h>
#include <igris/shell/rshell.h>
}

using namespace hv;
typedef std::string str;
typedef std::vector<std::string> toks;

static_assert(sizeof(void *) == 8, "LP64");
static_assert((char)0x80 < 0, "char is signed");

// ------------------------------------------------------------------ buffers
// exactly sized heap copy; for n == 0 the pointer is one past a 1-byte block,
// so that even reading *p is reported (hv::exact_buf would give a valid byte)
struct xbuf
{
    char *base;
    char *p;
    size_t n;
    explicit xbuf(const str &s) : n(s.size())
    {
        if (n == 0)
        {
            base = (char *)malloc(1);
            p = base + 1;
        }
        else
        {
            base = (char *)malloc(n);
            p = base;
            memcpy(p, s.data(), n);
        }
    }
    xbuf(size_t size, int fill) : n(size)
    {
        if (n == 0)
        {
            base = (char *)malloc(1);
            p = base + 1;
        }
        else
        {
            base = (char *)malloc(n);
            p = base;
            memset(p, fill, n);
        }
    }
    ~xbuf() { free(base); }
    xbuf(const xbuf &) = delete;
    str get() const { return str(p, n); }
    igris::buffer buf() const { return igris::buffer((const void *)p, n); }
};
// C string: text + NUL in exactly text.size()+1 bytes
static str cz(const str &s) { return s + str(1, '\0'); }

static str H(const str &s) { return hex(s); }
static str U(const std::string &h)
{
    auto v = unhex(h);
    return str(v.begin(), v.end());
}
static str fmt_toks(const toks &v)
{
    str r = std::to_string(v.size());
    for (auto &t : v)
        r += " " + H(t);
    return r;
}
static toks list_arg(const std::string &w) // "61,62" or "-" -> {"a","b"} / {}
{
    toks r;
    if (w == "-")
        return r;
    size_t i = 0;
    while (true)
    {
        size_t j = w.find(',', i);
        r.push_back(U(w.substr(i, j == str::npos ? j : j - i)));
        if (j == str::npos)
            break;
        i = j + 1;
    }
    return r;
}
static str upto_nul(const str &s) { return s.substr(0, s.find('\0')); }

// ---------------------------------------------------------------- references
static const str WS_ARGV = str(" \r\n\t");
static const str WS_TRIM = str(" \n\r\t");

// maximal runs of characters not in `delims`
static toks ref_runs(const str &s, const str &delims)
{
    toks out;
    size_t i = 0;
    while ((i = s.find_first_not_of(delims, i)) != str::npos)
    {
        size_t j = s.find_first_of(delims, i);
        out.push_back(s.substr(i, j == str::npos ? j : j - i));
        if (j == str::npos)
            break;
        i = j;
    }
    return out;
}
static str ref_join(const toks &v, const str &d)
{
    str r;
    for (size_t i = 0; i < v.size(); i++)
    {
        if (i)
            r += d;
        r += v[i];
    }
    return r;
}
static str ref_trim(const str &s)
{
    size_t a = s.find_first_not_of(WS_TRIM);
    if (a == str::npos)
        return "";
    size_t b = s.find_last_not_of(WS_TRIM);
    return s.substr(a, b - a + 1);
}
static str ref_replace(const str &s, const str &o, const str &n)
{
    if (o.empty())
        return s;
    str r;
    size_t i = 0;
    while (true)
    {
        size_t j = s.find(o, i);
        if (j == str::npos)
            break;
        r += s.substr(i, j - i);
        r += n;
        i = j + o.size();
    }
    r += s.substr(i);
    return r;
}
static toks ref_cmdargs(const str &s)
{
    toks out;
    size_t i = 0;
    while ((i = s.find_first_not_of(' ', i)) != str::npos)
    {
        if (s[i] == '"' || s[i] == '\'')
        {
            size_t j = s.find(s[i], i + 1);
            if (j == str::npos)
            {
                out.push_back(s.substr(i + 1));
                break;
            }
            out.push_back(s.substr(i + 1, j - i - 1));
            i = j + 1;
        }
        else
        {
            size_t j = s.find(' ', i);
            out.push_back(s.substr(i, j == str::npos ? j : j - i));
            if (j == str::npos)
                break;
            i = j;
        }
    }
    return out;
}
static toks take(const toks &v, size_t n) { return toks(v.begin(), v.begin() + std::min(n, v.size())); }

// paths, component-wise
struct comp
{
    size_t pos;
    str s;
};
static std::vector<comp> raw_comps(const str &p) // split on '/', always >= 1 piece
{
    std::vector<comp> r;
    size_t i = 0;
    while (true)
    {
        size_t j = p.find('/', i);
        r.push_back({i, p.substr(i, j == str::npos ? j : j - i)});
        if (j == str::npos)
            break;
        i = j + 1;
    }
    return r;
}
static bool real(const comp &c) { return !c.s.empty() && c.s != "."; }
static toks real_comps(const str &p)
{
    toks r;
    for (auto &c : raw_comps(p))
        if (real(c))
            r.push_back(c.s);
    return r;
}
// position of the first real component with raw index >= k, or p.size()
static size_t first_real(const str &p, size_t k, size_t *len = 0)
{
    auto cs = raw_comps(p);
    for (size_t i = k; i < cs.size(); i++)
        if (real(cs[i]))
        {
            if (len)
                *len = cs[i].s.size();
            return cs[i].pos;
        }
    return p.size();
}
// nodes as path_iterate walks them: a leading '/' is a node of its own (""),
// a relative path starts with its first raw component whatever it is,
// afterwards only real components
static std::vector<comp> nodes(const str &p)
{
    std::vector<comp> r;
    if (p.empty())
        return r;
    auto cs = raw_comps(p);
    r.push_back(cs[0]);
    for (size_t i = 1; i < cs.size(); i++)
        if (real(cs[i]))
            r.push_back(cs[i]);
    return r;
}
static int ref_cmp(const str &a, const str &b)
{
    str ca = a.substr(0, a.find('/')), cb = b.substr(0, b.find('/'));
    std::vector<signed char> va(ca.begin(), ca.end()), vb(cb.begin(), cb.end());
    if (va == vb)
        return 0;
    return std::lexicographical_compare(va.begin(), va.end(), vb.begin(), vb.end()) ? -1 : 1;
}

// ---------------------------------------------------------------- shell glue
static int g_called, g_argc, g_max;
static toks g_args;
static char *g_out;
static void rec(int k, int argc, char **argv)
{
    g_called = k;
    g_argc = argc;
    for (int i = 0; i < argc; i++)
        g_args.push_back(argv[i]);
}
template <int K> static int mh(int argc, char **argv)
{
    rec(K, argc, argv);
    return 100 + K;
}
template <int K> static int rh(int argc, char **argv, char *out, int maxsize)
{
    rec(K, argc, argv);
    g_out = out;
    g_max = maxsize;
    return 100 + K;
}
typedef int (*mfn)(int, char **);
typedef int (*rfn)(int, char **, char *, int);
static mfn MH[12] = {mh<0>, mh<1>, mh<2>, mh<3>, mh<4>, mh<5>, mh<6>, mh<7>, mh<8>, mh<9>, mh<10>, mh<11>};
static rfn RH[12] = {rh<0>, rh<1>, rh<2>, rh<3>, rh<4>, rh<5>, rh<6>, rh<7>, rh<8>, rh<9>, rh<10>, rh<11>};

struct names_keeper
{
    std::vector<char *> ptrs;
    const char *add(const str &s)
    {
        char *p = (char *)malloc(s.size() + 1);
        memcpy(p, s.data(), s.size());
        p[s.size()] = 0;
        ptrs.push_back(p);
        return p;
    }
    ~names_keeper()
    {
        for (auto p : ptrs)
            free(p);
    }
};

static str fmt_dispatch(int rc, int ret)
{
    str r = "rc=" + std::to_string(rc) + " ret=" + std::to_string(ret) + " call=";
    if (g_called < 0)
        return r + "none";
    r += std::to_string(g_called) + "/" + std::to_string(g_argc);
    for (auto &a : g_args)
        r += ":" + H(a);
    return r;
}

// expected dispatch: tables[t] = names; handler index = 4*t + i; drop[t]
static str ref_dispatch(const str &text, const std::vector<toks> &tables, const std::vector<int> &drop, int rc_blank)
{
    toks tk = take(ref_runs(upto_nul(text), WS_ARGV), 10);
    if (tk.empty())
        return "rc=" + std::to_string(rc_blank) + " ret=-777 call=none";
    for (size_t t = 0; t < tables.size(); t++)
        for (size_t i = 0; i < tables[t].size(); i++)
            if (tables[t][i] == tk[0])
            {
                int k = (int)(4 * t + i);
                int argc = (int)tk.size() - drop[t];
                str r = "rc=0 ret=" + std::to_string(100 + k) + " call=" + std::to_string(k) + "/" + std::to_string(argc);
                for (size_t a = drop[t]; a < tk.size(); a++)
                    r += ":" + H(tk[a]);
                return r;
            }
    return "rc=" + std::to_string(ENOENT) + " ret=-777 call=none";
}

// ---------------------------------------------------------------- run
static void run_argv(bool bounded, const str &text, int argcmax, out &o)
{
    // data: bounded -> exactly the bytes; terminated -> text + NUL
    str data = bounded ? text : cz(text);
    xbuf b(data);
    xbuf av((size_t)argcmax * sizeof(char *), 0x5a);
    char **argv = (char **)av.p;
    int argc = bounded ? argvc_internal_split_n(b.p, (int)b.n, argv, argcmax) : argvc_internal_split(b.p, argv, argcmax);
    str after = b.get();
    str r = std::to_string(argc);
    toks got;
    bool ptr_ok = true;
    for (int i = 0; i < argc && i < argcmax; i++)
    {
        if (argv[i] < b.p || argv[i] > b.p + b.n)
        {
            ptr_ok = false;
            break;
        }
        size_t off = argv[i] - b.p;
        str t = upto_nul(after.substr(off)); // C string, bounded by the extent
        got.push_back(t);
        r += " " + std::to_string(off) + ":" + H(t);
    }
    r += " |" + H(after);
    o.result = r;
    if (!ptr_ok)
        o.fail("argv entry outside the buffer");
    if (argc < 0 || argc > argcmax)
        o.fail("argc " + std::to_string(argc) + " > argcmax " + std::to_string(argcmax));
    // white space: " \r\n\t"; the terminated variant stops at the first NUL, the
    // bounded variant cannot hold a NUL inside a C-string token: NUL separates
    toks want = bounded ? ref_runs(text, WS_ARGV + str(1, '\0')) : ref_runs(upto_nul(text), WS_ARGV);
    bool truncated = want.size() > (size_t)argcmax;
    want = take(want, argcmax);
    if (got != want)
        o.fail("tokens " + fmt_toks(got) + " != first argcmax white-space runs " + fmt_toks(want));
    // the only bytes changed are separators turned into NUL
    for (size_t i = 0; i < data.size(); i++)
        if (after[i] != data[i] && !(after[i] == 0 && WS_ARGV.find(data[i]) != str::npos))
            o.fail("byte " + std::to_string(i) + " of the line changed to something else than a terminator over white space");
    if (want.empty()) o.tag(text.empty() ? "argv-empty" : "argv-blank");
    if (truncated) o.tag("argv-more-than-max");
    if ((int)want.size() == argcmax && !truncated && argcmax > 0) o.tag("argv-exactly-max");
    if (bounded && !text.empty() && WS_ARGV.find(text.back()) == str::npos && text.back() != 0 && !want.empty() && !truncated) o.tag("argvn-token-at-end");
    if (!text.empty() && WS_ARGV.find(text.back()) != str::npos) o.tag("argv-trailing-ws");
    if (argcmax == 0) o.tag("argcmax0");
}

static void run_msh(bool multi, const std::vector<std::string> &w, out &o)
{
    str text = U(w[1]);
    std::vector<toks> tables;
    for (size_t i = 2; i < w.size(); i++)
        tables.push_back(list_arg(w[i]));
    if (!multi && tables.empty())
        tables.push_back({});
    names_keeper nk;
    std::vector<xbuf *> tb;
    for (size_t t = 0; t < tables.size(); t++)
    {
        xbuf *x = new xbuf((tables[t].size() + 1) * sizeof(mshell_command), 0);
        mshell_command *c = (mshell_command *)x->p;
        for (size_t i = 0; i < tables[t].size(); i++)
        {
            c[i].name = nk.add(tables[t][i]);
            c[i].func = MH[4 * t + i];
            c[i].help = 0;
        }
        tb.push_back(x);
    }
    xbuf tp((tables.size() + 1) * sizeof(void *), 0);
    for (size_t t = 0; t < tables.size(); t++)
        ((const mshell_command **)tp.p)[t] = (const mshell_command *)tb[t]->p;
    xbuf line(cz(text));
    g_called = -1;
    g_argc = 0;
    g_args.clear();
    int ret = -777;
    int rc = multi ? mshell_tables_execute(line.p, (const mshell_command *const *)tp.p, &ret)
                   : mshell_execute(line.p, (const mshell_command *)tb[0]->p, &ret);
    o.result = fmt_dispatch(rc, ret);
    str want = ref_dispatch(text, tables, std::vector<int>(tables.size(), 0), ENOENT);
    if (o.result != want)
        o.fail("dispatch " + o.result + " != expected " + want);
    for (auto x : tb)
        delete x;
    toks tk = ref_runs(upto_nul(text), WS_ARGV);
    if (tk.empty()) o.tag(upto_nul(text).empty() ? "sh-empty-line" : "sh-blank-line");
    else if (g_called >= 0) o.tag(g_called >= 4 ? "sh-hit-later-table" : "sh-hit");
    else o.tag("sh-miss");
    if (tk.size() > 10) o.tag("sh-more-than-10-args");
}

static void run_rsh(bool multi, const std::vector<std::string> &w, out &o)
{
    // rsh <text> <drop> <names>      rsht <text> <drop>:<names> ...
    str text = U(w[1]);
    std::vector<toks> tables;
    std::vector<int> drop;
    if (!multi)
    {
        drop.push_back(atoi(w[2].c_str()));
        tables.push_back(list_arg(w.size() > 3 ? w[3] : "-"));
    }
    else
        for (size_t i = 2; i < w.size(); i++)
        {
            size_t c = w[i].find(':');
            drop.push_back(atoi(w[i].substr(0, c).c_str()));
            tables.push_back(list_arg(w[i].substr(c + 1)));
        }
    names_keeper nk;
    std::vector<xbuf *> tb;
    for (size_t t = 0; t < tables.size(); t++)
    {
        xbuf *x = new xbuf((tables[t].size() + 1) * sizeof(rshell_command), 0);
        rshell_command *c = (rshell_command *)x->p;
        for (size_t i = 0; i < tables[t].size(); i++)
        {
            c[i].name = nk.add(tables[t][i]);
            c[i].func = RH[4 * t + i];
            c[i].help = 0;
        }
        tb.push_back(x);
    }
    xbuf tp((tables.size() + 1) * sizeof(rshell_command_table), 0);
    for (size_t t = 0; t < tables.size(); t++)
    {
        ((rshell_command_table *)tp.p)[t].table = (const rshell_command *)tb[t]->p;
        ((rshell_command_table *)tp.p)[t].dropargs = drop[t];
    }
    xbuf line(cz(text));
    xbuf outb(7, 0);
    g_called = -1;
    g_argc = 0;
    g_args.clear();
    g_out = 0;
    g_max = -1;
    int ret = -777;
    int rc = multi ? rshell_tables_execute(line.p, (const rshell_command_table *)tp.p, &ret, outb.p, 7)
                   : rshell_execute(line.p, (const rshell_command *)tb[0]->p, &ret, drop[0], outb.p, 7);
    o.result = fmt_dispatch(rc, ret);
    str want = ref_dispatch(text, tables, drop, 0);
    if (o.result != want)
        o.fail("dispatch " + o.result + " != expected " + want);
    if (g_called >= 0 && (g_out != outb.p || g_max != 7))
        o.fail("output buffer / maxsize not passed through to the handler");
    for (auto x : tb)
        delete x;
    toks tk = ref_runs(upto_nul(text), WS_ARGV);
    if (tk.empty()) o.tag(upto_nul(text).empty() ? "sh-empty-line" : "sh-blank-line");
    else if (g_called >= 0) o.tag(g_called >= 4 ? "sh-hit-later-table" : "sh-hit");
    else o.tag("sh-miss");
    if (g_called >= 0 && drop[g_called / 4]) o.tag("sh-dropargs");
}

static void run_op(const std::vector<std::string> &w, const std::string &, out &o)
{
    const std::string &op = w[0];
    if (op == "reset")
    {
        o.result = "ok";
        return;
    }
    if (op == "splitc" || op == "splitd")
    {
        str s = U(w[1]), d = U(w[2]);
        xbuf b(s);
        toks got;
        if (op == "splitc")
            got = igris::split(b.buf(), d[0]);
        else
        {
            xbuf dz(cz(d));
            got = igris::split(b.buf(), (const char *)dz.p);
        }
        o.result = fmt_toks(got);
        toks want = ref_runs(s, d);
        if (got != want)
            o.fail("split " + fmt_toks(got) + " != maximal runs of non-delimiters " + fmt_toks(want));
        // inverse law on the implementation: split(join(tokens)) == tokens
        if (!got.empty())
        {
            str j = igris::join(got, d[0]);
            xbuf jb(j);
            toks again = op == "splitc" ? igris::split(jb.buf(), d[0]) : igris::split(jb.buf(), cz(d).c_str());
            if (again != got && s.find('\0') == str::npos)
                o.fail("split(join(split(s))) != split(s)");
        }
        if (s.empty()) o.tag("split-empty");
        else if (want.empty()) o.tag("split-all-delims");
        else
        {
            if (d.find(s.back()) != str::npos) o.tag("split-trailing-delim");
            else o.tag("split-token-at-end");
            if (d.find(s[0]) != str::npos) o.tag("split-leading-delim");
            if (want.size() > 1) o.tag("split-multi");
        }
        if (s.find('\0') != str::npos) o.tag("split-nul-in-buffer");
        return;
    }
    if (op == "join")
    {
        str d = U(w[1]);
        toks v;
        for (size_t i = 2; i < w.size(); i++)
            v.push_back(U(w[i]));
        str got = igris::join(v, d[0]);
        o.result = H(got);
        if (got != ref_join(v, d))
            o.fail("join != intercalate");
        bool clean = !v.empty();
        for (auto &t : v)
            if (t.empty() || t.find(d[0]) != str::npos)
                clean = false;
        if (clean)
        {
            xbuf jb(got);
            if (igris::split(jb.buf(), d[0]) != v)
                o.fail("split(join(tokens)) != tokens for delimiter-free non-empty tokens");
            o.tag("join-clean");
        }
        if (v.empty()) o.tag("join-empty-list");
        if (v.size() == 1) o.tag("join-single");
        return;
    }
    if (op == "joinf")
    {
        // joinf <delim> <prefix> <postfix> tok...
        str d = U(w[1]), pre = U(w[2]), post = U(w[3]);
        toks v;
        for (size_t i = 4; i < w.size(); i++)
            v.push_back(U(w[i]));
        xbuf dz(cz(d)), prez(cz(pre)), postz(cz(post));
        str got = igris::join(v.begin(), v.end(), (const char *)dz.p, (const char *)prez.p, (const char *)postz.p);
        o.result = H(got);
        if (got != pre + ref_join(v, d) + post)
            o.fail("join(range) != prefix + intercalate + postfix");
        if (v.empty()) o.tag("joinf-empty-range");
        else o.tag("joinf");
        return;
    }
    if (op == "trim")
    {
        str s = U(w[1]);
        xbuf b(s);
        str got = igris::trim(b.buf());
        o.result = H(got);
        if (got != ref_trim(s))
            o.fail("trim " + H(got) + " != strip " + H(ref_trim(s)));
        if (s.empty()) o.tag("trim-empty");
        else if (got.empty()) o.tag("trim-all-ws");
        else
        {
            if (WS_TRIM.find(s[0]) != str::npos) o.tag("trim-leading");
            if (WS_TRIM.find(s.back()) != str::npos) o.tag("trim-trailing");
            if (got.find_first_of(WS_TRIM) != str::npos) o.tag("trim-inner-ws-kept");
            if (got.size() == 1) o.tag("trim-single-char");
        }
        return;
    }
    if (op == "replace")
    {
        str s = U(w[1]), a = U(w[2]), b = U(w[3]);
        // std::string arguments: exactly what the API takes
        str got = igris::replace(s, a, b);
        o.result = H(got);
        str want = ref_replace(s, a, b);
        if (got != want)
            o.fail("replace " + H(got) + " != leftmost non-overlapping substitution " + H(want));
        if (a.empty()) o.tag("replace-empty-pattern");
        else if (want != s || s.find(a) != str::npos) o.tag("replace-hit");
        if (!a.empty() && b.find(a) != str::npos) o.tag("replace-rep-contains-pattern");
        return;
    }
    if (op == "rsub")
    {
        size_t maxsize = strtoul(w[1].c_str(), 0, 10);
        str s = U(w[2]), a = U(w[3]), b = U(w[4]);
        xbuf in(s), sub(a), rep(b), outb(maxsize, 0xA5);
        replace_substrings(outb.p, maxsize, in.p, in.n, sub.p, sub.n, rep.p, rep.n);
        str got = outb.get();
        o.result = H(got);
        str full = ref_replace(s, a, b);
        if (maxsize > 0)
        {
            str want = full.substr(0, std::min(full.size(), maxsize - 1)) + str(1, '\0');
            want += str(maxsize - want.size(), (char)0xA5);
            if (got != want)
                o.fail("replace_substrings buffer " + H(got) + " != truncated substitution + NUL " + H(want));
            if (full.size() + 1 > maxsize) o.tag("rsub-truncated");
            else if (full.size() + 1 == maxsize) o.tag("rsub-exact-fit");
            else o.tag("rsub-fits");
        }
        else
            o.tag("rsub-maxsize0");
        if (a.empty()) o.tag("rsub-empty-pattern");
        return;
    }
    if (op == "memmem")
    {
        str l = U(w[1]), s = U(w[2]);
        xbuf lb(l), sb(s);
        char *r = (char *)igris_memmem(lb.p, lb.n, sb.p, sb.n);
        o.result = r ? std::to_string(r - lb.p) : "none";
        // first occurrence; by the routine's own convention ("we need
        // something to compare") an empty needle is never found
        size_t want = s.empty() ? str::npos : l.find(s);
        if (want == str::npos ? r != 0 : (r == 0 || (size_t)(r - lb.p) != want))
            o.fail("memmem " + o.result + " != first occurrence " + (want == str::npos ? str("none") : std::to_string(want)));
        if (s.empty()) o.tag("memmem-empty-needle");
        else if (l.size() < s.size()) o.tag("memmem-needle-longer");
        else if (want == str::npos) o.tag("memmem-miss");
        else if (want + s.size() == l.size()) o.tag("memmem-hit-at-end");
        else o.tag("memmem-hit");
        if (s.size() == 1) o.tag("memmem-single");
        if (want != str::npos && l.find(s, want + 1) != str::npos) o.tag("memmem-several");
        return;
    }
    if (op == "cmdargs")
    {
        str s = U(w[1]);
        xbuf b(s);
        toks got = igris::split_cmdargs(b.buf());
        o.result = fmt_toks(got);
        toks want = ref_cmdargs(s);
        if (got != want)
            o.fail("split_cmdargs " + fmt_toks(got) + " != reference " + fmt_toks(want));
        if (s.empty()) o.tag("cmd-empty");
        else if (want.empty()) o.tag("cmd-blank");
        if (s.find('"') != str::npos) o.tag("cmd-quote");
        if (std::count(s.begin(), s.end(), '"') % 2) o.tag("cmd-unclosed-quote");
        if (!s.empty() && s.back() == '"') o.tag("cmd-quote-at-end");
        if (!s.empty() && s.back() == ' ') o.tag("cmd-trailing-space");
        return;
    }
    if (op == "argvn" || op == "argv")
    {
        run_argv(op == "argvn", U(w[1]), atoi(w[2].c_str()), o);
        return;
    }
    if (op == "msh" || op == "msht")
    {
        run_msh(op == "msht", w, o);
        return;
    }
    if (op == "rsh" || op == "rsht")
    {
        run_rsh(op == "rsht", w, o);
        return;
    }
    if (op == "pnext")
    {
        str text = U(w[1]), p = upto_nul(text);
        xbuf b(cz(text));
        unsigned len = 12345;
        const char *r = path_next(b.p, &len);
        o.result = r ? std::to_string(r - b.p) + " " + std::to_string(len) : "null";
        size_t wl = 0, wp = first_real(p, 0, &wl);
        str want = wp == p.size() ? "null" : std::to_string(wp) + " " + std::to_string(wl);
        if (o.result != want)
            o.fail("path_next " + o.result + " != first real component " + want);
        // walking with path_next enumerates the real components
        toks walk;
        const char *q = b.p;
        unsigned l2;
        for (int guard = 0; guard < 64 && (q = path_next(q, &l2)); guard++)
        {
            walk.push_back(str(q, l2));
            q += l2;
        }
        if (walk != real_comps(p))
            o.fail("path_next walk " + fmt_toks(walk) + " != components " + fmt_toks(real_comps(p)));
        if (path_next(0, &l2) != 0)
            o.fail("path_next(NULL) != NULL");
        if (p.empty()) o.tag("path-empty");
        else if (!r) o.tag("path-no-component");
        else if (r != b.p) o.tag("path-next-skipped");
        if (p.find("./") != str::npos || (p.size() && p.back() == '.')) o.tag("path-dot");
        if (walk.size() > 1) o.tag("path-multi");
        return;
    }
    if (op == "piter")
    {
        str text = U(w[1]), p = upto_nul(text);
        xbuf b(cz(text));
        const char *r = path_iterate(b.p);
        o.result = r ? std::to_string(r - b.p) : "null";
        str want = p.empty() ? "null" : std::to_string(first_real(p, p[0] == '/' ? 0 : 1));
        if (o.result != want)
            o.fail("path_iterate " + o.result + " != component-wise reference " + want);
        // iterating visits exactly the nodes
        toks walk;
        const char *q = b.p;
        for (int guard = 0; guard < 64 && q && *q; guard++)
        {
            str rest(q);
            walk.push_back(rest.substr(0, rest.find('/')));
            q = path_iterate(q);
        }
        toks wn;
        for (auto &c : nodes(p))
            wn.push_back(c.s);
        if (walk != wn)
            o.fail("path_iterate walk " + fmt_toks(walk) + " != nodes " + fmt_toks(wn));
        if (path_iterate(0) != 0)
            o.fail("path_iterate(NULL) != NULL");
        if (p.empty()) o.tag("path-empty");
        else if (p[0] == '/') o.tag("path-abs");
        else o.tag("path-rel");
        if (r && !*r) o.tag("path-iter-to-end");
        return;
    }
    if (op == "pcmp")
    {
        str ta = U(w[1]), tb2 = U(w[2]);
        xbuf a(cz(ta)), b(cz(tb2));
        int r = path_compare_node(a.p, b.p);
        o.result = std::to_string(r);
        int want = ref_cmp(upto_nul(ta), upto_nul(tb2));
        if (r != want)
            o.fail("path_compare_node " + o.result + " != " + std::to_string(want));
        if (path_compare_node(b.p, a.p) != -r)
            o.fail("path_compare_node not antisymmetric");
        o.tag(r == 0 ? "pcmp-eq" : r < 0 ? "pcmp-lt" : "pcmp-gt");
        return;
    }
    if (op == "prem")
    {
        str tp = U(w[1]), tq = U(w[2]), p = upto_nul(tp), q = upto_nul(tq);
        xbuf a(cz(tp)), b(cz(tq));
        const char *r = path_remove_prefix(a.p, b.p);
        o.result = r ? std::to_string(r - a.p) : "null";
        auto np = nodes(p), nq = nodes(q);
        size_t i = 0;
        while (true)
        {
            if (i >= np.size() && i >= nq.size())
                break;
            str A = i < np.size() ? np[i].s : "", B = i < nq.size() ? nq[i].s : "";
            if (A != B)
                break;
            if (i >= np.size() || i >= nq.size())
                break;
            i++;
        }
        str want = std::to_string(i < np.size() ? np[i].pos : p.size());
        if (o.result != want)
            o.fail("path_remove_prefix " + o.result + " != after the common leading nodes " + want);
        if (i == 0) o.tag("prem-nothing-common");
        else if (i >= nq.size()) o.tag("prem-whole-prefix");
        else o.tag("prem-partial-prefix");
        if (p.empty() || q.empty()) o.tag("prem-empty-side");
        return;
    }
    if (op == "creader")
    {
        str s = U(w[1]);
        xbuf b(s);
        struct creader rd;
        creader_init(&rd, b.p, b.n);
        str r;
        std::vector<std::pair<size_t, long>> got;
        bool loop = true;
        for (size_t k = 0; k < s.size() + 2; k++)
        {
            const char *tk;
            ptrdiff_t len = creader_readline(&rd, &tk);
            if (len < 0)
            {
                loop = false;
                break;
            }
            got.push_back({(size_t)(tk - b.p), (long)len});
            r += std::to_string(tk - b.p) + ":" + std::to_string(len) + ":" + std::to_string(creader_curpos(&rd)) + " ";
        }
        r += loop ? "LOOP" : "end";
        o.result = r;
        // reference: lines end at '\n' or NUL; carriage returns in front of the
        // terminator are not part of the line; a last line without terminator
        // is returned as it is
        std::vector<std::pair<size_t, long>> want;
        std::set<str> tg;
        size_t pos = 0;
        while (pos < s.size())
        {
            size_t e = s.find_first_of(str("\n\0", 2), pos);
            if (e == str::npos)
            {
                want.push_back({pos, (long)(s.size() - pos)});
                tg.insert("creader-unterminated-last-line");
                break;
            }
            size_t z = e;
            while (z > pos && s[z - 1] == '\r')
                z--;
            want.push_back({pos, (long)(z - pos)});
            if (z - pos == 1) tg.insert("creader-one-char-line");
            if (z == pos) tg.insert("creader-empty-line");
            if (z != e) tg.insert("creader-crlf");
            pos = e + 1;
        }
        if (loop)
            o.fail("creader_readline never reaches the end");
        else if (got != want)
            o.fail("creader lines differ from the reference");
        for (auto &t : tg)
            o.tag(t.c_str());
        if (s.empty()) o.tag("creader-empty");
        return;
    }
    o.result = "bad-op";
}

// ---------------------------------------------------------------- gen
static void all_strings(const str &alpha, int maxlen, const std::function<void(const str &)> &f, int minlen = 0)
{
    for (int len = minlen; len <= maxlen; len++)
    {
        std::vector<int> idx(len, 0);
        while (true)
        {
            str s(len, 0);
            for (int i = 0; i < len; i++)
                s[i] = alpha[idx[i]];
            f(s);
            int k = len - 1;
            while (k >= 0 && ++idx[k] == (int)alpha.size())
                idx[k--] = 0;
            if (k < 0)
                break;
        }
    }
}
static str rnd_str(rng &r, const str &alpha, int len)
{
    str s(len, 0);
    for (auto &c : s)
        c = alpha[r.below(alpha.size())];
    return s;
}
static str names_arg(const toks &v)
{
    if (v.empty())
        return "-";
    str r;
    for (size_t i = 0; i < v.size(); i++)
        r += (i ? "," : "") + H(v[i]);
    return r;
}
#define P(...) printf(__VA_ARGS__)
static const char *F_NUL = "@F:C19-split-delims-nul ";

static void emit_unary(const str &s)
{
    str h = H(s);
    bool nul = s.find('\0') != str::npos;
    P("splitc %s 20\nsplitc %s 2f\n", h.c_str(), h.c_str());
    P("%ssplitd %s 202f\n", nul ? F_NUL : "", h.c_str());
    P("trim %s\ncmdargs %s\ncreader %s\n", h.c_str(), h.c_str(), h.c_str());
    P("argvn %s 2\nargv %s 2\n", h.c_str(), h.c_str());
    P("pnext %s\npiter %s\n", h.c_str(), h.c_str());
}

static void gen(rng &r, const std::string &tier)
{
    bool th = tier == "thorough";
    const str A7 = str(" a/.\"\0\n", 7);
    // (1) all strings over the property's alphabet
    //     quick: length <= 5 for every unary routine (19 608 strings);
    //     thorough: length 6 as well, cut in 8 slices by seed % 8 (the 8
    //     derived seeds of a thorough run cover all of them)
    all_strings(A7, 5, [&](const str &s) { emit_unary(s); });
    {
        // r.s % 8 is a bijection of seed % 8 (odd multiplier) and the derived
        // seeds of a thorough run are seed*1000 + 0..7: all slices are covered
        unsigned long n = 0, slice = (unsigned long)(r.s % 8);
        all_strings(
            A7, 6,
            [&](const str &s) {
                n++;
                if (th ? (n % 8 == slice) : (n % 64 == slice))
                    emit_unary(s);
            },
            6);
    }
    // (2) routine-specific alphabets
    //     white-space sets of trim / argv: " \n\r\t"
    all_strings(str(" \n\r\ta\0", 6), th ? 5 : 4, [&](const str &s) {
        str h = H(s);
        P("trim %s\nargv %s 3\nargvn %s 3\ncreader %s\n", h.c_str(), h.c_str(), h.c_str(), h.c_str());
        P("%ssplitd %s 0a0d09\n", s.find('\0') != str::npos ? F_NUL : "", h.c_str());
    });
    //     both quote characters
    all_strings(str(" a\"'", 4), th ? 7 : 6, [&](const str &s) { P("cmdargs %s\n", H(s).c_str()); });
    //     argcmax 0..3 on short lines
    all_strings(str(" a\t\0", 4), 5, [&](const str &s) {
        for (int m = 0; m <= 3; m++)
            P("argvn %s %d\nargv %s %d\n", H(s).c_str(), m, H(s).c_str(), m);
    });
    //     memmem: every haystack <= 6 x needle <= 3 over {a, /, NUL}
    {
        std::vector<str> needles;
        all_strings(str("a/\0", 3), 3, [&](const str &s) { needles.push_back(s); });
        all_strings(str("a/\0", 3), th ? 7 : 6, [&](const str &l) {
            for (auto &s : needles)
                P("memmem %s %s\n", H(l).c_str(), H(s).c_str());
        });
    }
    //     replace / replace_substrings: src <= 5 over {a, ., NUL}, pattern <= 2
    {
        std::vector<str> pats;
        all_strings(str("a.\0", 3), 2, [&](const str &s) { pats.push_back(s); });
        const std::vector<str> reps = {"", "a", "..", str("a\0a", 3), "aa."};
        all_strings(str("a.\0", 3), 5, [&](const str &s) {
            for (auto &p : pats)
                for (auto &q : reps)
                {
                    P("replace %s %s %s\n", H(s).c_str(), H(p).c_str(), H(q).c_str());
                    str full = ref_replace(s, p, q);
                    // output buffers: exact fit, one short, generous, tiny
                    size_t sizes[4] = {full.size() + 1, full.size(), full.size() + 3, (size_t)r.below(3)};
                    size_t pick = r.below(3);
                    for (size_t k = 0; k < 4; k++)
                        if (th || k == pick || k == 3)
                            P("rsub %zu %s %s %s\n", sizes[k], H(s).c_str(), H(p).c_str(), H(q).c_str());
                }
        });
    }
    //     joins: all token lists of <= 3 tokens over tokens {"", a, aa, " ", "a b"}
    {
        const std::vector<str> T = {"", "a", "aa", " ", "a b", "/"};
        for (int n = 0; n <= 3; n++)
        {
            std::vector<int> idx(n, 0);
            while (true)
            {
                str line;
                for (int i = 0; i < n; i++)
                    line += " " + H(T[idx[i]]);
                P("join 20%s\njoin 2f%s\njoinf 2c20 5b 5d%s\njoinf - - -%s\n", line.c_str(), line.c_str(), line.c_str(), line.c_str());
                int k = n - 1;
                while (k >= 0 && ++idx[k] == (int)T.size())
                    idx[k--] = 0;
                if (k < 0)
                    break;
            }
        }
    }
    //     paths: pairs of all paths <= 4 over {a, b, /, .} for compare, <= 4 over {a,/,.} for remove_prefix
    {
        std::vector<str> ps;
        all_strings("ab/.", 3, [&](const str &s) { ps.push_back(s); });
        for (auto &a : ps)
            for (auto &b : ps)
                P("pcmp %s %s\n", H(a).c_str(), H(b).c_str());
        std::vector<str> qs;
        all_strings("a/.", th ? 5 : 4, [&](const str &s) { qs.push_back(s); });
        for (auto &a : qs)
            for (auto &b : qs)
                P("prem %s %s\n", H(a).c_str(), H(b).c_str());
        all_strings("ab/.", th ? 8 : 7, [&](const str &s) { P("pnext %s\npiter %s\n", H(s).c_str(), H(s).c_str()); }, 6);
    }
    //     dispatchers: every line <= 4 over {space, a, b, tab, NUL} x command tables of 0..3 entries
    {
        const std::vector<toks> tables = {{}, {"a"}, {"b", "a"}, {"ab", "a", "a"}, {"aa", "b", "ab"}};
        all_strings(str(" ab\t\0", 5), th ? 5 : 4, [&](const str &s) {
            const toks &t = tables[r.below(tables.size())];
            const toks &t2 = tables[r.below(tables.size())];
            P("msh %s %s\n", H(s).c_str(), names_arg(t).c_str());
            P("rsh %s %d %s\n", H(s).c_str(), (int)r.below(2), names_arg(t).c_str());
            if (th || r.chance(30))
            {
                P("msht %s %s %s\n", H(s).c_str(), names_arg(t).c_str(), names_arg(t2).c_str());
                P("rsht %s %d:%s %d:%s\n", H(s).c_str(), (int)r.below(2), names_arg(t).c_str(), (int)r.below(2), names_arg(t2).c_str());
            }
        });
        // no table at all / three tables
        P("msht 61\nrsht 61\nmsht - \nmsht 61 - - 61\nrsht 61 0:- 1:- 0:61\n");
    }
    // (3) random longer inputs, biased towards structure
    int N = th ? 4000 : 600;
    const str WIDE = str(" a/.\"\0\n\r\t'bz\x80\xff,", 15);
    for (int i = 0; i < N; i++)
    {
        int len = (int)r.range(7, r.chance(10) ? 200 : 40);
        const str &al = r.chance(50) ? A7 : WIDE;
        str s = rnd_str(r, al, len);
        // boundary bias: force the last / first character
        if (r.chance(30)) s.back() = r.chance(50) ? ' ' : '"';
        if (r.chance(20)) s[0] = ' ';
        emit_unary(s);
        str h = H(s);
        P("argvn %s %d\nargv %s %d\n", h.c_str(), (int)r.range(0, 12), h.c_str(), (int)r.range(0, 12));
        str d = rnd_str(r, str(" /.,\n\t\"a"), (int)r.range(1, 3));
        P("%ssplitd %s %s\n", s.find('\0') != str::npos ? F_NUL : "", h.c_str(), H(d).c_str());
        P("splitc %s %s\n", h.c_str(), H(str(1, al[r.below(al.size())])).c_str());
        // memmem / replace with a needle cut out of the haystack (mostly hits)
        size_t a = r.below(len), l = (size_t)r.range(0, std::min(4, len - (int)a));
        str needle = r.chance(75) ? s.substr(a, l) : rnd_str(r, al, (int)r.range(0, 3));
        P("memmem %s %s\n", h.c_str(), H(needle).c_str());
        str rep = rnd_str(r, al, (int)r.range(0, 4));
        P("replace %s %s %s\n", h.c_str(), H(needle).c_str(), H(rep).c_str());
        str full = ref_replace(s, needle, rep);
        size_t ms = r.chance(50) ? full.size() + 1 : (size_t)r.range(0, (int)full.size() + 4);
        P("rsub %zu %s %s %s\n", ms, h.c_str(), H(needle).c_str(), H(rep).c_str());
        // joins of random tokens
        {
            int n = (int)r.range(0, 6);
            str line;
            for (int k = 0; k < n; k++)
                line += " " + H(rnd_str(r, r.chance(70) ? str("abz.") : al, (int)r.range(r.chance(80) ? 1 : 0, 5)));
            P("join 20%s\njoinf %s %s %s%s\n", line.c_str(), H(rnd_str(r, ", ;", (int)r.range(0, 2))).c_str(), H(rnd_str(r, "[(<", (int)r.range(0, 2))).c_str(),
              H(rnd_str(r, "])>", (int)r.range(0, 2))).c_str(), line.c_str());
        }
        // structured paths: components from a small pool joined by runs of '/'
        {
            auto mk = [&]() {
                static const std::vector<str> C = {"a", "b", ".", "..", "ab", "", "a.", ".a", "\x80"};
                str p = r.chance(50) ? "/" : "";
                int n = (int)r.range(0, 5);
                for (int k = 0; k < n; k++)
                    p += C[r.below(C.size())] + (k + 1 < n || r.chance(30) ? str(1 + r.below(2), '/') : "");
                return p;
            };
            str p1 = mk(), p2 = r.chance(60) ? p1.substr(0, r.below(p1.size() + 1)) + (r.chance(30) ? mk() : "") : mk();
            P("pnext %s\npiter %s\npcmp %s %s\nprem %s %s\nprem %s %s\n", H(p1).c_str(), H(p1).c_str(), H(p1).c_str(), H(p2).c_str(), H(p1).c_str(),
              H(p2).c_str(), H(p2).c_str(), H(p1).c_str());
        }
        // command lines: words from a pool, 0..14 of them, random white space
        {
            static const std::vector<str> Wd = {"a", "b", "ab", "help", "set", "x"};
            int n = (int)r.range(0, r.chance(15) ? 14 : 4);
            str line = rnd_str(r, " \t", (int)r.below(3));
            for (int k = 0; k < n; k++)
                line += Wd[r.below(Wd.size())] + rnd_str(r, " \t\r\n", (int)r.range(k + 1 < n ? 1 : 0, 3));
            std::vector<toks> tb;
            for (int t = 0; t < 3; t++)
            {
                toks names;
                int m = (int)r.range(0, 3);
                for (int k = 0; k < m; k++)
                    names.push_back(Wd[r.below(Wd.size())]);
                tb.push_back(names);
            }
            str lh = H(line);
            P("msh %s %s\n", lh.c_str(), names_arg(tb[0]).c_str());
            P("rsh %s %d %s\n", lh.c_str(), (int)r.below(3), names_arg(tb[0]).c_str());
            P("msht %s %s %s %s\n", lh.c_str(), names_arg(tb[0]).c_str(), names_arg(tb[1]).c_str(), names_arg(tb[2]).c_str());
            P("rsht %s %d:%s %d:%s %d:%s\n", lh.c_str(), (int)r.below(2), names_arg(tb[0]).c_str(), (int)r.below(2), names_arg(tb[1]).c_str(), (int)r.below(3),
              names_arg(tb[2]).c_str());
            P("argv %s %d\nargvn %s %d\n", lh.c_str(), (int)r.range(0, 12), lh.c_str(), (int)r.range(0, 12));
        }
    }
}

int main(int argc, char **argv) { return main_(argc, argv, gen, run_op); }
