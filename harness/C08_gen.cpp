// C08 harness, generator half (round 3b: split off C08.cpp so that bin/check compiles the two translation
// units in parallel; nothing of the code under test runs here, so it is compiled without optimisation and
// without sanitizer instrumentation)
#pragma GCC optimize("O0")
#include "common/hv.h"
#include "C08_shared.h"
#include <algorithm>
#include <cctype>

using namespace hv;
typedef std::vector<uint8_t> bytes;

// ---------------------------------------------------------------- gen
static const std::vector<uint8_t> SPECIAL = {0x01, 0x7f, 0x80, 0xff, 'A', 'Z', 'a', 'z', '@', '[', '`', '{', 0xC1, 0xE1, ' ', ','};

static bytes rbytes(rng &r, size_t n, bool allow_zero)
{
    bytes m(n);
    int mode = (int)r.below(4);
    for (auto &x : m)
    {
        if (mode == 0) x = r.pick(SPECIAL);
        else if (mode == 1) x = (uint8_t)('a' + r.below(3)) ^ (r.chance(30) ? 0x20 : 0);
        else x = (uint8_t)r.next();
        if (allow_zero && mode == 0 && r.chance(10)) x = 0;
        if (!allow_zero && x == 0) x = (uint8_t)(1 + r.below(255));
    }
    return m;
}
static bytes cstr(bytes v) { v.push_back(0); return v; }
static bytes cat(bytes a, const bytes &b) { a.insert(a.end(), b.begin(), b.end()); return a; }
static std::string B(char name, unsigned align, const bytes &v)
{
    return std::string(1, name) + "=" + std::to_string(align) + ":" + hex(v);
}
static std::string cint(rng &r, uint8_t b)
{
    // an `int` whose conversion to (unsigned) char is b
    switch (r.below(5))
    {
    case 0: return "#" + std::to_string((int)b);
    case 1: return "#" + std::to_string((int)(int8_t)b);
    case 2: return "#" + std::to_string((int)b + 256);
    case 3: return "#" + std::to_string((int)b - 512);
    default: return "#" + std::to_string((int)b + 256 * (int)r.range(-3, 3));
    }
}
static void E(const std::string &s) { puts(s.c_str()); }
static std::string N(uint64_t n) { return "#" + std::to_string(n); }
static std::string Pp(char b, size_t off) { return std::string(1, b) + "+" + std::to_string(off); }

// ---------------------------------------------------------------- round 3
static std::string LB(char name, unsigned align, size_t len, unsigned mul, unsigned add, const std::vector<std::pair<size_t, uint8_t>> &patch = {})
{
    std::string t = std::string(1, name) + "=" + std::to_string(align) + ":@" + std::to_string(len) + "," + std::to_string(mul) + "," + std::to_string(add);
    char b[40];
    for (auto &pp : patch) { snprintf(b, sizeof b, ",%zu=%02x", pp.first, pp.second); t += b; }
    return t;
}
static uint8_t pat(size_t i, unsigned mul, unsigned add) { return (uint8_t)(1 + (i * mul + add) % 251); }

__attribute__((no_sanitize("address", "undefined"))) static void gen3(rng &r, bool th, int K)
{
    // ---- constants and tables read out of the build
    E("plat2");
    for (int k = 0; k < 13; k++) E(std::string("cttab ") + CT_NAMES[k] + " libc");
    for (int k = 0; k < 13; k++) E(std::string("cttab ") + CT_NAMES[k] + " igris");
    for (int c = -1; c <= 255; c++) E("ctype #" + std::to_string(c));
    for (long long c : {-2LL, -128LL, -129LL, -191LL, -159LL, -256LL, 256LL, 257LL, 256LL + 'A', 256LL + 'a', 512LL + '0', 256LL + ' ', 65536LL + 'A', 0x7fffff41LL, 2147483647LL, -2147483648LL, -2147483647LL, 0x100LL + 0x7f, 0x80LL, 0x17fLL, -0x80LL + 0x100})
        E("ctype #" + std::to_string(c));
    for (int k = 0; k < 40 * K; k++) E("ctype #" + std::to_string((long long)(int32_t)r.next()));
    // ---- before main()
    for (int k = 0; k < PREMAIN_N; k++) E("premain " + std::to_string(k) + " " + PREMAIN_LINES[k]);

    // ---- arguments INSIDE larger buffers: only the access monitor can tell whether
    // the call stayed inside the range the definition allows
    auto emb = [&](const bytes &v, size_t &x) {
        x = r.range(1, 9);
        return cat(rbytes(r, x, true), cat(v, rbytes(r, r.range(1, 9), true)));
    };
    for (int k = 0; k < 120 * K; k++)
    {
        size_t x, y;
        size_t l1 = r.range(0, 40), l2 = r.range(0, 12);
        bytes s1 = rbytes(r, l1, false), s2 = rbytes(r, l2, false);
        if (r.chance(50) && l1 >= l2 && l2) std::copy(s2.begin(), s2.end(), s1.begin() + r.below(l1 - l2 + 1));
        std::string A = B('A', r.below(8), emb(cstr(s1), x)), Bb = B('B', r.below(8), emb(cstr(s2), y));
        std::string pa = Pp('A', x), pb = Pp('B', y);
        uint8_t c = r.chance(60) && l1 ? s1[r.below(l1)] : (uint8_t)r.next();
        for (const char *fn : {"strlen"}) E(std::string(fn) + " " + A + " " + pa);
        for (const char *fn : {"strchr", "strrchr", "strchrnul"}) E(std::string(fn) + " " + A + " " + pa + " " + cint(r, c));
        for (const char *fn : {"strcmp", "strcasecmp", "strstr", "strcasestr", "strspn", "strcspn", "strpbrk"}) E(std::string(fn) + " " + A + " " + Bb + " " + pa + " " + pb);
        for (uint64_t n : {(uint64_t)0, (uint64_t)1, (uint64_t)(l1 ? l1 - 1 : 0), (uint64_t)l1, (uint64_t)l1 + 1, (uint64_t)r.range(0, 45)})
        {
            if (!th && r.chance(50)) continue;
            E("strnlen " + A + " " + pa + " " + N(n));
            E("strncmp " + A + " " + Bb + " " + pa + " " + pb + " " + N(n));
            E("strncasecmp " + A + " " + Bb + " " + pa + " " + pb + " " + N(n));
            E("memchr " + A + " " + pa + " " + cint(r, c) + " " + N(std::min<uint64_t>(n, l1 + 1)));
            E("memrchr " + A + " " + pa + " " + cint(r, c) + " " + N(std::min<uint64_t>(n, l1 + 1)));
            E("memcmp " + A + " " + Bb + " " + pa + " " + pb + " " + N(std::min<uint64_t>(n, std::min(l1, l2) + 1)));
            E("strndup " + A + " " + pa + " " + N(n) + " #0");
        }
        E("strdup " + A + " " + pa + " #0");
        // writers: the destination lies inside a larger buffer
        {
            size_t dx = r.range(1, 9), room = l2 + 1 + r.range(0, 5), dl = r.range(0, 10);
            bytes d = cat(rbytes(r, dx, true), cat(cstr(rbytes(r, dl, false)), rbytes(r, room, true)));
            std::string D = B('A', r.below(8), d);
            E("strcat " + D + " " + Bb + " " + Pp('A', dx) + " " + pb);
            E("strcpy " + D + " " + Bb + " " + Pp('A', dx) + " " + pb);
            for (uint64_t n : {(uint64_t)0, (uint64_t)1, (uint64_t)(l2 ? l2 - 1 : 0), (uint64_t)l2, (uint64_t)l2 + 1})
                if (th || r.chance(50)) E("strncat " + D + " " + Bb + " " + Pp('A', dx) + " " + pb + " " + N(n));
        }
        // a token history inside a larger buffer, the delimiter sets change between the calls
        {
            static const std::vector<uint8_t> AL = {',', ';', 'a', 'b', 0xE1};
            size_t sl = r.range(0, 14), tx;
            bytes t(sl);
            for (auto &ch : t) ch = r.pick(AL);
            std::string line = "strtok_r " + B('A', r.below(8), emb(cstr(t), tx)) + " " + B('B', r.below(8), cstr({','})) + " " + B('C', r.below(8), cstr({';', 0xE1}));
            line += " " + Pp('A', tx) + ",B+0";
            for (int i = 0, nc = (int)r.range(1, 6); i < nc; i++) line += r.chance(50) ? " N,C+0" : " N,B+0";
            E(line);
        }
    }
    // aliasing (read-only) arguments: the same string / overlapping suffixes passed twice
    for (int k = 0; k < 60 * K; k++)
    {
        size_t l = r.range(0, 24), x;
        bytes s1(l);
        for (auto &c : s1) c = (uint8_t)("abAB,\xe1"[r.below(6)]);
        std::string A = B('A', r.below(8), emb(cstr(s1), x));
        size_t j = r.below(l + 1), j2 = r.below(l + 1);
        std::string p0 = Pp('A', x), pj = Pp('A', x + j), pj2 = Pp('A', x + j2);
        for (const char *fn : {"strcmp", "strcasecmp", "strstr", "strcasestr", "strspn", "strcspn", "strpbrk"})
        {
            E(std::string(fn) + " " + A + " " + p0 + " " + p0);
            E(std::string(fn) + " " + A + " " + p0 + " " + pj);   // the needle / set is a suffix of the string itself: a match at the very end
            E(std::string(fn) + " " + A + " " + pj + " " + pj2);  // also needles longer than the haystack
        }
        for (uint64_t n : {(uint64_t)0, (uint64_t)1, (uint64_t)l, (uint64_t)l + 1, ~(uint64_t)0})
        {
            E("strncmp " + A + " " + p0 + " " + pj + " " + N(n));
            E("strncasecmp " + A + " " + pj2 + " " + pj + " " + N(n));
        }
        E("memcmp " + A + " " + p0 + " " + p0 + " " + N(l + 1));
        E("memcmp " + A + " " + p0 + " " + pj + " " + N(l + 1 - j));
    }
    // memchr / strnlen / strncmp with n = SIZE_MAX where ISO defines it (the match / terminator exists)
    for (int k = 0; k < 30 * K; k++)
    {
        size_t l = r.range(0, 30), x;
        bytes s1 = rbytes(r, l, false);
        std::string A = B('A', r.below(8), emb(cstr(s1), x));
        E("memchr " + A + " " + Pp('A', x) + " #0 " + N(~(uint64_t)0));
        if (l) E("memchr " + A + " " + Pp('A', x) + " " + cint(r, s1[r.below(l)]) + " " + N(~(uint64_t)0 - r.below(3)));
        E("strnlen " + A + " " + Pp('A', x) + " " + N(~(uint64_t)0));
        E("strncmp " + A + " " + B('B', r.below(8), cstr(s1)) + " " + Pp('A', x) + " B+0 " + N(~(uint64_t)0));
        E("strncasecmp " + A + " " + B('B', r.below(8), cstr(s1)) + " " + Pp('A', x) + " B+0 " + N(~(uint64_t)0));
        E("strndup " + A + " " + Pp('A', x) + " " + N(~(uint64_t)0) + " #0");
        E("strncat " + B('A', r.below(8), cat(cstr(rbytes(r, 3, false)), bytes(l, 0x11))) + " " + B('B', r.below(8), cstr(s1)) + " A+0 B+0 " + N(~(uint64_t)0));
    }
    // boundary sizes 255 / 256 / 257 and 65535 / 65536 / 65537 (a counter narrowed to 8 or 16 bits)
    for (size_t n : {255u, 256u, 257u, 65535u, 65536u, 65537u})
    {
        std::string sn = N(n);
        unsigned al = (unsigned)r.below(8);
        E("L:memcpy " + LB('A', al, n, 0, 0) + " " + LB('B', 8 - al, n, 7, 3) + " A+0 B+0 " + sn);
        E("L:memmove " + LB('A', al, n + 9, 13, 5) + " A+9 A+0 " + sn);
        E("L:memset " + LB('A', al, n, 5, 1) + " A+0 #171 " + sn);
        E("L:memcmp " + LB('A', al, n, 7, 3) + " " + LB('B', 1, n, 7, 3, {{n - 1, 0xff}}) + " A+0 B+0 " + sn);
        E("L:memchr " + LB('A', al, n, 0, 4, {{n - 1, 0xff}}) + " A+0 #255 " + sn);
        E("L:memrchr " + LB('A', al, n, 0, 4, {{0, 0xff}}) + " A+0 #255 " + sn);
        E("L:strlen " + LB('A', al, n + 1, 7, 3, {{n, 0}}) + " A+0");
        E("L:strnlen " + LB('A', al, n + 1, 7, 3, {{n, 0}}) + " A+0 " + N(n + 5));
        E("L:strcpy " + LB('A', al, n + 1, 0, 0) + " " + LB('B', 3, n + 1, 7, 3, {{n, 0}}) + " A+0 B+0");
        E("L:strncpy " + LB('A', al, n, 0, 0) + " " + LB('B', 3, 10, 7, 3, {{9, 0}}) + " A+0 B+0 " + sn);
        E("L:strcmp " + LB('A', al, n + 1, 7, 3, {{n, 0}}) + " " + LB('B', 5, n + 1, 7, 3, {{n - 1, 0xfe}, {n, 0}}) + " A+0 B+0");
        E("L:strncmp " + LB('A', al, n + 1, 7, 3, {{n, 0}}) + " " + LB('B', 5, n + 1, 7, 3, {{n - 1, 0xfe}, {n, 0}}) + " A+0 B+0 " + sn);
        E("L:strncmp " + LB('A', al, n + 1, 7, 3, {{n, 0}}) + " " + LB('B', 5, n + 1, 7, 3, {{n - 1, 0xfe}, {n, 0}}) + " A+0 B+0 " + N(n - 1));
        E("L:strchr " + LB('A', al, n + 1, 0, 4, {{n - 1, 0xff}, {n, 0}}) + " A+0 #255");
        E("L:strrchr " + LB('A', al, n + 1, 0, 4, {{0, 0xff}, {n, 0}}) + " A+0 #-1");
        E("L:strdup " + LB('A', al, n + 1, 7, 3, {{n, 0}}) + " A+0 #0");
        E("L:strndup " + LB('A', al, n + 1, 7, 3, {{n, 0}}) + " A+0 " + N(n - 1) + " #0");
        E("L:strlcpy " + LB('A', al, n, 0, 0) + " " + LB('B', 3, n + 3, 7, 3, {{n + 2, 0}}) + " A+0 B+0 " + sn);
    }
    // ---- long inputs (>= 300 KiB) once per linear routine
    {
        const size_t L = 307203;
        std::string sL = N(L);
        // positions of letters in the pattern (mul 7, add 3) for the case-insensitive comparisons
        std::vector<std::pair<size_t, uint8_t>> flips;
        for (size_t i = 1000; i < L - 10 && flips.size() < 12; i += 23456)
            for (size_t j = i; j < i + 300; j++)
                if (isalpha(pat(j, 7, 3))) { flips.push_back({j, (uint8_t)(pat(j, 7, 3) ^ 0x20)}); break; }
        auto with = [](std::vector<std::pair<size_t, uint8_t>> v, std::vector<std::pair<size_t, uint8_t>> more) { v.insert(v.end(), more.begin(), more.end()); return v; };
        E("L:memcpy " + LB('A', 8, L, 0, 0) + " " + LB('B', 0, L, 7, 3) + " A+0 B+0 " + sL);
        E("L:memcpy " + LB('A', 1, L, 0, 0) + " " + LB('B', 2, L, 7, 3) + " A+0 B+0 " + sL);
        E("L:memmove " + LB('A', 0, L + 104, 13, 5) + " A+104 A+0 " + sL);
        E("L:memmove " + LB('A', 0, L + 104, 13, 5) + " A+0 A+104 " + sL);
        E("L:memmove " + LB('A', 3, L + 1, 13, 5) + " A+0 A+1 " + sL);
        E("L:memset " + LB('A', 3, L, 5, 1) + " A+0 #-85 " + sL);
        E("L:memcmp " + LB('A', 0, L, 7, 3) + " " + LB('B', 1, L, 7, 3, {{L - 1, 0xff}}) + " A+0 B+0 " + sL);
        E("L:memcmp " + LB('A', 0, L, 7, 3) + " " + LB('B', 1, L, 7, 3) + " A+0 B+0 " + sL);
        E("L:memchr " + LB('A', 5, L, 0, 4, {{L - 1, 0xff}}) + " A+0 #255 " + sL);
        E("L:memchr " + LB('A', 5, L, 0, 4) + " A+0 #255 " + sL);
        E("L:memchr " + LB('A', 5, L, 0, 4, {{L - 1, 0xff}}) + " A+0 #-1 " + N(~(uint64_t)0));
        E("L:memrchr " + LB('A', 6, L, 0, 4, {{0, 0xff}}) + " A+0 #255 " + sL);
        E("L:memrchr " + LB('A', 6, L, 0, 4) + " A+0 #255 " + sL);
        E("L:strlen " + LB('A', 7, L, 7, 3, {{L - 1, 0}}) + " A+0");
        E("L:strnlen " + LB('A', 7, L, 7, 3, {{L - 1, 0}}) + " A+0 " + N(~(uint64_t)0));
        E("L:strnlen " + LB('A', 7, L, 7, 3) + " A+0 " + sL);
        E("L:strcpy " + LB('A', 2, L, 0, 0) + " " + LB('B', 3, L, 7, 3, {{L - 1, 0}}) + " A+0 B+0");
        E("L:strncpy " + LB('A', 2, L, 0, 0) + " " + LB('B', 3, 70001, 7, 3, {{70000, 0}}) + " A+0 B+0 " + sL);
        E("L:strncpy " + LB('A', 2, L, 0, 0) + " " + LB('B', 3, L, 7, 3) + " A+0 B+0 " + sL);
        E("L:strlcpy " + LB('A', 2, L, 0, 0) + " " + LB('B', 3, L + 40, 7, 3, {{L + 39, 0}}) + " A+0 B+0 " + sL);
        E("L:strlcpy " + LB('A', 2, 5, 0, 0) + " " + LB('B', 3, L, 7, 3, {{L - 1, 0}}) + " A+0 B+0 #5");
        E("L:strcat " + LB('A', 4, L, 0, 8, {{10, 0}}) + " " + LB('B', 1, L - 11, 7, 3, {{L - 12, 0}}) + " A+0 B+0");
        E("L:strncat " + LB('A', 4, L, 0, 8, {{10, 0}}) + " " + LB('B', 1, L - 11, 7, 3, {{L - 12, 0}}) + " A+0 B+0 " + sL);
        E("L:strncat " + LB('A', 4, L, 0, 8, {{10, 0}}) + " " + LB('B', 1, L - 12, 7, 3) + " A+0 B+0 " + N(L - 12));
        E("L:strcmp " + LB('A', 0, L, 7, 3, {{L - 1, 0}}) + " " + LB('B', 5, L, 7, 3, {{L - 2, 0xfe}, {L - 1, 0}}) + " A+0 B+0");
        E("L:strcmp " + LB('A', 0, L, 7, 3, {{L - 1, 0}}) + " " + LB('B', 5, L, 7, 3, {{L - 1, 0}}) + " A+0 B+0");
        E("L:strncmp " + LB('A', 0, L, 7, 3, {{L - 1, 0}}) + " " + LB('B', 5, L, 7, 3, {{L - 2, 0xfe}, {L - 1, 0}}) + " A+0 B+0 " + N(~(uint64_t)0));
        E("L:strncmp " + LB('A', 0, L, 7, 3) + " " + LB('B', 5, L, 7, 3, {{L - 1, 0xfe}}) + " A+0 B+0 " + N(L - 1));
        E("L:strcasecmp " + LB('A', 0, L, 7, 3, {{L - 1, 0}}) + " " + LB('B', 5, L, 7, 3, with(flips, {{L - 1, 0}})) + " A+0 B+0");
        E("L:strcasecmp " + LB('A', 0, L, 7, 3, {{L - 1, 0}}) + " " + LB('B', 5, L, 7, 3, with(flips, {{L - 2, 0xfe}, {L - 1, 0}})) + " A+0 B+0");
        E("L:strncasecmp " + LB('A', 0, L, 7, 3, {{L - 1, 0}}) + " " + LB('B', 5, L, 7, 3, with(flips, {{L - 2, 0xfe}, {L - 1, 0}})) + " A+0 B+0 " + N(L - 2));
        E("L:strncasecmp " + LB('A', 0, L, 7, 3, {{L - 1, 0}}) + " " + LB('B', 5, L, 7, 3, with(flips, {{L - 2, 0xfe}, {L - 1, 0}})) + " A+0 B+0 " + sL);
        E("L:strchr " + LB('A', 1, L, 0, 4, {{L - 2, 0xff}, {L - 1, 0}}) + " A+0 #255");
        E("L:strchr " + LB('A', 1, L, 0, 4, {{L - 1, 0}}) + " A+0 #255");
        E("L:strchr " + LB('A', 1, L, 0, 4, {{L - 1, 0}}) + " A+0 #256");
        E("L:strchrnul " + LB('A', 1, L, 0, 4, {{L - 1, 0}}) + " A+0 #255");
        E("L:strrchr " + LB('A', 1, L, 0, 4, {{0, 0xff}, {L - 1, 0}}) + " A+0 #-1");
        E("L:strrchr " + LB('A', 1, L, 0, 4, {{L - 1, 0}}) + " A+0 #5");
        E("L:strrchr " + LB('A', 1, L, 0, 4, {{L - 1, 0}}) + " A+0 #0");
        E("L:strstr " + LB('A', 2, L, 0, 96, {{L - 2, 'b'}, {L - 1, 0}}) + " " + B('B', 0, cstr({'a', 'b'})) + " A+0 B+0");
        E("L:strstr " + LB('A', 2, L, 0, 96, {{L - 1, 0}}) + " " + B('B', 0, cstr({'a', 'b'})) + " A+0 B+0");
        E("L:strcasestr " + LB('A', 2, L, 0, 96, {{L - 2, 'b'}, {L - 1, 0}}) + " " + B('B', 0, cstr({'A', 'B'})) + " A+0 B+0");
        E("L:strspn " + LB('A', 3, L, 0, 96, {{L - 1, 0}}) + " " + B('B', 0, cstr({'b', 'a'})) + " A+0 B+0");
        E("L:strcspn " + LB('A', 3, L, 0, 96, {{L - 2, ','}, {L - 1, 0}}) + " " + B('B', 0, cstr({';', ','})) + " A+0 B+0");
        E("L:strpbrk " + LB('A', 3, L, 0, 96, {{L - 2, ','}, {L - 1, 0}}) + " " + B('B', 0, cstr({';', ','})) + " A+0 B+0");
        E("L:strtok_r " + LB('A', 3, L, 0, 96, {{0, ','}, {L - 5, ','}, {L - 1, 0}}) + " " + B('B', 0, cstr({','})) + " A+0,B+0 N,B+0 N,B+0");
        E("L:strdup " + LB('A', 7, L, 7, 3, {{L - 1, 0}}) + " A+0 #0");
        E("L:strndup " + LB('A', 7, L, 7, 3) + " A+0 " + sL + " #0");
        E("L:strndup " + LB('A', 7, L, 7, 3, {{L - 1, 0}}) + " A+0 " + N(L - 7) + " #0");
        E("L:strlwr " + LB('A', 5, L, 0, 119, {{0, 'Q'}, {65535, 'A'}, {65536, 'Z'}, {L - 2, 'M'}, {L - 1, 0}}) + " A+0");
        E("L:strupr " + LB('A', 5, L, 0, 87, {{0, 'q'}, {65535, 'a'}, {65536, 'z'}, {L - 2, 'm'}, {L - 1, 0}}) + " A+0");
    }
    // ---- round 3b: counters of WORDS / of 4-word BLOCKS.  A 16-bit counter of n/8 words wraps at 512 KiB, one of
    // n/32 blocks at 2 MiB (the 300 KiB inputs above are too short for either); the writers run the literal model
    // in its linear-time form, so these sizes are affordable
    for (size_t n : {(size_t)524288 + 37, (size_t)2097152 + 69})
    {
        bool big2 = n > 1000000; // the 2 MiB inputs cost about a second each in the driver: one in the quick tier
        std::string sn = N(n);
        E("L:memcpy " + LB('A', 0, n, 0, 0) + " " + LB('B', 8, n, 7, 3) + " A+0 B+0 " + sn);   // the word path
        if (!big2 || th)
        {
            E("L:memmove " + LB('A', 0, n + 64, 13, 5) + " A+0 A+64 " + sn);                  // forward overlap, through memcpy's word path
            E("L:memmove " + LB('A', 8, n + 64, 13, 5) + " A+64 A+0 " + sn);                  // backward byte loop
        }
        if (!big2)
        {
            E("L:memset " + LB('A', 0, n, 5, 1) + " A+0 #90 " + sn);
            E("L:strcpy " + LB('A', 0, n + 1, 0, 0) + " " + LB('B', 8, n + 1, 7, 3, {{n, 0}}) + " A+0 B+0");
        }
        if (!big2 && th)
        {
            E("L:strncpy " + LB('A', 0, n, 0, 0) + " " + LB('B', 8, 9, 7, 3, {{8, 0}}) + " A+0 B+0 " + sn);
            E("L:memcmp " + LB('A', 0, n, 7, 3) + " " + LB('B', 8, n, 7, 3, {{n - 1, 0xff}}) + " A+0 B+0 " + sn);
            E("L:strlen " + LB('A', 0, n + 1, 7, 3, {{n, 0}}) + " A+0");
            E("L:memchr " + LB('A', 0, n, 0, 4, {{n - 1, 0xff}}) + " A+0 #255 " + sn);
        }
    }
}

// pure generation (no code under test runs here): not instrumenting it cuts the
// harness compile time from 40 s to 15 s
__attribute__((no_sanitize("address", "undefined"))) void gen(rng &r, const std::string &tier)
{
    bool th = tier == "thorough";
    int K = th ? 6 : 1;
    E("plat");
    bytes all256(256);
    for (int i = 0; i < 256; i++) all256[i] = (uint8_t)i;
    bytes all255(all256.begin() + 1, all256.end());

    // ---- memcpy: every length 0..70 at all 8x8 alignments, exactly sized buffers
    for (int n = 0; n <= 70; n++)
        for (unsigned da = 0; da < 8; da++)
            for (unsigned sa = 0; sa < 8; sa++)
                E("memcpy " + B('A', da, bytes(n, 0xA5)) + " " + B('B', sa, rbytes(r, n, true)) + " A+0 B+0 " + N(n));
    for (unsigned al = 0; al < 8; al++)
    {
        E("memcpy " + B('A', al, bytes(256, 0)) + " " + B('B', 7 - al, all256) + " A+0 B+0 #256");
        E("memmove " + B('A', al, bytes(256, 0)) + " " + B('B', 7 - al, all256) + " A+0 B+0 #256");
    }
    for (int k = 0; k < 300 * K; k++)
    {
        // destination inside a larger buffer: the bytes around it must survive
        size_t n = r.range(0, 70), x = r.range(0, 9), y = r.range(0, 9), u = r.range(0, 9), v = r.range(0, 9);
        E(std::string(r.chance(50) ? "memcpy " : "memmove ") + B('A', r.below(8), rbytes(r, x + n + y, true)) + " " + B('B', r.below(8), rbytes(r, u + n + v, true)) + " " + Pp('A', x) + " " + Pp('B', u) + " " + N(n));
    }
    // ---- memmove inside one buffer: every overlap offset -40..40, every length
    for (int off = -40; off <= 40; off++)
        for (int n = 0; n <= 70; n++)
        {
            size_t d = off > 0 ? off : 0, s = off < 0 ? -off : 0;
            size_t size = (off < 0 ? -off : off) + n;
            for (unsigned al = 0; al < 8; al++)
            {
                // all 8 absolute alignments: dst and src are 8-aligned together
                // (memcpy's word path) only when the offset is a multiple of 8
                E("memmove " + B('A', al, rbytes(r, size, true)) + " " + Pp('A', d) + " " + Pp('A', s) + " " + N(n));
            }
        }
    // ---- the word path of memcpy (n >= 32, both pointers 8-aligned): every
    // length 32..160 (several rounds of the 4x loop, 0..3 rounds of the 1x loop,
    // every tail), disjoint buffers and overlapping ones at multiples of 8
    for (int n = 32; n <= 160; n++)
        for (unsigned al : {0u, 8u})
        {
            E("memcpy " + B('A', al, bytes(n, 0xA5)) + " " + B('B', 8 - al, rbytes(r, n, true)) + " A+0 B+0 " + N(n));
            E("memmove " + B('A', al, bytes(n, 0xA5)) + " " + B('B', al, rbytes(r, n, true)) + " A+0 B+0 " + N(n));
        }
    for (int off : {-64, -40, -32, -24, -16, -8, 8, 16, 32, 64})
        for (int n = 32; n <= 100; n++)
        {
            size_t d = off > 0 ? off : 0, s = off < 0 ? -off : 0;
            size_t size = (off < 0 ? -off : off) + n;
            E("memmove " + B('A', (n % 2) * 8, rbytes(r, size, true)) + " " + Pp('A', d) + " " + Pp('A', s) + " " + N(n));
        }
    for (int n : {0, 1, 7, 8, 9, 31, 32, 33, 40, 63, 64, 65, 70})
        for (unsigned da = 0; da < 8; da++)
            for (unsigned sa = 0; sa < 8; sa++)
                E("memmove " + B('A', da, bytes(n, 0x5A)) + " " + B('B', sa, rbytes(r, n, true)) + " A+0 B+0 " + N(n));
    // ---- memset
    for (int n = 0; n <= 70; n++)
        for (unsigned al = 0; al < 8; al++)
            for (int k = 0; k < 2; k++)
                E("memset " + B('A', al, rbytes(r, n, true)) + " A+0 " + cint(r, k ? (uint8_t)r.next() : r.pick(SPECIAL)) + " " + N(n));
    for (int c = -128; c < 512; c += (th ? 1 : 5))
        E("memset " + B('A', r.below(8), bytes(3, 0x11)) + " A+0 #" + std::to_string(c) + " #3");
    for (int k = 0; k < 200 * K; k++)
    {
        size_t n = r.range(0, 40), x = r.range(0, 9), y = r.range(0, 9);
        E("memset " + B('A', r.below(8), rbytes(r, x + n + y, true)) + " " + Pp('A', x) + " " + cint(r, (uint8_t)r.next()) + " " + N(n));
    }
    // ---- memcmp
    static const uint8_t PAIRS[][2] = {{0, 1}, {0x7f, 0x80}, {0x80, 0x7f}, {0xff, 0}, {0, 0xff}, {0xff, 0xfe}, {'a', 'A'}, {1, 0x81}};
    for (int rep = 0; rep < K; rep++)
        for (int n = 0; n <= 70; n++)
        {
            bytes x = rbytes(r, n, true);
            E("memcmp " + B('A', r.below(8), x) + " " + B('B', r.below(8), x) + " A+0 B+0 " + N(n));
            for (int k : {0, n / 2, n - 1, (int)r.range(0, n ? n - 1 : 0)})
            {
                if (k < 0 || k >= n) continue;
                bytes y = x, z = x;
                auto &pr = PAIRS[r.below(8)];
                if (r.chance(70)) { y[k] = pr[0]; z[k] = pr[1]; } else { z[k] = (uint8_t)(y[k] + 1 + r.below(255)); }
                // everything after the first difference is random
                for (int j = k + 1; j < n; j++) if (r.chance(50)) z[j] = (uint8_t)r.next();
                E("memcmp " + B('A', r.below(8), y) + " " + B('B', r.below(8), z) + " A+0 B+0 " + N(n));
            }
            // a difference just behind n must not be looked at
            bytes y = cat(x, {0x10}), z = cat(x, {0x20});
            E("memcmp " + B('A', r.below(8), y) + " " + B('B', r.below(8), z) + " A+0 B+0 " + N(n));
        }
    // ---- memchr / memrchr
    for (int rep = 0; rep < K; rep++)
        for (int n = 0; n <= 70; n++)
            for (const char *fn : {"memchr", "memrchr"})
            {
                uint8_t c = r.chance(50) ? r.pick(SPECIAL) : (uint8_t)r.next();
                bytes x = rbytes(r, n, true);
                for (auto &b : x) if (b == c) b ^= 0x55;
                E(std::string(fn) + " " + B('A', r.below(8), x) + " A+0 " + cint(r, c) + " " + N(n));
                for (int k : {0, n / 2, n - 1})
                {
                    if (k < 0 || k >= n) continue;
                    bytes y = x;
                    y[k] = c;
                    if (r.chance(40)) y[r.below(n)] = c; // a second occurrence
                    E(std::string(fn) + " " + B('A', r.below(8), y) + " A+0 " + cint(r, c) + " " + N(n));
                }
            }
    for (int k = 0; k < 200 * K; k++)
    {
        // C11 7.24.5.1: memchr stops at the first match, so n may exceed the object then
        size_t n = r.range(1, 30), at = r.below(n);
        uint8_t c = (uint8_t)r.next();
        bytes x = rbytes(r, n, true);
        for (auto &b : x) if (b == c) b ^= 0x55;
        x[at] = c;
        x.resize(at + 1);
        E("memchr " + B('A', r.below(8), x) + " A+0 " + cint(r, c) + " " + N(n + r.range(0, 100)));
    }
    // ---- strlen / strnlen
    for (int len = 0; len <= 70; len++)
        for (unsigned al = 0; al < 8; al++)
            E("strlen " + B('A', al, cstr(rbytes(r, len, false))) + " A+0");
    E("strlen " + B('A', 0, cstr(all255)) + " A+0");
    for (int k = 0; k < 100 * K; k++)
    {
        size_t len = r.range(0, 30), x = r.range(0, 9);
        E("strlen " + B('A', r.below(8), cat(rbytes(r, x, true), cstr(rbytes(r, len, false)))) + " " + Pp('A', x));
    }
    for (int rep = 0; rep < K; rep++)
        for (int len = 0; len <= 40; len++)
        {
            bytes s = rbytes(r, len, false);
            for (uint64_t n : {(uint64_t)0, (uint64_t)1, (uint64_t)(len ? len - 1 : 0), (uint64_t)len, (uint64_t)len + 1, (uint64_t)len + 9, (uint64_t)1 << 20, ~(uint64_t)0})
                E("strnlen " + B('A', r.below(8), cstr(s)) + " A+0 " + N(n));
            // not NUL-terminated: exactly n bytes exist
            E("strnlen " + B('A', r.below(8), s) + " A+0 " + N(len));
            if (len) E("strnlen " + B('A', r.below(8), s) + " A+0 " + N(len - 1));
        }
    // ---- strcpy
    for (int len = 0; len <= 70; len++)
        for (unsigned da = 0; da < 8; da++)
            for (unsigned sa = 0; sa < 8; sa++)
                if (th || len <= 12 || (da == (unsigned)(len % 8)) || (sa == (unsigned)((len / 8 + da) % 8)))
                    E("strcpy " + B('A', da, bytes(len + 1, 0xA5)) + " " + B('B', sa, cstr(rbytes(r, len, false))) + " A+0 B+0");
    E("strcpy " + B('A', 0, bytes(256, 0x11)) + " " + B('B', 0, cstr(all255)) + " A+0 B+0");
    // ---- strncpy / strlcpy
    for (int rep = 0; rep < K; rep++)
        for (int sl = 0; sl <= 20; sl++)
            for (int n = 0; n <= 24; n++)
            {
                bytes s = rbytes(r, sl, false);
                E("strncpy " + B('A', r.below(8), rbytes(r, n, true)) + " " + B('B', r.below(8), cstr(s)) + " A+0 B+0 " + N(n));
                if (sl >= n) // the source array need not be terminated when it has n characters
                    E("strncpy " + B('A', r.below(8), rbytes(r, n, true)) + " " + B('B', r.below(8), bytes(s.begin(), s.begin() + n)) + " A+0 B+0 " + N(n));
                E("strlcpy " + B('A', r.below(8), rbytes(r, n, true)) + " " + B('B', r.below(8), cstr(s)) + " A+0 B+0 " + N(n));
            }
    for (int k = 0; k < 100 * K; k++)
    {
        // destination inside a larger buffer
        size_t sl = r.range(0, 12), n = r.range(0, 16), x = r.range(1, 5), y = r.range(1, 5);
        bytes s = cstr(rbytes(r, sl, false));
        E("strncpy " + B('A', r.below(8), rbytes(r, x + n + y, true)) + " " + B('B', r.below(8), s) + " " + Pp('A', x) + " B+0 " + N(n));
        E("strlcpy " + B('A', r.below(8), rbytes(r, x + n + y, true)) + " " + B('B', r.below(8), s) + " " + Pp('A', x) + " B+0 " + N(n));
    }
    // ---- strcat / strncat
    for (int rep = 0; rep < K; rep++)
        for (int dl = 0; dl <= 12; dl++)
            for (int sl = 0; sl <= 12; sl++)
            {
                bytes d = cat(cstr(rbytes(r, dl, false)), rbytes(r, sl, true));
                E("strcat " + B('A', r.below(8), d) + " " + B('B', r.below(8), cstr(rbytes(r, sl, false))) + " A+0 B+0");
            }
    for (int rep = 0; rep < K; rep++)
        for (int dl = 0; dl <= 6; dl++)
            for (int sl = 0; sl <= 11; sl++)
                for (int n = 0; n <= 13; n++)
                {
                    int cpy = sl < n ? sl : n;
                    bytes d = cat(cstr(rbytes(r, dl, false)), rbytes(r, cpy, true));
                    bytes s = rbytes(r, sl, false);
                    if (sl >= n && r.chance(50))
                        E("strncat " + B('A', r.below(8), d) + " " + B('B', r.below(8), bytes(s.begin(), s.begin() + n)) + " A+0 B+0 " + N(n));
                    else
                        E("strncat " + B('A', r.below(8), d) + " " + B('B', r.below(8), cstr(s)) + " A+0 B+0 " + N(n));
                }
    // ---- strcmp / strncmp / strcasecmp / strncasecmp
    static const uint8_t SP[][2] = {{0x7f, 0x80}, {0x80, 0x7f}, {0xff, 0x01}, {0x01, 0xff}, {'a', 'A'}, {'Z', 'z'}, {'@', '`'}, {'[', '{'}, {0xC1, 0xE1}, {'a', 'B'}, {'B', 'a'}, {'Z', '['}, {'z', '{'}, {'A', '@'}, {'_', 'a'}, {'_', 'A'}};
    for (int rep = 0; rep < 600 * K; rep++)
    {
        size_t pl = r.range(0, 20);
        bytes p = rbytes(r, pl, false), q = p;
        bool flip = r.chance(50);
        if (flip)
            for (auto &c : q) if (isalpha(c) && r.chance(50)) c ^= 0x20;
        bytes x = p, y = q;
        int kind = (int)r.below(5);
        if (kind == 1) y = cat(y, rbytes(r, r.range(1, 4), false));       // x is a proper prefix
        else if (kind == 2) x = cat(x, rbytes(r, r.range(1, 4), false));  // y is a proper prefix
        else if (kind >= 3)
        {
            auto &pr = SP[r.below(16)];
            uint8_t u = pr[0], v = pr[1];
            if (kind == 4) { u = (uint8_t)(1 + r.below(255)); v = (uint8_t)(1 + r.below(255)); }
            x.push_back(u); y.push_back(v);
            x = cat(x, rbytes(r, r.range(0, 4), false));
            y = cat(y, rbytes(r, r.range(0, 4), false));
        }
        std::string bx = B('A', r.below(8), cstr(x)), by = B('B', r.below(8), cstr(y));
        E("strcmp " + bx + " " + by + " A+0 B+0");
        E("strcasecmp " + bx + " " + by + " A+0 B+0");
        for (uint64_t n : {(uint64_t)0, (uint64_t)pl, (uint64_t)pl + 1, (uint64_t)(pl ? pl - 1 : 0), (uint64_t)r.range(0, 30), ~(uint64_t)0})
        {
            if (!th && r.chance(40)) continue;
            E("strncmp " + bx + " " + by + " A+0 B+0 " + N(n));
            E("strncasecmp " + bx + " " + by + " A+0 B+0 " + N(n));
        }
        // arrays of exactly n characters, no terminator: decided within n, or equal on all n
        size_t n = x.size() < y.size() ? x.size() : y.size();
        bytes xa(x.begin(), x.begin() + n), ya(y.begin(), y.begin() + n);
        E("strncmp " + B('A', r.below(8), xa) + " " + B('B', r.below(8), ya) + " A+0 B+0 " + N(n));
        E("strncasecmp " + B('A', r.below(8), xa) + " " + B('B', r.below(8), ya) + " A+0 B+0 " + N(n));
    }
    // every byte against its case partner / neighbour: tolower must be the C-locale ASCII map
    for (int c = 1; c < 256; c++)
        for (int d : {c ^ 0x20, c, (c + 1) & 0xff})
        {
            if (d == 0) continue;
            bytes x = {(uint8_t)c, 0}, y = {(uint8_t)d, 0};
            E("strcasecmp " + B('A', 0, x) + " " + B('B', 0, y) + " A+0 B+0");
            E("strncasecmp " + B('A', 0, x) + " " + B('B', 0, y) + " A+0 B+0 #1");
            E("strcmp " + B('A', 0, x) + " " + B('B', 0, y) + " A+0 B+0");
            E("strcasestr " + B('A', 0, x) + " " + B('B', 0, y) + " A+0 B+0");
        }
    // ---- strchr / strrchr / strchrnul
    for (int rep = 0; rep < K; rep++)
        for (int len = 0; len <= 40; len++)
            for (const char *fn : {"strchr", "strrchr", "strchrnul"})
            {
                uint8_t c = r.chance(50) ? r.pick(SPECIAL) : (uint8_t)(1 + r.below(255));
                bytes x = rbytes(r, len, false);
                for (auto &b : x) if (b == c) b = (uint8_t)(b == 0x55 ? 0x56 : 0x55);
                std::string f(fn);
                E(f + " " + B('A', r.below(8), cstr(x)) + " A+0 " + cint(r, c));          // absent
                E(f + " " + B('A', r.below(8), cstr(x)) + " A+0 " + cint(r, 0));          // the terminator
                for (int k : {0, len / 2, len - 1})
                {
                    if (k < 0 || k >= len) continue;
                    bytes y = x;
                    y[k] = c;
                    if (r.chance(50)) y[r.below(len)] = c;
                    E(f + " " + B('A', r.below(8), cstr(y)) + " A+0 " + cint(r, c));
                }
            }
    for (int c = -300; c <= 600; c += (th ? 1 : 3))
        for (const char *fn : {"strchr", "strrchr", "strchrnul"})
            E(std::string(fn) + " " + B('A', 0, cstr({0x2c, 0xac, 0x01, 0xff, 0x2c, 0x80})) + " A+0 #" + std::to_string(c));
    // ---- strstr / strcasestr: all haystacks up to 5 and needles up to 3 over {a,b}
    auto enumerate = [&](const char *fn, const std::vector<uint8_t> &al, int hmax, int nmax) {
        std::vector<bytes> hs{{}}, ns;
        for (size_t i = 0; i < hs.size(); i++)
            if ((int)hs[i].size() < hmax)
                for (uint8_t c : al) hs.push_back(cat(hs[i], {c}));
        for (auto &h : hs) if ((int)h.size() <= nmax) ns.push_back(h);
        for (auto &h : hs)
            for (auto &n : ns)
                E(std::string(fn) + " " + B('A', 0, cstr(h)) + " " + B('B', 0, cstr(n)) + " A+0 B+0");
    };
    enumerate("strstr", {'a', 'b'}, 5, 3);
    enumerate("strcasestr", {'a', 'B', 'b'}, 4, 2);
    for (int k = 0; k < 1200 * K; k++)
    {
        size_t hl = r.range(0, 24), nl = r.range(0, 6);
        bytes h = rbytes(r, hl, false), n;
        if (hl && r.chance(60))
        {
            size_t at = r.below(hl), l = std::min(nl, hl - at);
            n = bytes(h.begin() + at, h.begin() + at + l);
            if (r.chance(30)) n.push_back((uint8_t)(1 + r.below(255))); // almost a match / runs off the end
        }
        else n = rbytes(r, nl, false);
        bytes nc = n;
        for (auto &c : nc) if (r.chance(50)) c ^= 0x20; // case partner or not a letter at all
        for (auto &c : nc) if (!c) c = 0x20;
        E("strstr " + B('A', r.below(8), cstr(h)) + " " + B('B', r.below(8), cstr(n)) + " A+0 B+0");
        E("strcasestr " + B('A', r.below(8), cstr(h)) + " " + B('B', r.below(8), cstr(nc)) + " A+0 B+0");
    }
    // ---- strspn / strcspn / strpbrk
    enumerate("strspn", {'a', 0xE1}, 4, 2);
    enumerate("strcspn", {'a', 0xE1}, 4, 2);
    enumerate("strpbrk", {'a', 0xE1}, 4, 2);
    for (int k = 0; k < 800 * K; k++)
    {
        static const std::vector<uint8_t> AL = {'a', 'b', ',', 0x80, 0xff, 0x01, 'A'};
        size_t sl = r.range(0, 20), al = r.range(0, 5);
        bytes s(sl), set(al);
        for (auto &c : set) c = r.pick(AL);
        for (auto &c : s) c = r.chance(70) ? r.pick(AL) : (uint8_t)(1 + r.below(255));
        for (const char *fn : {"strspn", "strcspn", "strpbrk"})
            E(std::string(fn) + " " + B('A', r.below(8), cstr(s)) + " " + B('B', r.below(8), cstr(set)) + " A+0 B+0");
    }
    // ---- strtok / strtok_r
    for (int k = 0; k < 1500 * K; k++)
    {
        static const std::vector<uint8_t> AL = {',', ';', 'a', 'b', ' ', 0xE1, ','};
        static const std::vector<bytes> DS = {{','}, {';'}, {',', ';'}, {}, {' ', ','}, {0xE1}, {',', ',', 'a'}};
        size_t sl = r.range(0, 16);
        bytes s(sl);
        for (auto &c : s) c = r.pick(AL);
        std::string line = std::string(r.chance(50) ? "strtok " : "strtok_r ") + B('A', r.below(8), cstr(s));
        // up to three delimiter strings
        int nd = (int)r.range(1, 3);
        for (int i = 0; i < nd; i++) line += " " + B((char)('B' + i), r.below(8), cstr(r.pick(DS)));
        int calls = (int)r.range(1, 8);
        bool reent = line[6] == '_';
        for (int i = 0; i < calls; i++)
        {
            std::string d = Pp((char)('B' + (r.chance(75) ? 0 : r.below(nd))), 0);
            if (i == 0 && (!reent || r.chance(90))) line += " A+0," + d;
            else if (r.chance(8)) line += " " + Pp('A', r.below(sl + 1)) + "," + d; // start over somewhere
            else line += " N," + d;
        }
        E(line);
    }
    // ---- strdup / strndup
    for (int rep = 0; rep < K; rep++)
        for (int len = 0; len <= 40; len++)
        {
            bytes s = rbytes(r, len, false);
            E("strdup " + B('A', r.below(8), cstr(s)) + " A+0 #0");
            if (len % 8 == 0) E("strdup " + B('A', r.below(8), cstr(s)) + " A+0 #1");
            for (uint64_t n : {(uint64_t)0, (uint64_t)(len ? len - 1 : 0), (uint64_t)len, (uint64_t)len + 1, (uint64_t)len + 20, (uint64_t)r.range(0, len)})
                E("strndup " + B('A', r.below(8), cstr(s)) + " A+0 " + N(n) + " #" + (r.chance(5) ? "1" : "0"));
            // an array of exactly n characters without terminator
            E("strndup " + B('A', r.below(8), s) + " A+0 " + N(len) + " #0");
            if (len > 2) E("strndup " + B('A', r.below(8), s) + " A+0 " + N(len - 2) + " #0");
        }
    // ---- strlwr / strupr
    E("strlwr " + B('A', 0, cstr(all255)) + " A+0");
    E("strupr " + B('A', 0, cstr(all255)) + " A+0");
    for (int k = 0; k < 300 * K; k++)
    {
        size_t len = r.range(0, 40), x = r.range(0, 3);
        bytes s = cat(rbytes(r, x, true), cat(cstr(rbytes(r, len, false)), rbytes(r, r.range(0, 3), true)));
        E(std::string(r.chance(50) ? "strlwr " : "strupr ") + B('A', r.below(8), s) + " " + Pp('A', x));
    }
    gen3(r, th, K);
}

