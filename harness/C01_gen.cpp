// C01: the generator part of harness/C01.cpp as a translation unit of its own (compiled in parallel by bin/check)
#define C01_PART_GEN 1
#include "C01.cpp"
