// C07: the second copy of the integer <-> text routines in igris/container/std_portable.h
// (an amalgamated single header, namespace igris, NOT anchored by the property and not
// repaired by the fix: commits of numconvert.c / hexascii.h).  Own translation unit: the
// header redefines the macros of igris/util/access.h and the igris_* names as static inlines.
#include <igris/container/std_portable.h>

extern "C" char *c07_twin_toa(int k, unsigned long long v, char *buf, unsigned char base)
{
    switch (k)
    {
    case 0: return igris::igris_i8toa((int8_t)v, buf, base);
    case 1: return igris::igris_i16toa((int16_t)v, buf, base);
    case 2: return igris::igris_i32toa((int32_t)v, buf, base);
    case 3: return igris::igris_i64toa((int64_t)v, buf, base);
    case 4: return igris::igris_u8toa((uint8_t)v, buf, base);
    case 5: return igris::igris_u16toa((uint16_t)v, buf, base);
    case 6: return igris::igris_u32toa((uint32_t)v, buf, base);
    default: return igris::igris_u64toa((uint64_t)v, buf, base);
    }
}
extern "C" unsigned long long c07_twin_ato(int k, const char *buf, unsigned char base, char **end)
{
    switch (k)
    {
    case 0: return (uint8_t)igris::igris_atoi8(buf, base, end);
    case 1: return (uint16_t)igris::igris_atoi16(buf, base, end);
    case 2: return (uint32_t)igris::igris_atoi32(buf, base, end);
    case 3: return (uint64_t)igris::igris_atoi64(buf, base, end);
    case 4: return igris::igris_atou8(buf, base, end);
    case 5: return igris::igris_atou16(buf, base, end);
    case 6: return igris::igris_atou32(buf, base, end);
    default: return igris::igris_atou64(buf, base, end);
    }
}
extern "C" unsigned char c07_twin_hex2half(char c) { return igris::hex2half(c); }
