// C07: the second copy of the integer <-> text routines in igris/container/std_portable.h
// (an amalgamated single header, namespace igris, NOT anchored by the property; repaired in round 3b with the
// same five changes as numconvert.c / hexascii.h).  Own translation unit: the header redefines the macros of
// igris/util/access.h and the igris_* names as static inlines.
//
// Round 3b (fragility): the copy is an internal detail of that header.  The calls below are UNQUALIFIED calls
// from inside namespace igris: when the header carries its own igris::igris_i64toa ... they resolve to the copy;
// when the header stops carrying one (regenerated to use numconvert.h, renamed, dropped) they resolve to the
// global declarations of the anchored C routines below, the harness still builds, and the operations report the
// tag `std_portable-twin-absent`.
#include <stdint.h>
extern "C"
{
    char *igris_i8toa(int8_t num, char *buf, uint8_t base);
    char *igris_i16toa(int16_t num, char *buf, uint8_t base);
    char *igris_i32toa(int32_t num, char *buf, uint8_t base);
    char *igris_i64toa(int64_t num, char *buf, uint8_t base);
    char *igris_u8toa(uint8_t num, char *buf, uint8_t base);
    char *igris_u16toa(uint16_t num, char *buf, uint8_t base);
    char *igris_u32toa(uint32_t num, char *buf, uint8_t base);
    char *igris_u64toa(uint64_t num, char *buf, uint8_t base);
    int8_t igris_atoi8(const char *buf, uint8_t base, char **end);
    int16_t igris_atoi16(const char *buf, uint8_t base, char **end);
    int32_t igris_atoi32(const char *buf, uint8_t base, char **end);
    int64_t igris_atoi64(const char *buf, uint8_t base, char **end);
    uint8_t igris_atou8(const char *buf, uint8_t base, char **end);
    uint16_t igris_atou16(const char *buf, uint8_t base, char **end);
    uint32_t igris_atou32(const char *buf, uint8_t base, char **end);
    uint64_t igris_atou64(const char *buf, uint8_t base, char **end);
    unsigned char c07_real_hex2half(char c); // harness/C07.cpp: hex2half of igris/util/hexascii.h
}
static inline uint8_t hex2half(char c) { return c07_real_hex2half(c); }
typedef char *(*c07_i64toa_t)(int64_t, char *, uint8_t);
static const c07_i64toa_t c07_global_i64toa = &igris_i64toa;

#if __has_include(<igris/container/std_portable.h>) // the header itself may go away
#include <igris/container/std_portable.h>
#else
namespace igris {}
#endif

namespace igris
{
    namespace c07probe
    {
        static char *toa(int k, unsigned long long v, char *buf, unsigned char base)
        {
            switch (k)
            {
            case 0: return igris_i8toa((int8_t)v, buf, base);
            case 1: return igris_i16toa((int16_t)v, buf, base);
            case 2: return igris_i32toa((int32_t)v, buf, base);
            case 3: return igris_i64toa((int64_t)v, buf, base);
            case 4: return igris_u8toa((uint8_t)v, buf, base);
            case 5: return igris_u16toa((uint16_t)v, buf, base);
            case 6: return igris_u32toa((uint32_t)v, buf, base);
            default: return igris_u64toa((uint64_t)v, buf, base);
            }
        }
        static unsigned long long ato(int k, const char *buf, unsigned char base, char **end)
        {
            switch (k)
            {
            case 0: return (uint8_t)igris_atoi8(buf, base, end);
            case 1: return (uint16_t)igris_atoi16(buf, base, end);
            case 2: return (uint32_t)igris_atoi32(buf, base, end);
            case 3: return (uint64_t)igris_atoi64(buf, base, end);
            case 4: return igris_atou8(buf, base, end);
            case 5: return igris_atou16(buf, base, end);
            case 6: return igris_atou32(buf, base, end);
            default: return igris_atou64(buf, base, end);
            }
        }
        static unsigned char h2h(char c) { return hex2half(c); }
        // the copy is a static inline in namespace igris: its address differs from the C routine's
        static int present() { c07_i64toa_t f = &igris_i64toa; return f != c07_global_i64toa; }
    }
}

extern "C" char *c07_twin_toa(int k, unsigned long long v, char *buf, unsigned char base) { return igris::c07probe::toa(k, v, buf, base); }
extern "C" unsigned long long c07_twin_ato(int k, const char *buf, unsigned char base, char **end) { return igris::c07probe::ato(k, buf, base, end); }
extern "C" unsigned char c07_twin_hex2half(char c) { return igris::c07probe::h2h(c); }
extern "C" int c07_twin_present(void) { return igris::c07probe::present(); }
