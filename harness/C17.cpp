// C17 harness: igris/util/crc.{h,c} against the Lean model (IgrisModel/C17).
#include "common/hv.h"
#include <igris/util/crc.h>
// the table is `static`: reach it by including the translation unit itself
#include <igris/util/crc.c>

using namespace hv;
typedef std::vector<uint8_t> bytes;

// ---------------------------------------------------------------- references
// Independent bit-at-a-time definitions ("Rocksoft" parameterisation).
static uint32_t ref_msb(unsigned width, uint32_t poly, uint32_t reg, const bytes &msg)
{
    uint32_t top = 1u << (width - 1), mask = width == 32 ? 0xFFFFFFFFu : ((1u << width) - 1);
    for (uint8_t b : msg)
        for (int i = 7; i >= 0; i--)
        {
            bool bit = (b >> i) & 1;
            bool msb = reg & top;
            reg = (reg << 1) & mask;
            if (msb != bit)
                reg ^= poly;
        }
    return reg & mask;
}
static uint32_t ref_lsb(uint32_t polyrev, uint32_t reg, const bytes &msg)
{
    for (uint8_t b : msg)
        for (int i = 0; i < 8; i++)
        {
            bool bit = (b >> i) & 1;
            bool lsb = reg & 1;
            reg >>= 1;
            if (lsb != bit)
                reg ^= polyrev;
        }
    return reg;
}
// CRC-32 as igris defines it: the message is consumed in little-endian 32-bit
// words, most significant bit first, the tail zero-extended to a word.
static bytes crc32_bitorder(const bytes &m)
{
    bytes r;
    size_t i = 0;
    for (; i + 4 <= m.size(); i += 4)
        for (int k = 3; k >= 0; k--)
            r.push_back(m[i + k]);
    if (i < m.size())
    {
        uint8_t w[4] = {0, 0, 0, 0};
        for (size_t k = 0; i + k < m.size(); k++)
            w[k] = m[i + k];
        for (int k = 3; k >= 0; k--)
            r.push_back(w[k]);
    }
    return r;
}

static bytes sub(const bytes &m, size_t a, size_t b) { return bytes(m.begin() + a, m.begin() + b); }
// every split point for short messages, ~64 evenly spread ones (plus both ends) for long ones
static size_t split_step(size_t n) { return n <= 512 ? 1 : n / 64; }

// ---------------------------------------------------------------- run
static uint8_t strm(uint8_t seed, const uint8_t *p, size_t n)
{
    uint8_t c = seed;
    for (size_t i = 0; i < n; i++)
        igris_strmcrc8(&c, (char)p[i]);
    return c;
}

static void run_op(const std::vector<std::string> &w, const std::string &, out &o)
{
    const std::string &op = w[0];
    if (op == "tbl8")
    {
        o.result = hex(dscrc2x16_table, sizeof dscrc2x16_table);
        return;
    }
    if (op == "reset")
    {
        o.result = "ok";
        return;
    }
    if (op == "check")
    {
        // catalogue check values of "123456789" (reveng CRC catalogue) and two STM32 CRC-unit values
        static const uint8_t m9[9] = {'1', '2', '3', '4', '5', '6', '7', '8', '9'};
        exact_buf b(bytes(m9, m9 + 9));
        uint8_t c8 = igris_crc8(b.p, 9, 0), c8t = igris_crc8_table(b.p, 9, 0), c7 = igris_mmc_crc7(b.p, 9);
        uint8_t sm = strm(0xff, b.p, 9);
        uint16_t x = igris_crc16(b.p, 9, 0), f = igris_crc16(b.p, 9, 0xffff), a = igris_crc16(b.p, 9, 0x1d0f);
        static const uint8_t z4[4] = {0, 0, 0, 0};
        exact_buf bz(bytes(z4, z4 + 4));
        uint32_t w0 = igris_crc32(bz.p, 4, 0xffffffffu);
        // CRC-32/MPEG-2 of "12345678" fed as byte-swapped words
        static const uint8_t sw[8] = {'4', '3', '2', '1', '8', '7', '6', '5'};
        exact_buf bs(bytes(sw, sw + 8));
        uint32_t mp = igris_crc32(bs.p, 8, 0xffffffffu);
        bytes m8(m9, m9 + 8);
        o.result = hexn(c8, 2) + " " + hexn(c8t, 2) + " " + hexn(c7, 2) + " " + hexn(sm, 2) + " " + hexn(x, 4) + " " + hexn(f, 4) + " " + hexn(a, 4) + " " + hexn(w0, 8) + " " + hexn(mp, 8);
        if (c8 != 0xA1 || c8t != 0xA1) o.fail("CRC-8/MAXIM-DOW check value is 0xA1");
        if (c7 != 0x75) o.fail("CRC-7/MMC check value is 0x75");
        if (sm != 0xF7) o.fail("CRC-8/NRSC-5 (poly 0x31, init 0xFF) check value is 0xF7");
        if (x != 0x31C3) o.fail("CRC-16/XMODEM check value is 0x31C3");
        if (f != 0x29B1) o.fail("CRC-16/IBM-3740 (CCITT-FALSE) check value is 0x29B1");
        if (a != 0xE5CC) o.fail("CRC-16/SPI-FUJITSU (AUG-CCITT) check value is 0xE5CC");
        if (w0 != 0xC704DD7Bu) o.fail("STM32 CRC unit: one zero word after reset gives 0xC704DD7B");
        if (mp != ref_msb(32, 0x04C11DB7, 0xffffffffu, m8)) o.fail("crc32 of byte-swapped words != CRC-32/MPEG-2 of the message");
        if (ref_msb(32, 0x04C11DB7, 0xffffffffu, bytes(m9, m9 + 9)) != 0x0376E6E7u) o.fail("harness reference: CRC-32/MPEG-2 check value is 0x0376E6E7");
        o.tag("check");
        return;
    }
    if (op == "len")
    {
        // len <routine> <len> <seed> <mapped bytes>: the length argument differs from the mapped size
        const std::string &rt = w[1];
        size_t n = strtoul(w[2].c_str(), 0, 10);
        uint32_t seed = (uint32_t)strtoul(w[3].c_str(), 0, 16);
        bytes m = unhex(w[4]);
        exact_buf b(m);
        bytes pre(m.begin(), m.begin() + (n < m.size() ? n : m.size()));
        uint32_t r = 0, ref = 0;
        int digits = 2;
        auto call = [&](const uint8_t *p) -> uint32_t {
            if (rt == "crc8") return igris_crc8(p, (uint8_t)n, (uint8_t)seed);
            if (rt == "crc8t") return igris_crc8_table(p, (uint8_t)n, (uint8_t)seed);
            if (rt == "crc16") return igris_crc16(p, (uint16_t)n, (uint16_t)seed);
            if (rt == "mmc7") return igris_mmc_crc7(p, (uint8_t)n);
            return igris_crc32(p, (uint32_t)n, seed);
        };
        r = call(b.p);
        if (rt == "crc8" || rt == "crc8t") ref = ref_lsb(0x8C, seed, pre);
        else if (rt == "crc16") { ref = ref_msb(16, 0x1021, seed, pre); digits = 4; }
        else if (rt == "mmc7") ref = ref_msb(7, 0x09, 0, pre);
        else { ref = ref_msb(32, 0x04C11DB7, seed, crc32_bitorder(pre)); digits = 8; }
        o.result = hexn(r, digits);
        if (r != ref) o.fail(rt + " with len " + std::to_string(n) + " != reference over the first len bytes");
        // the bytes behind [0,len) are not an input
        bytes m2 = m;
        for (size_t k = n; k < m2.size(); k++) m2[k] ^= 0xff;
        exact_buf b2(m2);
        if (call(b2.p) != r) o.fail(rt + ": the result depends on bytes behind data+len");
        o.tag(("len-" + rt).c_str());
        if (n == 0) o.tag("len0");
        if (n < m.size()) o.tag("prefix");
        if ((n == 255 && rt != "crc16" && rt != "crc32") || (n == 65535 && rt == "crc16")) o.tag("lenmax");
        return;
    }
    if (op == "mmc7")
    {
        bytes m = unhex(w[1]);
        exact_buf b(m);
        uint8_t r = igris_mmc_crc7(b.p, (uint8_t)m.size());
        o.result = hexn(r, 2);
        uint32_t ref = ref_msb(7, 0x09, 0, m);
        if (ref != r)
            o.fail("mmc_crc7 != CRC-7/MMC reference " + hexn(ref, 2));
        if (m.size() > 0) o.tag("mmc7");
        return;
    }
    uint32_t seed = (uint32_t)strtoul(w[1].c_str(), 0, 16);
    bytes m = unhex(w[2]);
    size_t align = w.size() > 3 ? strtoul(w[3].c_str(), 0, 10) : 0;
    exact_buf b(m, align);
    if (m.size() > 0) o.tag(op.c_str());
    if (align % 4) o.tag("misaligned");
    if (op == "strm")
    {
        uint8_t r = strm((uint8_t)seed, b.p, m.size());
        o.result = hexn(r, 2);
        uint32_t ref = ref_msb(8, 0x31, seed, m);
        if (ref != r)
            o.fail("strmcrc8 != reference " + hexn(ref, 2));
        for (size_t k = 0; k <= m.size(); k++)
            if (strm(strm((uint8_t)seed, b.p, k), b.p + k, m.size() - k) != r)
                o.fail("strmcrc8 chaining at split " + std::to_string(k));
        // residue: message followed by its own CRC gives 0
        bytes mr = m;
        mr.push_back(r);
        exact_buf br(mr);
        if (strm((uint8_t)seed, br.p, mr.size()) != 0)
            o.fail("strmcrc8 residue != 0");
    }
    else if (op == "crc8" || op == "crc8t")
    {
        uint8_t r1 = igris_crc8(b.p, (uint8_t)m.size(), (uint8_t)seed);
        uint8_t r2 = igris_crc8_table(b.p, (uint8_t)m.size(), (uint8_t)seed);
        o.result = hexn(op == "crc8" ? r1 : r2, 2);
        if (r1 != r2)
            o.fail("crc8 " + hexn(r1, 2) + " != crc8_table " + hexn(r2, 2));
        uint32_t ref = ref_lsb(0x8C, seed, m);
        if (ref != r1)
            o.fail("crc8 != Dallas reference " + hexn(ref, 2));
        for (size_t k = 0; k <= m.size(); k++)
        {
            if (igris_crc8(b.p + k, (uint8_t)(m.size() - k), igris_crc8(b.p, (uint8_t)k, (uint8_t)seed)) != r1)
                o.fail("crc8 chaining at split " + std::to_string(k));
            if (igris_crc8_table(b.p + k, (uint8_t)(m.size() - k), igris_crc8_table(b.p, (uint8_t)k, (uint8_t)seed)) != r2)
                o.fail("crc8_table chaining at split " + std::to_string(k));
        }
    }
    else if (op == "crc16")
    {
        uint16_t r = igris_crc16(b.p, (uint16_t)m.size(), (uint16_t)seed);
        o.result = hexn(r, 4);
        uint32_t ref = ref_msb(16, 0x1021, seed, m);
        if (ref != r)
            o.fail("crc16 != CCITT reference " + hexn(ref, 4));
        for (size_t k = 0; k <= m.size(); k += (k + split_step(m.size()) > m.size() && k < m.size()) ? m.size() - k : split_step(m.size()))
            if (igris_crc16(b.p + k, (uint16_t)(m.size() - k), igris_crc16(b.p, (uint16_t)k, (uint16_t)seed)) != r)
                o.fail("crc16 chaining at split " + std::to_string(k));
    }
    else if (op == "crc32")
    {
        if (m.size() % 4) o.tag("crc32tail");
        uint32_t r = igris_crc32(b.p, (uint32_t)m.size(), seed);
        o.result = hexn(r, 8);
        uint32_t ref = ref_msb(32, 0x04C11DB7, seed, crc32_bitorder(m));
        if (ref != r)
            o.fail("crc32 != reference " + hexn(ref, 8));
        // chaining at word boundaries (other split points: known finding, see crc32chain)
        for (size_t k = 0; k <= m.size(); k += 4 * split_step(m.size()))
            if (igris_crc32(b.p + k, (uint32_t)(m.size() - k), igris_crc32(b.p, (uint32_t)k, seed)) != r)
                o.fail("crc32 chaining at split " + std::to_string(k));
    }
    else if (op == "crc32chain")
    {
        // crc32chain <seed> <hex> <align> <split>: chaining at one given split point
        size_t k = strtoul(w[4].c_str(), 0, 10);
        uint32_t r = igris_crc32(b.p, (uint32_t)m.size(), seed);
        uint32_t c = igris_crc32(b.p + k, (uint32_t)(m.size() - k), igris_crc32(b.p, (uint32_t)k, seed));
        o.result = hexn(r, 8) + " " + hexn(c, 8);
        if (r != c)
            o.fail("crc32 chaining at split " + std::to_string(k) + " of " + std::to_string(m.size()));
        if (k % 4) o.tag("split%4!=0");
    }
    else
        o.result = "bad-op";
}

// ---------------------------------------------------------------- gen
static std::string rnd_hex(rng &r, size_t n)
{
    static const std::vector<uint8_t> special = {0x00, 0x01, 0x7f, 0x80, 0xff, 0xac, 0xad, 0xae, 0x31, 0x8c};
    bytes m(n);
    int mode = (int)r.below(4);
    for (auto &x : m)
        x = mode == 0 ? r.pick(special) : (uint8_t)r.next();
    return hex(m);
}

static void gen(rng &r, const std::string &tier)
{
    bool th = tier == "thorough";
    puts("tbl8");
    puts("check");
    // explicit length argument: 0 (nothing mapped / something mapped), a prefix of the mapped bytes, the maximum of the type
    for (const char *rt : {"crc8", "crc8t", "crc16", "mmc7", "crc32"})
    {
        printf("len %s 0 %x -\n", rt, (unsigned)r.below(256));
        for (int i = 0; i < (th ? 400 : 60); i++)
        {
            size_t mapped = (size_t)r.range(0, i % 4 == 0 ? 300 : 24);
            size_t n = (size_t)r.range(0, (int64_t)mapped);
            if (i % 5 == 0) n = 0;
            if (i % 7 == 0) n = mapped;
            bool narrow = std::string(rt) != "crc16" && std::string(rt) != "crc32";
            if (narrow && n > 255) n = 255;
            printf("len %s %zu %x %s\n", rt, n, (unsigned)(std::string(rt) == "crc32" ? r.next() & 0xffffffffu : std::string(rt) == "crc16" ? r.below(65536) : r.below(256)), rnd_hex(r, mapped).c_str());
        }
        bool narrow = std::string(rt) != "crc16" && std::string(rt) != "crc32";
        if (narrow)
        {
            printf("len %s 255 %x %s\n", rt, (unsigned)r.below(256), rnd_hex(r, 255).c_str());
            printf("len %s 255 %x %s\n", rt, (unsigned)r.below(256), rnd_hex(r, 256).c_str());
            printf("len %s 255 %x %s\n", rt, (unsigned)r.below(256), rnd_hex(r, 300).c_str());
        }
    }
    printf("len crc16 65535 %x %s\n", (unsigned)r.below(65536), rnd_hex(r, 65535).c_str());
    printf("len crc16 65535 %x %s\n", (unsigned)r.below(65536), rnd_hex(r, 65540).c_str());
    // (1) all (seed, byte) pairs for the 8-bit routines
    for (unsigned s = 0; s < 256; s++)
        for (unsigned b = 0; b < 256; b++)
        {
            // the three routines on every pair would be 196k lines; rotate
            // them in the quick tier (every pair is still seen by one routine
            // and, through the oracle, crc8 and crc8_table are always both run)
            const char *ops[3] = {"strm", "crc8", "crc8t"};
            for (int k = 0; k < 3; k++)
                if (th || (int)((s + b) % 3) == k)
                    printf("%s %02x %02x\n", ops[k], s, b);
        }
    // (2) all messages up to length 4 over {00,01,80,ff}
    const uint8_t al[4] = {0x00, 0x01, 0x80, 0xff};
    for (int len = 0; len <= 4; len++)
    {
        int total = 1;
        for (int i = 0; i < len; i++) total *= 4;
        for (int code = 0; code < total; code++)
        {
            bytes m;
            for (int i = 0, c = code; i < len; i++, c /= 4) m.push_back(al[c % 4]);
            std::string h = hex(m);
            for (unsigned s : {0x00u, 0xffu})
            {
                printf("strm %02x %s\ncrc8 %02x %s\ncrc8t %02x %s\n", s, h.c_str(), s, h.c_str(), s, h.c_str());
                printf("crc16 %04x %s\n", s * 0x101, h.c_str());
                printf("crc32 %08x %s 0\n", s * 0x1010101, h.c_str());
            }
            printf("mmc7 %s\n", h.c_str());
        }
    }
    // (3) random messages of every length 0..255 at all 8 alignments
    int reps = th ? 12 : 1;
    for (int rep = 0; rep < reps; rep++)
        for (int len = 0; len <= 255; len++)
        {
            unsigned al8 = (unsigned)((len + rep) % 8);
            std::string h = rnd_hex(r, len);
            printf("strm %02x %s %u\n", (unsigned)r.below(256), h.c_str(), al8);
            printf("crc8 %02x %s %u\n", (unsigned)r.below(256), h.c_str(), al8);
            printf("crc8t %02x %s %u\n", (unsigned)r.below(256), h.c_str(), al8);
            printf("crc16 %04x %s %u\n", (unsigned)r.below(65536), h.c_str(), al8);
            printf("mmc7 %s\n", h.c_str());
            for (unsigned a = 0; a < 8; a++)
                if (th || a == al8 || len < 24)
                    printf("crc32 %08x %s %u\n", (unsigned)r.next(), rnd_hex(r, len).c_str(), a);
        }
    // (3b) long messages (length fields wider than a byte: crc16 takes uint16_t, crc32 uint32_t)
    for (int len : {256, 257, 511, 1000, 4099, 65535, 65536, 70001})
    {
        std::string h = rnd_hex(r, len);
        if (len <= 65535) printf("crc16 %04x %s %u\n", (unsigned)r.below(65536), h.c_str(), (unsigned)r.below(8));
        printf("crc32 %08x %s %u\n", (unsigned)r.next(), h.c_str(), (unsigned)r.below(8));
    }
    // (4) known finding C17-crc32-split: chaining at split points not divisible by 4
    for (int i = 0; i < 40; i++)
    {
        int len = (int)r.range(2, 40);
        int k = (int)r.range(1, len - 1);
        if (k % 4 == 0) k++;
        if (k >= len) k = len - 1;
        if (k % 4 == 0) continue;
        printf("@F:C17-crc32-split crc32chain %08x %s 0 %d\n", (unsigned)r.next(), rnd_hex(r, len).c_str(), k);
    }
    // and the same op on word boundaries (must hold)
    for (int i = 0; i < 200; i++)
    {
        int len = (int)r.range(0, 60);
        int k = 4 * (int)r.range(0, len / 4);
        printf("crc32chain %08x %s %u %d\n", (unsigned)r.next(), rnd_hex(r, len).c_str(), 4 * (unsigned)r.below(2), k);
    }
}

int main(int argc, char **argv) { return main_(argc, argv, gen, run_op); }
