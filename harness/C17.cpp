// C17 harness: igris/util/crc.{h,c} against the Lean model (IgrisModel/C17).
#include "common/hv.h"
// PUBLIC API only (round 3b): crc.c is compiled as C and linked (checks/C17.json "repo_sources"); nothing that is
// file-static in crc.c is named here - tables are read out behaviourally (ops tbl8, tbl32)
#include <igris/util/crc.h>

#include <sys/mman.h>
#include <sys/wait.h>
#include <fcntl.h>
#include <sanitizer/asan_interface.h>
#include <type_traits>
#include <linux/perf_event.h>
#include <linux/hw_breakpoint.h>
#include <sys/syscall.h>

using namespace hv;
typedef std::vector<uint8_t> bytes;

// ---------------------------------------------------------------- round 3 helpers
// widths of the length / seed / result types, read out of the prototypes the build sees.  Round 3b: the property
// does not fix the C types, only that every length / seed / value of the documented width can be passed and
// returned: the COMPARED result says for every slot "not narrower than the model's width" (`>=k`, or `<k:actual`),
// the actual sizeof goes into a TAG (a widened parameter is harmless and must not alarm).
static std::string ge(size_t actual, size_t model) { return actual >= model ? ">=" + std::to_string(model) : "<" + std::to_string(model) + ":" + std::to_string(actual); }
template <class R, class A, class B, class C> static std::string sz3(R (*)(A, B, C), size_t m, std::string &tag)
{
    tag = std::to_string(sizeof(B)) + "." + std::to_string(sizeof(C)) + "." + std::to_string(sizeof(R));
    return ge(sizeof(B), m) + " " + ge(sizeof(C), m) + " " + ge(sizeof(R), m);
}
template <class R, class A, class B> static std::string sz2(R (*)(A, B), size_t m, std::string &tag)
{
    tag = std::to_string(sizeof(B)) + "." + std::to_string(sizeof(R));
    return ge(sizeof(B), m) + " " + ge(sizeof(R), m);
}
template <class A, class B> static std::string szs(void (*)(A, B), size_t m, std::string &tag)
{
    tag = std::to_string(sizeof(typename std::remove_pointer<A>::type)) + "." + std::to_string(sizeof(B));
    return ge(sizeof(typename std::remove_pointer<A>::type), m) + " " + ge(sizeof(B), m);
}
// hardware watchpoint (x86 debug register through perf_event_open) on ONE byte: counts every load / store of the
// calling thread that overlaps it, at any alignment - the byte-exact left (and right) neighbour of a buffer where
// ASan's 8-byte granules cannot express a poisoned prefix.  Optional: when the kernel refuses, fd < 0 and the
// caller reports the tag no-hw-watch.
struct hw_watch
{
    int fd;
    explicit hw_watch(const void *addr)
    {
        struct perf_event_attr a;
        memset(&a, 0, sizeof a);
        a.type = PERF_TYPE_BREAKPOINT;
        a.size = sizeof a;
        a.bp_type = HW_BREAKPOINT_RW;
        a.bp_addr = (uintptr_t)addr;
        a.bp_len = HW_BREAKPOINT_LEN_1;
        a.exclude_kernel = 1;
        a.exclude_hv = 1;
        fd = (int)syscall(SYS_perf_event_open, &a, 0, -1, -1, 0);
    }
    uint64_t hits()
    {
        uint64_t c = 0;
        if (fd < 0 || read(fd, &c, 8) != 8) return 0;
        return c;
    }
    ~hw_watch()
    {
        if (fd >= 0) close(fd);
    }
    hw_watch(const hw_watch &) = delete;
};
template <class R, class A, class B, class C> static uint64_t lenmask(R (*)(A, B, C)) { return sizeof(B) >= 8 ? ~0ull : ((1ull << (8 * sizeof(B))) - 1); }
template <class R, class A, class B> static uint64_t lenmask(R (*)(A, B)) { return sizeof(B) >= 8 ? ~0ull : ((1ull << (8 * sizeof(B))) - 1); }

// the message generator shared with the Lean driver: 32-bit LCG, top byte (mode 1: one constant byte)
static bytes gen_data(size_t n, uint32_t gseed, int mode)
{
    bytes m(n);
    if (mode == 1)
    {
        if (n) memset(m.data(), (uint8_t)gseed, n);
        return m;
    }
    uint32_t x = gseed;
    for (size_t i = 0; i < n; i++)
    {
        x = x * 1664525u + 1013904223u;
        m[i] = (uint8_t)(x >> 24);
    }
    return m;
}

// heap copy with red zones on BOTH sides: the payload ends at the end of the allocation (ASan's right red
// zone, byte exact) and is preceded by `align` bytes of padding in front of which one whole 8-byte granule is
// poisoned by hand (ASan cannot poison the front part of a granule whose rest is addressable: with align == 0
// the payload starts at the start of the allocation and the left red zone is byte exact, otherwise an
// under-read is seen once it reaches more than `align` bytes back).
struct rz_buf
{
    uint8_t *base, *p;
    size_t n, pad;
    rz_buf(const bytes &v, size_t align) : n(v.size()), pad(align ? 8 + align : 0)
    {
        base = (uint8_t *)malloc(pad + n ? pad + n : 1);
        p = base + pad;
        if (n) memcpy(p, v.data(), n);
        if (pad) ASAN_POISON_MEMORY_REGION(base, 8);
    }
    ~rz_buf()
    {
        if (pad) ASAN_UNPOISON_MEMORY_REGION(base, 8);
        free(base);
    }
    rz_buf(const rz_buf &) = delete;
};

// three pages NONE | data | NONE: the payload is placed flush with the end (or the start) of the middle page,
// which is then made READ-ONLY: a store, a read behind the end or in front of the start is a SIGSEGV
struct guard_pages
{
    uint8_t *reg;
    size_t pg;
    guard_pages()
    {
        pg = (size_t)sysconf(_SC_PAGESIZE);
        reg = (uint8_t *)mmap(0, 3 * pg, PROT_NONE, MAP_PRIVATE | MAP_ANONYMOUS, -1, 0);
    }
    const uint8_t *place(const bytes &v, bool at_end)
    {
        uint8_t *mid = reg + pg;
        mprotect(mid, pg, PROT_READ | PROT_WRITE);
        uint8_t *q = at_end ? mid + pg - v.size() : mid;
        if (v.size()) memcpy(q, v.data(), v.size());
        mprotect(mid, pg, PROT_READ);
        return q;
    }
};

// a few calls made BEFORE main() (static initialisation order: the routines must not depend on anything that
// is initialised dynamically)
struct PreMain
{
    char text[96];
    PreMain()
    {
        // only in `run` mode (a defect of the library must not take the generator down): argv[1] from /proc
        text[0] = 0;
        char cmd[512];
        FILE *f = fopen("/proc/self/cmdline", "rb");
        size_t k = f ? fread(cmd, 1, sizeof cmd - 1, f) : 0;
        if (f) fclose(f);
        cmd[k] = 0;
        size_t a0 = strlen(cmd);
        if (a0 + 1 >= k || strcmp(cmd + a0 + 1, "run") != 0) return;
        // in a forked child, so that a fault before main() is reported by the op `premain` and by nothing else
        int fd[2];
        if (pipe(fd) != 0) return;
        pid_t pid = fork();
        if (pid == 0)
        {
            close(fd[0]);
            int dn = open("/dev/null", O_WRONLY); // the sanitizer report of the child is not an op's report
            if (dn >= 0) dup2(dn, 2);
            compute();
            (void)!write(fd[1], text, strlen(text));
            _exit(0);
        }
        close(fd[1]);
        ssize_t got = pid > 0 ? read(fd[0], text, sizeof text - 1) : -1;
        close(fd[0]);
        int st = 0;
        if (pid > 0) waitpid(pid, &st, 0);
        if (got <= 0 || !WIFEXITED(st) || WEXITSTATUS(st) != 0)
            snprintf(text, sizeof text, "fault-before-main");
        else
            text[got] = 0;
    }
    void compute()
    {
        uint8_t *m9 = (uint8_t *)malloc(9), *z4 = (uint8_t *)malloc(4);
        memcpy(m9, "123456789", 9);
        memset(z4, 0, 4);
        uint8_t sm = 0xff;
        for (int i = 0; i < 9; i++) igris_strmcrc8(&sm, (char)m9[i]);
        snprintf(text, sizeof text, "%02x %02x %04x %02x %08x %02x", igris_crc8_table(m9, 9, 0), igris_crc8(m9, 9, 0), igris_crc16(m9, 9, 0),
                 igris_mmc_crc7(m9, 9), igris_crc32(z4, 4, 0xffffffffu), sm);
        free(m9);
        free(z4);
    }
};
__attribute__((init_priority(101))) static PreMain premain_obj;

// ---------------------------------------------------------------- references
// Independent bit-at-a-time definitions ("Rocksoft" parameterisation).
static uint32_t ref_msb(unsigned width, uint32_t poly, uint32_t reg, const bytes &msg)
{
    uint32_t top = 1u << (width - 1), mask = width == 32 ? 0xFFFFFFFFu : ((1u << width) - 1);
    for (uint8_t b : msg)
        for (int i = 7; i >= 0; i--)
        {
            bool bit = (b >> i) & 1;
            bool msb = reg & top;
            reg = (reg << 1) & mask;
            if (msb != bit)
                reg ^= poly;
        }
    return reg & mask;
}
static uint32_t ref_lsb(uint32_t polyrev, uint32_t reg, const bytes &msg)
{
    for (uint8_t b : msg)
        for (int i = 0; i < 8; i++)
        {
            bool bit = (b >> i) & 1;
            bool lsb = reg & 1;
            reg >>= 1;
            if (lsb != bit)
                reg ^= polyrev;
        }
    return reg;
}
// CRC-32 as igris defines it: the message is consumed in little-endian 32-bit
// words, most significant bit first, the tail zero-extended to a word.
static bytes crc32_bitorder(const bytes &m)
{
    bytes r;
    size_t i = 0;
    for (; i + 4 <= m.size(); i += 4)
        for (int k = 3; k >= 0; k--)
            r.push_back(m[i + k]);
    if (i < m.size())
    {
        uint8_t w[4] = {0, 0, 0, 0};
        for (size_t k = 0; i + k < m.size(); k++)
            w[k] = m[i + k];
        for (int k = 3; k >= 0; k--)
            r.push_back(w[k]);
    }
    return r;
}

static bytes sub(const bytes &m, size_t a, size_t b) { return bytes(m.begin() + a, m.begin() + b); }
// every split point for short messages, ~64 evenly spread ones (plus both ends) for long ones
static size_t split_step(size_t n) { return n <= 512 ? 1 : n / 64; }

// ---------------------------------------------------------------- run
static uint8_t strm(uint8_t seed, const uint8_t *p, size_t n)
{
    uint8_t c = seed;
    for (size_t i = 0; i < n; i++)
        igris_strmcrc8(&c, (char)p[i]);
    return c;
}

static uint32_t call_rt(const std::string &rt, const uint8_t *p, uint64_t n, uint32_t seed)
{
    // `n` is converted to the parameter's type by the call itself
    if (rt == "crc8") return igris_crc8(p, n, seed);
    if (rt == "crc8t") return igris_crc8_table(p, n, seed);
    if (rt == "crc16") return igris_crc16(p, n, seed);
    if (rt == "mmc7") return igris_mmc_crc7(p, n);
    return igris_crc32(p, n, seed);
}
static uint32_t ref_rt(const std::string &rt, uint32_t seed, const bytes &m)
{
    if (rt == "strm") return ref_msb(8, 0x31, seed & 0xff, m);
    if (rt == "crc8" || rt == "crc8t") return ref_lsb(0x8C, seed & 0xff, m);
    if (rt == "crc16") return ref_msb(16, 0x1021, seed & 0xffff, m);
    if (rt == "mmc7") return ref_msb(7, 0x09, 0, m);
    return ref_msb(32, 0x04C11DB7, seed, crc32_bitorder(m));
}
static int digits_rt(const std::string &rt) { return rt == "crc32" ? 8 : rt == "crc16" ? 4 : 2; }
// the width of the length parameter the MODEL embeds (the documented C type)
static uint64_t model_mask_rt(const std::string &rt) { return rt == "crc32" ? 0xffffffffull : rt == "crc16" ? 0xffffull : 0xffull; }
// watched call: hardware watchpoints on the byte in front of data and on the byte data[len] (byte exact at EVERY
// alignment; inside a longer mapped buffer data[len] is readable memory that ASan cannot object to)
static bool hw_missing = false;
static uint32_t call_rt(const std::string &rt, const uint8_t *p, uint64_t n, uint32_t seed);
static uint32_t watched_call(const std::string &rt, const uint8_t *p, uint64_t n, uint32_t seed, out &o)
{
    hw_watch left(p - 1), right(p + n);
    uint32_t r = call_rt(rt, p, n, seed);
    uint64_t hl = left.hits(), hr = right.hits();
    if (left.fd < 0 || right.fd < 0)
        hw_missing = true, o.tag("no-hw-watch");
    else
        o.tag("hw-watch");
    if (hl) o.fail(rt + " touched the byte in front of data (hardware watchpoint at data-1, " + std::to_string(hl) + " access(es))");
    if (hr) o.fail(rt + " touched data[len] (hardware watchpoint at data+" + std::to_string(n) + ", " + std::to_string(hr) + " access(es))");
    return r;
}
static uint64_t mask_rt(const std::string &rt)
{
    if (rt == "crc8") return lenmask(igris_crc8);
    if (rt == "crc8t") return lenmask(igris_crc8_table);
    if (rt == "crc16") return lenmask(igris_crc16);
    if (rt == "mmc7") return lenmask(igris_mmc_crc7);
    return lenmask(igris_crc32);
}

static bool run_round3(const std::vector<std::string> &w, out &o)
{
    const std::string &op = w[0];
    if (op == "tbl32")
    {
        // crcTable is a function-local static: entry k = igris_crc32 of the little-endian word k from seed 0
        // (seven shifts move the nibble k to the top, the eighth step returns crcTable[k]; Lean: crc32Table_readout)
        std::string r;
        for (unsigned k = 0; k < 16; k++)
        {
            bytes wd = {(uint8_t)k, 0, 0, 0};
            exact_buf b(wd);
            r += (k ? " " : "") + hexn(igris_crc32(b.p, 4, 0), 8);
        }
        o.result = r;
        o.tag("tbl32");
        return true;
    }
    if (op == "sizes")
    {
        // compared: every width is at least the model's; tags: the actual sizeof (sizes of internal tables are not
        // looked at at all)
        std::string t[6];
        o.result = "crc8 " + sz3(igris_crc8, 1, t[0]) + "|crc8t " + sz3(igris_crc8_table, 1, t[1]) + "|crc16 " + sz3(igris_crc16, 2, t[2]) + "|mmc7 " +
                   sz2(igris_mmc_crc7, 1, t[3]) + "|crc32 " + sz3(igris_crc32, 4, t[4]) + "|strm " + szs(igris_strmcrc8, 1, t[5]);
        o.tag("sizes");
        const char *nm[6] = {"crc8", "crc8t", "crc16", "mmc7", "crc32", "strm"};
        for (int i = 0; i < 6; i++) o.tag(("w:" + std::string(nm[i]) + "=" + t[i]).c_str());
        if (o.result.find('<') != std::string::npos) o.fail("a length / seed / result type is narrower than documented: " + o.result);
        return true;
    }
    if (op == "premain")
    {
        o.result = premain_obj.text;
        if (o.result != "a1 a1 31c3 75 c704dd7b f7") o.fail("catalogue check values computed before main() are wrong: " + o.result);
        o.tag("premain");
        return true;
    }
    if (op == "strmobj")
    {
        // ONE crc object (an exactly sized 1-byte heap cell) used for several messages: i:<v> (re-)initialises it,
        // f:<hex> feeds bytes one at a time; the value after every token is reported
        exact_buf cell(bytes(1, 0));
        uint32_t ref = 0;
        std::string r;
        bool reinit = false, cont = false, watched = false;
        for (size_t k = 1; k < w.size(); k++)
        {
            const std::string &t = w[k];
            if (t[0] == 'i')
            {
                *cell.p = (uint8_t)strtoul(t.c_str() + 2, 0, 16);
                ref = *cell.p;
                reinit = true;
            }
            else
            {
                bytes m = unhex(t.substr(2));
                exact_buf b(m);
                {
                    // the routine owns exactly the ONE byte *crc: both neighbours watched (the left one lies in front of the
                    // allocation, where ASan is granule-exact only)
                    hw_watch wl(cell.p - 1), wr(cell.p + 1);
                    for (size_t i = 0; i < m.size(); i++) igris_strmcrc8(cell.p, (char)b.p[i]);
                    if (wl.hits() || wr.hits()) o.fail("strmcrc8 touched a neighbour of the one-byte crc object (hardware watchpoint)");
                    if (wl.fd >= 0 && wr.fd >= 0) watched = true;
                }
                ref = ref_msb(8, 0x31, ref, m); // continuation of whatever the object held
                if (k > 1 && w[k - 1][0] == 'f') cont = true;
            }
            r += (k > 1 ? " " : "") + hexn(*cell.p, 2);
            if (*cell.p != ref) o.fail("strmcrc8 object after token " + std::to_string(k) + " != reference over the bytes fed since the last init");
        }
        o.result = r;
        o.tag("strmobj");
        if (watched) o.tag("hw-watch");
        if (reinit) o.tag("strm-reinit");
        if (cont) o.tag("strm-no-reinit");
        return true;
    }
    if (op == "acc")
    {
        // acc <routine> <len> <seed> <bytes> <align>: exactly the len bytes exist, red zones on both sides,
        // then the same bytes on a read-only page flush with its end and flush with its start
        static guard_pages gp;
        const std::string &rt = w[1];
        size_t n = strtoul(w[2].c_str(), 0, 10);
        uint32_t seed = (uint32_t)strtoul(w[3].c_str(), 0, 16);
        bytes m = unhex(w[4]);
        size_t align = w.size() > 5 ? strtoul(w[5].c_str(), 0, 10) : 0;
        rz_buf b(m, align);
        uint32_t r = n <= m.size() ? watched_call(rt, b.p, n, seed, o) : call_rt(rt, b.p, n, seed);
        bool wrote = m.size() && memcmp(b.p, m.data(), m.size()) != 0;
        bool recall = false;
        if (n >= 1 && n <= m.size())
        {
            // the SAME object again, immediately, with changed contents (same address, length and seed) and
            // then with the old contents restored: nothing may be remembered between calls
            bytes m2 = m;
            m2[(seed ^ n) % n] ^= (uint8_t)(1u << (seed % 8));
            memcpy(b.p, m2.data(), m2.size());
            if (call_rt(rt, b.p, n, seed) != ref_rt(rt, seed, bytes(m2.begin(), m2.begin() + n)))
                o.fail(rt + ": second call on the same buffer after its contents changed != reference");
            memcpy(b.p, m.data(), m.size());
            if (call_rt(rt, b.p, n, seed) != r)
                o.fail(rt + ": third call on the same buffer with the first contents restored != first result");
            recall = true;
        }
        wrote = wrote || (m.size() && memcmp(b.p, m.data(), m.size()) != 0);
        if (align)
        {
            // the `align` addressable padding bytes in front of data are not an input either
            for (size_t k = 1; k <= align; k++) b.p[-(ptrdiff_t)k] ^= 0xff;
            if (call_rt(rt, b.p, n, seed) != r) o.fail(rt + ": the result depends on bytes in front of data");
        }
        uint32_t r2 = call_rt(rt, gp.place(m, true), n, seed);
        uint32_t r3 = call_rt(rt, gp.place(m, false), n, seed);
        o.result = hexn(r, digits_rt(rt)) + " r[0," + std::to_string(n) + ") " + (wrote ? "w!" : "w-");
        if (wrote) o.fail(rt + " modified its input buffer");
        if (r2 != r || r3 != r) o.fail(rt + ": the result depends on where the buffer lies");
        bytes pre(m.begin(), m.begin() + (n < m.size() ? n : m.size()));
        if (r != ref_rt(rt, seed, pre)) o.fail(rt + " != reference over the first len bytes");
        o.tag(("acc-" + rt).c_str());
        if (recall) o.tag("acc-recall");
        if (align) o.tag("acc-misaligned");
        if (n == 0) o.tag("acc-len0");
        return true;
    }
    if (op == "trunc")
    {
        // trunc <routine> <n> <seed> <gseed>: n (up to 2^33) is converted to the length parameter's type by the
        // call; exactly (n mod 2^width) bytes exist, so a wider parameter than the model's would over-read
        const std::string &rt = w[1];
        uint64_t n = strtoull(w[2].c_str(), 0, 10);
        uint32_t seed = (uint32_t)strtoul(w[3].c_str(), 0, 16);
        uint32_t gs = (uint32_t)strtoul(w[4].c_str(), 0, 10);
        // round 3b: when the build's parameter is WIDER than the documented type (harmless) the conversion is done
        // here, so that the op degrades to "every length of the documented type works" (tag len-widened)
        uint64_t eff = n & model_mask_rt(rt);
        bool widened = (mask_rt(rt) & ~model_mask_rt(rt)) != 0;
        if (!widened) eff = n & mask_rt(rt);
        bytes m = gen_data((size_t)eff, gs, 0);
        exact_buf b(m);
        uint32_t r = call_rt(rt, b.p, widened ? eff : n, seed);
        o.result = hexn(r, digits_rt(rt));
        if (r != ref_rt(rt, seed, m)) o.fail(rt + " with length " + std::to_string(n) + " != reference over (length mod 2^width) bytes");
        o.tag(("trunc-" + rt).c_str());
        if (widened) o.tag("len-widened");
        return true;
    }
    if (op == "big")
    {
        // big <routine> <n> <seed> <gseed> <mode> <align> <chunk>: generated message of n bytes fed in calls of at
        // most <chunk> bytes with the running value as seed (0 = one call)
        const std::string &rt = w[1];
        size_t n = strtoul(w[2].c_str(), 0, 10);
        uint32_t seed = (uint32_t)strtoul(w[3].c_str(), 0, 16);
        uint32_t gs = (uint32_t)strtoul(w[4].c_str(), 0, 10);
        int mode = atoi(w[5].c_str());
        size_t align = strtoul(w[6].c_str(), 0, 10), chunk = strtoul(w[7].c_str(), 0, 10);
        bytes m = gen_data(n, gs, mode);
        exact_buf b(m, align);
        uint32_t r = seed;
        size_t calls = 0;
        if (rt == "strm")
            r = strm((uint8_t)seed, b.p, n), calls = n;
        else if (rt == "mmc7")
            r = igris_mmc_crc7(b.p, (uint8_t)n), calls = 1;
        else if (n == 0)
            r = call_rt(rt, b.p, 0, seed), calls = 1;
        else
            for (size_t off = 0; off < n; calls++)
            {
                size_t l = chunk && chunk < n - off ? chunk : n - off;
                r = call_rt(rt, b.p + off, l, r);
                off += l;
            }
        o.result = hexn(r, digits_rt(rt));
        uint32_t ref = ref_rt(rt, seed, m);
        if (r != ref) o.fail(rt + " of " + std::to_string(n) + " bytes in " + std::to_string(calls) + " call(s) != reference " + hexn(ref, digits_rt(rt)));
        if (rt == "strm")
        {
            // residue: the message followed by its own CRC leaves 0 in the object
            uint8_t c = (uint8_t)r;
            igris_strmcrc8(&c, (char)r);
            if (c != 0) o.fail("strmcrc8 residue != 0 after " + std::to_string(n) + " bytes");
        }
        // two-piece chaining at split points around the counter-width boundaries
        static const size_t cuts[] = {252, 256, 260, 65532, 65536, 65540, 262140, 262144, 262148, 524288};
        if (rt == "crc32" || rt == "crc16" || rt == "strm")
            for (size_t k : cuts)
            {
                if (k > n) break;
                size_t k2 = rt == "crc32" ? k : k - 1 + (k / 4) % 3; // 255/256/257 … for the byte-wise routines
                if (k2 > n) continue;
                if (rt == "crc16" && (k2 > 65535 || n - k2 > 65535)) continue;
                uint32_t c = rt == "strm" ? strm(strm((uint8_t)seed, b.p, k2), b.p + k2, n - k2)
                                          : call_rt(rt, b.p + k2, n - k2, call_rt(rt, b.p, k2, seed));
                if (c != ref) o.fail(rt + " chaining at split " + std::to_string(k2) + " of " + std::to_string(n));
            }
        o.tag(("big-" + rt).c_str());
        if (n >= 262144) o.tag("len>=2^18");
        if (n >= 300 * 1024) o.tag("len>=300KiB");
        if (n >= 1048576) o.tag("len>=1MiB");
        if (calls > 1 && rt != "strm") o.tag("chunked");
        return true;
    }
    return false;
}

static void run_op(const std::vector<std::string> &w, const std::string &, out &o)
{
    const std::string &op = w[0];
    if (run_round3(w, o)) return;
    if (op == "tbl8")
    {
        // round 3b: the 2x16 nibble table the compiled routine EFFECTIVELY uses, read out behaviourally: row i of the
        // low half = igris_crc8_table of the one-byte message i from seed 0, row i of the high half = of the byte
        // 16*i (Lean: tbl8_readout).  Survives any re-arrangement of the static table (split, merged to 256 entries,
        // computed); the file-static array is not named.
        bytes t(32);
        for (unsigned i = 0; i < 16; i++)
        {
            exact_buf lo(bytes(1, (uint8_t)i)), hi(bytes(1, (uint8_t)(i << 4)));
            t[i] = igris_crc8_table(lo.p, 1, 0);
            t[16 + i] = igris_crc8_table(hi.p, 1, 0);
        }
        o.result = hex(t);
        // the whole implied byte table: every byte, every seed nibble-decomposes over these rows and equals the reference
        for (unsigned v = 0; v < 256; v++)
        {
            exact_buf one(bytes(1, (uint8_t)v));
            uint8_t f = igris_crc8_table(one.p, 1, 0);
            if (f != (uint8_t)(t[v & 15] ^ t[16 + (v >> 4)]) || f != ref_lsb(0x8C, 0, bytes(1, (uint8_t)v)))
                o.fail("crc8_table of the one-byte message " + hexn(v, 2) + " is not the Dallas table entry");
        }
        o.tag("tbl8");
        return;
    }
    if (op == "reset")
    {
        o.result = "ok";
        return;
    }
    if (op == "check")
    {
        // catalogue check values of "123456789" (reveng CRC catalogue) and two STM32 CRC-unit values
        static const uint8_t m9[9] = {'1', '2', '3', '4', '5', '6', '7', '8', '9'};
        exact_buf b(bytes(m9, m9 + 9));
        uint8_t c8 = igris_crc8(b.p, 9, 0), c8t = igris_crc8_table(b.p, 9, 0), c7 = igris_mmc_crc7(b.p, 9);
        uint8_t sm = strm(0xff, b.p, 9);
        uint16_t x = igris_crc16(b.p, 9, 0), f = igris_crc16(b.p, 9, 0xffff), a = igris_crc16(b.p, 9, 0x1d0f);
        static const uint8_t z4[4] = {0, 0, 0, 0};
        exact_buf bz(bytes(z4, z4 + 4));
        uint32_t w0 = igris_crc32(bz.p, 4, 0xffffffffu);
        // CRC-32/MPEG-2 of "12345678" fed as byte-swapped words
        static const uint8_t sw[8] = {'4', '3', '2', '1', '8', '7', '6', '5'};
        exact_buf bs(bytes(sw, sw + 8));
        uint32_t mp = igris_crc32(bs.p, 8, 0xffffffffu);
        bytes m8(m9, m9 + 8);
        o.result = hexn(c8, 2) + " " + hexn(c8t, 2) + " " + hexn(c7, 2) + " " + hexn(sm, 2) + " " + hexn(x, 4) + " " + hexn(f, 4) + " " + hexn(a, 4) + " " + hexn(w0, 8) + " " + hexn(mp, 8);
        if (c8 != 0xA1 || c8t != 0xA1) o.fail("CRC-8/MAXIM-DOW check value is 0xA1");
        if (c7 != 0x75) o.fail("CRC-7/MMC check value is 0x75");
        if (sm != 0xF7) o.fail("CRC-8/NRSC-5 (poly 0x31, init 0xFF) check value is 0xF7");
        if (x != 0x31C3) o.fail("CRC-16/XMODEM check value is 0x31C3");
        if (f != 0x29B1) o.fail("CRC-16/IBM-3740 (CCITT-FALSE) check value is 0x29B1");
        if (a != 0xE5CC) o.fail("CRC-16/SPI-FUJITSU (AUG-CCITT) check value is 0xE5CC");
        if (w0 != 0xC704DD7Bu) o.fail("STM32 CRC unit: one zero word after reset gives 0xC704DD7B");
        if (mp != ref_msb(32, 0x04C11DB7, 0xffffffffu, m8)) o.fail("crc32 of byte-swapped words != CRC-32/MPEG-2 of the message");
        if (ref_msb(32, 0x04C11DB7, 0xffffffffu, bytes(m9, m9 + 9)) != 0x0376E6E7u) o.fail("harness reference: CRC-32/MPEG-2 check value is 0x0376E6E7");
        o.tag("check");
        return;
    }
    if (op == "len")
    {
        // len <routine> <len> <seed> <mapped bytes>: the length argument differs from the mapped size
        const std::string &rt = w[1];
        size_t n = strtoul(w[2].c_str(), 0, 10);
        uint32_t seed = (uint32_t)strtoul(w[3].c_str(), 0, 16);
        bytes m = unhex(w[4]);
        exact_buf b(m);
        bytes pre(m.begin(), m.begin() + (n < m.size() ? n : m.size()));
        uint32_t r = 0, ref = 0;
        int digits = 2;
        auto call = [&](const uint8_t *p) -> uint32_t {
            if (rt == "crc8") return igris_crc8(p, (uint8_t)n, (uint8_t)seed);
            if (rt == "crc8t") return igris_crc8_table(p, (uint8_t)n, (uint8_t)seed);
            if (rt == "crc16") return igris_crc16(p, (uint16_t)n, (uint16_t)seed);
            if (rt == "mmc7") return igris_mmc_crc7(p, (uint8_t)n);
            return igris_crc32(p, (uint32_t)n, seed);
        };
        r = n <= m.size() ? watched_call(rt, b.p, n, seed, o) : call(b.p);
        if (rt == "crc8" || rt == "crc8t") ref = ref_lsb(0x8C, seed, pre);
        else if (rt == "crc16") { ref = ref_msb(16, 0x1021, seed, pre); digits = 4; }
        else if (rt == "mmc7") ref = ref_msb(7, 0x09, 0, pre);
        else { ref = ref_msb(32, 0x04C11DB7, seed, crc32_bitorder(pre)); digits = 8; }
        o.result = hexn(r, digits);
        if (r != ref) o.fail(rt + " with len " + std::to_string(n) + " != reference over the first len bytes");
        // the bytes behind [0,len) are not an input
        bytes m2 = m;
        for (size_t k = n; k < m2.size(); k++) m2[k] ^= 0xff;
        exact_buf b2(m2);
        if (call(b2.p) != r) o.fail(rt + ": the result depends on bytes behind data+len");
        o.tag(("len-" + rt).c_str());
        if (n == 0) o.tag("len0");
        if (n < m.size()) o.tag("prefix");
        if ((n == 255 && rt != "crc16" && rt != "crc32") || (n == 65535 && rt == "crc16")) o.tag("lenmax");
        return;
    }
    if (op == "mmc7")
    {
        bytes m = unhex(w[1]);
        exact_buf b(m);
        uint8_t r = igris_mmc_crc7(b.p, (uint8_t)m.size());
        o.result = hexn(r, 2);
        uint32_t ref = ref_msb(7, 0x09, 0, m);
        if (ref != r)
            o.fail("mmc_crc7 != CRC-7/MMC reference " + hexn(ref, 2));
        if (m.size() > 0) o.tag("mmc7");
        return;
    }
    uint32_t seed = (uint32_t)strtoul(w[1].c_str(), 0, 16);
    bytes m = unhex(w[2]);
    size_t align = w.size() > 3 ? strtoul(w[3].c_str(), 0, 10) : 0;
    exact_buf b(m, align);
    if (m.size() > 0) o.tag(op.c_str());
    if (align % 4) o.tag("misaligned");
    if (op == "strm")
    {
        uint8_t r = strm((uint8_t)seed, b.p, m.size());
        o.result = hexn(r, 2);
        uint32_t ref = ref_msb(8, 0x31, seed, m);
        if (ref != r)
            o.fail("strmcrc8 != reference " + hexn(ref, 2));
        for (size_t k = 0; k <= m.size(); k++)
            if (strm(strm((uint8_t)seed, b.p, k), b.p + k, m.size() - k) != r)
                o.fail("strmcrc8 chaining at split " + std::to_string(k));
        // residue: message followed by its own CRC gives 0
        bytes mr = m;
        mr.push_back(r);
        exact_buf br(mr);
        if (strm((uint8_t)seed, br.p, mr.size()) != 0)
            o.fail("strmcrc8 residue != 0");
    }
    else if (op == "crc8" || op == "crc8t")
    {
        uint8_t r1 = igris_crc8(b.p, (uint8_t)m.size(), (uint8_t)seed);
        uint8_t r2 = igris_crc8_table(b.p, (uint8_t)m.size(), (uint8_t)seed);
        o.result = hexn(op == "crc8" ? r1 : r2, 2);
        if (r1 != r2)
            o.fail("crc8 " + hexn(r1, 2) + " != crc8_table " + hexn(r2, 2));
        uint32_t ref = ref_lsb(0x8C, seed, m);
        if (ref != r1)
            o.fail("crc8 != Dallas reference " + hexn(ref, 2));
        for (size_t k = 0; k <= m.size(); k++)
        {
            if (igris_crc8(b.p + k, (uint8_t)(m.size() - k), igris_crc8(b.p, (uint8_t)k, (uint8_t)seed)) != r1)
                o.fail("crc8 chaining at split " + std::to_string(k));
            if (igris_crc8_table(b.p + k, (uint8_t)(m.size() - k), igris_crc8_table(b.p, (uint8_t)k, (uint8_t)seed)) != r2)
                o.fail("crc8_table chaining at split " + std::to_string(k));
        }
    }
    else if (op == "crc16")
    {
        uint16_t r = igris_crc16(b.p, (uint16_t)m.size(), (uint16_t)seed);
        o.result = hexn(r, 4);
        uint32_t ref = ref_msb(16, 0x1021, seed, m);
        if (ref != r)
            o.fail("crc16 != CCITT reference " + hexn(ref, 4));
        for (size_t k = 0; k <= m.size(); k += (k + split_step(m.size()) > m.size() && k < m.size()) ? m.size() - k : split_step(m.size()))
            if (igris_crc16(b.p + k, (uint16_t)(m.size() - k), igris_crc16(b.p, (uint16_t)k, (uint16_t)seed)) != r)
                o.fail("crc16 chaining at split " + std::to_string(k));
    }
    else if (op == "crc32")
    {
        if (m.size() % 4) o.tag("crc32tail");
        uint32_t r = igris_crc32(b.p, (uint32_t)m.size(), seed);
        o.result = hexn(r, 8);
        uint32_t ref = ref_msb(32, 0x04C11DB7, seed, crc32_bitorder(m));
        if (ref != r)
            o.fail("crc32 != reference " + hexn(ref, 8));
        // chaining at word boundaries (other split points: known finding, see crc32chain)
        for (size_t k = 0; k <= m.size(); k += 4 * split_step(m.size()))
            if (igris_crc32(b.p + k, (uint32_t)(m.size() - k), igris_crc32(b.p, (uint32_t)k, seed)) != r)
                o.fail("crc32 chaining at split " + std::to_string(k));
    }
    else if (op == "crc32chain")
    {
        // crc32chain <seed> <hex> <align> <split>: chaining at one given split point
        size_t k = strtoul(w[4].c_str(), 0, 10);
        uint32_t r = igris_crc32(b.p, (uint32_t)m.size(), seed);
        uint32_t c = igris_crc32(b.p + k, (uint32_t)(m.size() - k), igris_crc32(b.p, (uint32_t)k, seed));
        o.result = hexn(r, 8) + " " + hexn(c, 8);
        if (r != c)
            o.fail("crc32 chaining at split " + std::to_string(k) + " of " + std::to_string(m.size()));
        if (k % 4) o.tag("split%4!=0");
    }
    else
        o.result = "bad-op";
}

// ---------------------------------------------------------------- gen
static std::string rnd_hex(rng &r, size_t n)
{
    static const std::vector<uint8_t> special = {0x00, 0x01, 0x7f, 0x80, 0xff, 0xac, 0xad, 0xae, 0x31, 0x8c};
    bytes m(n);
    int mode = (int)r.below(4);
    for (auto &x : m)
        x = mode == 0 ? r.pick(special) : (uint8_t)r.next();
    return hex(m);
}

static void gen_round3(rng &r, bool th)
{
    puts("tbl32");
    puts("sizes");
    puts("premain");
    const char *rts[5] = {"crc8", "crc8t", "crc16", "mmc7", "crc32"};
    // (a) access extent: every length 0..64 at every alignment 0..7, exactly sized buffers with red zones on both sides
    for (const char *rt : rts)
        for (int len = 0; len <= 64; len++)
            for (unsigned a = 0; a < 8; a++)
            {
                std::string srt = rt;
                unsigned seed = (unsigned)(srt == "crc32" ? r.next() & 0xffffffffu : srt == "crc16" ? r.below(65536) : r.below(256));
                printf("acc %s %d %x %s %u\n", rt, len, seed, rnd_hex(r, len).c_str(), a);
            }
    // (b) the length argument beyond the parameter's type
    for (unsigned long long n : {256ull, 257ull, 511ull, 65536ull + 2, (1ull << 32) + 1})
        for (const char *rt : {"crc8", "crc8t", "mmc7"})
            printf("trunc %s %llu %x %u\n", rt, n, (unsigned)r.below(256), (unsigned)r.next());
    for (unsigned long long n : {65536ull, 65537ull, 65536ull + 300, 131071ull, (1ull << 32) + 5})
        printf("trunc crc16 %llu %x %u\n", n, (unsigned)r.below(65536), (unsigned)r.next());
    for (unsigned long long n : {1ull << 32, (1ull << 32) + 1, (1ull << 32) + 7, (1ull << 33) + 4})
        printf("trunc crc32 %llu %x %u\n", n, (unsigned)r.next(), (unsigned)r.next());
    // (c) lengths around every counter width, up to 1 MiB, generated messages; the 8- and 16-bit length routines
    //     are fed in calls of the largest length their parameter can express (and a few smaller chunkings)
    std::vector<size_t> lens = {0, 1, 255, 256, 257, 65535, 65536, 65537, 262143, 262144, 262145, 524288 + 3, 1048576 + 5};
    if (th)
        for (int i = 0; i < 6; i++) lens.push_back((size_t)r.range(1, 3 << 20));
    for (size_t n : lens)
    {
        unsigned al = (unsigned)r.below(8);
        int mode = r.chance(15) ? 1 : 0;
        printf("big strm %zu %x %u %d %u 0\n", n, (unsigned)r.below(256), (unsigned)r.next(), mode, al);
        printf("big crc8 %zu %x %u %d %u 255\n", n, (unsigned)r.below(256), (unsigned)r.next(), mode, al);
        printf("big crc8t %zu %x %u %d %u 255\n", n, (unsigned)r.below(256), (unsigned)r.next(), mode, al);
        printf("big crc16 %zu %x %u %d %u %d\n", n, (unsigned)r.below(65536), (unsigned)r.next(), mode, al, n <= 65535 && r.chance(50) ? 0 : 65535);
        printf("big crc32 %zu %x %u %d %u 0\n", n, (unsigned)r.next(), (unsigned)r.next(), mode, al);
        if (n <= 255) printf("big mmc7 %zu 0 %u %d %u 0\n", n, (unsigned)r.next(), mode, al);
        // other chunkings (crc32: multiples of four only, see finding C17-crc32-split)
        if (n == 255 || n == 65537 || n == 262145 || n == 524288 + 3 || (th && n > 255))
        {
            printf("big crc8 %zu %x %u %d %u %d\n", n, (unsigned)r.below(256), (unsigned)r.next(), mode, al, (int)r.range(1, 254));
            printf("big crc8t %zu %x %u %d %u %d\n", n, (unsigned)r.below(256), (unsigned)r.next(), mode, al, (int)r.range(1, 254));
            printf("big crc16 %zu %x %u %d %u %d\n", n, (unsigned)r.below(65536), (unsigned)r.next(), mode, al, (int)r.pick(std::vector<int>{256, 257, 32768, 65532, 65534}));
            printf("big crc32 %zu %x %u %d %u %d\n", n, (unsigned)r.next(), (unsigned)r.next(), mode, al, (int)r.pick(std::vector<int>{4, 256, 65536, 262144, 262148, 1 << 19}));
        }
    }
    // (d) one streaming-CRC object used for several messages: re-initialised, not re-initialised, after a whole frame
    for (int i = 0; i < (th ? 600 : 120); i++)
    {
        std::string l = "strmobj";
        int toks = (int)r.range(1, 6);
        for (int k = 0; k < toks; k++)
        {
            if (k == 0 ? r.chance(80) : r.chance(45)) l += " i:" + hexn(r.chance(50) ? 0xff : r.below(256), 2);
            std::string h = rnd_hex(r, (size_t)r.range(0, 20));
            l += " f:" + (h == "-" ? std::string("") : h);
        }
        puts(l.c_str());
    }
    // a frame (message + its own CRC: residue 0) followed, without re-initialisation, by the next message
    for (int i = 0; i < 20; i++)
    {
        bytes m = unhex(rnd_hex(r, (size_t)r.range(1, 12)));
        uint8_t c = (uint8_t)ref_msb(8, 0x31, 0xff, m);
        printf("strmobj i:ff f:%s f:%02x f:%s\n", hex(m).c_str(), c, rnd_hex(r, (size_t)r.range(1, 12)).c_str());
    }
}

static void gen(rng &r, const std::string &tier)
{
    bool th = tier == "thorough";
    puts("tbl8");
    puts("check");
    gen_round3(r, th);
    // explicit length argument: 0 (nothing mapped / something mapped), a prefix of the mapped bytes, the maximum of the type
    for (const char *rt : {"crc8", "crc8t", "crc16", "mmc7", "crc32"})
    {
        printf("len %s 0 %x -\n", rt, (unsigned)r.below(256));
        for (int i = 0; i < (th ? 400 : 60); i++)
        {
            size_t mapped = (size_t)r.range(0, i % 4 == 0 ? 300 : 24);
            size_t n = (size_t)r.range(0, (int64_t)mapped);
            if (i % 5 == 0) n = 0;
            if (i % 7 == 0) n = mapped;
            bool narrow = std::string(rt) != "crc16" && std::string(rt) != "crc32";
            if (narrow && n > 255) n = 255;
            printf("len %s %zu %x %s\n", rt, n, (unsigned)(std::string(rt) == "crc32" ? r.next() & 0xffffffffu : std::string(rt) == "crc16" ? r.below(65536) : r.below(256)), rnd_hex(r, mapped).c_str());
        }
        bool narrow = std::string(rt) != "crc16" && std::string(rt) != "crc32";
        if (narrow)
        {
            printf("len %s 255 %x %s\n", rt, (unsigned)r.below(256), rnd_hex(r, 255).c_str());
            printf("len %s 255 %x %s\n", rt, (unsigned)r.below(256), rnd_hex(r, 256).c_str());
            printf("len %s 255 %x %s\n", rt, (unsigned)r.below(256), rnd_hex(r, 300).c_str());
        }
    }
    printf("len crc16 65535 %x %s\n", (unsigned)r.below(65536), rnd_hex(r, 65535).c_str());
    printf("len crc16 65535 %x %s\n", (unsigned)r.below(65536), rnd_hex(r, 65540).c_str());
    // (1) all (seed, byte) pairs for the 8-bit routines
    for (unsigned s = 0; s < 256; s++)
        for (unsigned b = 0; b < 256; b++)
        {
            // the three routines on every pair would be 196k lines; rotate
            // them in the quick tier (every pair is still seen by one routine
            // and, through the oracle, crc8 and crc8_table are always both run)
            const char *ops[3] = {"strm", "crc8", "crc8t"};
            for (int k = 0; k < 3; k++)
                if (th || (int)((s + b) % 3) == k)
                    printf("%s %02x %02x\n", ops[k], s, b);
        }
    // (2) all messages up to length 4 over {00,01,80,ff}
    const uint8_t al[4] = {0x00, 0x01, 0x80, 0xff};
    for (int len = 0; len <= 4; len++)
    {
        int total = 1;
        for (int i = 0; i < len; i++) total *= 4;
        for (int code = 0; code < total; code++)
        {
            bytes m;
            for (int i = 0, c = code; i < len; i++, c /= 4) m.push_back(al[c % 4]);
            std::string h = hex(m);
            for (unsigned s : {0x00u, 0xffu})
            {
                printf("strm %02x %s\ncrc8 %02x %s\ncrc8t %02x %s\n", s, h.c_str(), s, h.c_str(), s, h.c_str());
                printf("crc16 %04x %s\n", s * 0x101, h.c_str());
                printf("crc32 %08x %s 0\n", s * 0x1010101, h.c_str());
            }
            printf("mmc7 %s\n", h.c_str());
        }
    }
    // (3) random messages of every length 0..255 at all 8 alignments
    int reps = th ? 12 : 1;
    for (int rep = 0; rep < reps; rep++)
        for (int len = 0; len <= 255; len++)
        {
            unsigned al8 = (unsigned)((len + rep) % 8);
            std::string h = rnd_hex(r, len);
            printf("strm %02x %s %u\n", (unsigned)r.below(256), h.c_str(), al8);
            printf("crc8 %02x %s %u\n", (unsigned)r.below(256), h.c_str(), al8);
            printf("crc8t %02x %s %u\n", (unsigned)r.below(256), h.c_str(), al8);
            printf("crc16 %04x %s %u\n", (unsigned)r.below(65536), h.c_str(), al8);
            printf("mmc7 %s\n", h.c_str());
            for (unsigned a = 0; a < 8; a++)
                if (th || a == al8 || len < 24)
                    printf("crc32 %08x %s %u\n", (unsigned)r.next(), rnd_hex(r, len).c_str(), a);
        }
    // (3b) long messages (length fields wider than a byte: crc16 takes uint16_t, crc32 uint32_t)
    for (int len : {256, 257, 511, 1000, 4099, 65535, 65536, 70001})
    {
        std::string h = rnd_hex(r, len);
        if (len <= 65535) printf("crc16 %04x %s %u\n", (unsigned)r.below(65536), h.c_str(), (unsigned)r.below(8));
        printf("crc32 %08x %s %u\n", (unsigned)r.next(), h.c_str(), (unsigned)r.below(8));
    }
    // (4) known finding C17-crc32-split: chaining at split points not divisible by 4
    for (int i = 0; i < 40; i++)
    {
        int len = (int)r.range(2, 40);
        int k = (int)r.range(1, len - 1);
        if (k % 4 == 0) k++;
        if (k >= len) k = len - 1;
        if (k % 4 == 0) continue;
        printf("@F:C17-crc32-split crc32chain %08x %s 0 %d\n", (unsigned)r.next(), rnd_hex(r, len).c_str(), k);
    }
    // and the same op on word boundaries (must hold)
    for (int i = 0; i < 200; i++)
    {
        int len = (int)r.range(0, 60);
        int k = 4 * (int)r.range(0, len / 4);
        printf("crc32chain %08x %s %u %d\n", (unsigned)r.next(), rnd_hex(r, len).c_str(), 4 * (unsigned)r.below(2), k);
    }
}

int main(int argc, char **argv) { return main_(argc, argv, gen, run_op); }
