// C01 harness: intrusive lists (C dlist, C++ dlist, slist, hlist) against the
// Lean model IgrisModel/C01.  Stateful cases:
//   reset c <n>        n C dlist_head nodes, all dlist_init'ed
//   reset x <n> <k>    C++: item slots 0..n-1 (not constructed), lists n..n+k-1 constructed
//   reset s <n>        slist: n slist_head nodes, next = self
//   reset h <n> <k>    hlist: nodes 0..n-1, heads n..n+k-1
// Result of every op: "<value> | <dump of every node's link fields as ids>".
#include "common/hv.h"
#include <igris/datastruct/dlist.h>
#include <igris/container/dlist.h>
#include <igris/datastruct/slist.h>
#include <igris/container/slist.h>
#include <igris/datastruct/hlist.h>
#include <algorithm>
#include <map>
#include <set>

using namespace hv;

// ------------------------------------------------------------------ reference
// The abstract state the property talks about: a family of disjoint cyclic
// sequences ("rings").  A self-linked node is a ring of one.  Poisoned, dead
// or never-initialised nodes are in no ring.
struct Ref
{
    std::vector<std::vector<int>> rings;
    int find(int a) const
    {
        for (size_t i = 0; i < rings.size(); i++)
            if (std::find(rings[i].begin(), rings[i].end(), a) != rings[i].end())
                return (int)i;
        return -1;
    }
    bool in_ring(int a) const { return find(a) >= 0; }
    bool multi(int a) const { int r = find(a); return r >= 0 && rings[r].size() > 1; }
    size_t ring_size(int a) const { int r = find(a); return r < 0 ? 0 : rings[r].size(); }
    // ring of a rotated so that a comes first
    std::vector<int> from(int a) const
    {
        int r = find(a);
        std::vector<int> v = rings[r];
        std::rotate(v.begin(), std::find(v.begin(), v.end(), a), v.end());
        return v;
    }
    void remove(int a) // take a out of its ring; a ends up in no ring
    {
        int r = find(a);
        if (r < 0) return;
        auto &v = rings[r];
        v.erase(std::find(v.begin(), v.end(), a));
        if (v.empty()) rings.erase(rings.begin() + r);
    }
    void single(int a) { remove(a); rings.push_back({a}); }
    void ins_after(int x, int pos) { remove(x); int r = find(pos); auto &v = rings[r]; v.insert(std::find(v.begin(), v.end(), pos) + 1, x); }
    void ins_before(int x, int pos) { remove(x); int r = find(pos); auto &v = rings[r]; v.insert(std::find(v.begin(), v.end(), pos), x); }
    // contents of the list headed by h: the ring from h without h
    std::vector<int> list(int h) const { auto v = from(h); v.erase(v.begin()); return v; }
};

static std::string ids(const std::vector<int> &v)
{
    if (v.empty()) return "-";
    std::string s;
    for (size_t i = 0; i < v.size(); i++) s += (i ? "," : "") + std::to_string(v[i]);
    return s;
}

// ------------------------------------------------------------------ C dlist
struct CItem { int key; struct dlist_head lnk; };
static std::vector<CItem *> cn;
static int cid(struct dlist_head *p)
{
    for (size_t i = 0; i < cn.size(); i++) if (&cn[i]->lnk == p) return (int)i;
    return -1;
}
static std::string cptr(struct dlist_head *p)
{
    if (p == DLIST_POISON1) return "P1";
    if (p == DLIST_POISON2) return "P2";
    int i = cid(p);
    return i < 0 ? "?" : std::to_string(i);
}
static bool ckey_less(CItem *a, CItem *b) { return a->key < b->key; }

// ------------------------------------------------------------------ C++ dlist
struct XItem { int key; igris::dlist_node lnk; };
typedef igris::dlist<XItem, &XItem::lnk> XList;
static std::vector<XItem *> xn;   // item slots (nullptr = dead)
static std::vector<XList *> xl;   // lists (nullptr = dead)
static int xnitems = 0;
static igris::dlist_node *xnode(int id)
{
    if (id < xnitems) return xn[id] ? &xn[id]->lnk : nullptr;
    XList *l = xl[id - xnitems];
    return l ? l->end().current : nullptr;
}
static std::string xptr(igris::dlist_node *p)
{
    for (int i = 0; i < xnitems + (int)xl.size(); i++) if (xnode(i) == p) return std::to_string(i);
    return "?";
}

// ------------------------------------------------------------------ slist
struct SItem { int key; struct slist_head lnk; };
static std::vector<SItem *> sn;
static std::string sptr(struct slist_head *p)
{
    for (size_t i = 0; i < sn.size(); i++) if (&sn[i]->lnk == p) return std::to_string(i);
    return "?";
}
// C++ wrapper over the same nodes, head = node 0 is not usable (private head):
typedef igris::slist<SItem, &SItem::lnk> SList;

// ------------------------------------------------------------------ hlist
static std::vector<struct hlist_node *> hn;
static std::vector<struct hlist_head *> hh;
static std::string hnid(struct hlist_node *p)
{
    if (!p) return "0";
    for (size_t i = 0; i < hn.size(); i++) if (hn[i] == p) return std::to_string(i);
    return "?";
}
static std::string hloc(struct hlist_node **pp)
{
    if (!pp) return "0";
    for (size_t i = 0; i < hh.size(); i++) if (&hh[i]->first == pp) return "H" + std::to_string(hn.size() + i);
    for (size_t i = 0; i < hn.size(); i++) if (&hn[i]->next == pp) return "N" + std::to_string(i);
    return "?";
}

// ------------------------------------------------------------------ state
static char kind = 0;
static Ref ref;
static std::map<int, std::vector<int>> hlists; // hlist reference: head id -> node ids

static void free_all()
{
    for (auto p : cn) free(p);
    cn.clear();
    for (auto &p : xl) { if (p) { while (!p->empty()) p->pop_front(); delete p; } p = nullptr; }
    for (auto &p : xn) { delete p; p = nullptr; }
    xl.clear(); xn.clear();
    for (auto p : sn) free(p);
    sn.clear();
    for (auto p : hn) free(p);
    for (auto p : hh) free(p);
    hn.clear(); hh.clear();
    ref = Ref();
    hlists.clear();
}

static std::string dump()
{
    std::string s;
    if (kind == 'c')
        for (size_t i = 0; i < cn.size(); i++)
            s += (i ? " " : "") + std::to_string(i) + ":" + cptr(cn[i]->lnk.next) + "/" + cptr(cn[i]->lnk.prev);
    else if (kind == 'x')
        for (int i = 0; i < xnitems + (int)xl.size(); i++)
        {
            igris::dlist_node *n = xnode(i);
            s += (i ? " " : "") + std::to_string(i) + ":" + (n ? xptr(n->next) + "/" + xptr(n->prev) : std::string("dead"));
        }
    else if (kind == 's')
        for (size_t i = 0; i < sn.size(); i++)
            s += (i ? " " : "") + std::to_string(i) + ":" + sptr(sn[i]->lnk.next);
    else if (kind == 'h')
    {
        for (size_t i = 0; i < hn.size(); i++)
            s += (i ? " " : "") + std::to_string(i) + ":" + hnid(hn[i]->next) + "/" + hloc(hn[i]->pprev);
        for (size_t i = 0; i < hh.size(); i++)
            s += " " + std::to_string(hn.size() + i) + ":" + hnid(hh[i]->first);
    }
    return s;
}

// ---- property oracle on the real structures --------------------------------
static void oracle_c(out &o)
{
    // every ring of the reference: forward = reference order, backward = reverse,
    // neighbours point back, sizes / emptiness / membership / is_correct agree
    for (auto &ring : ref.rings)
        for (int hd : ring)
        {
            std::vector<int> want = ref.list(hd), fw, bw;
            struct dlist_head *head = &cn[hd]->lnk, *it;
            int guard = 0;
            dlist_for_each(it, head) { fw.push_back(cid(it)); if (++guard > 10000) break; }
            guard = 0;
            dlist_for_each_reverse(it, head) { bw.push_back(cid(it)); if (++guard > 10000) break; }
            if (fw != want) return o.fail("C dlist forward traversal from " + std::to_string(hd) + " = " + ids(fw) + ", reference " + ids(want));
            std::reverse(bw.begin(), bw.end());
            if (bw != want) return o.fail("C dlist backward traversal from " + std::to_string(hd) + " != reverse of reference");
            if (head->next->prev != head || head->prev->next != head) return o.fail("neighbours of " + std::to_string(hd) + " do not point back");
            if (dlist_size(head) != (int)want.size() || dlist_size_reversed(head) != (int)want.size()) return o.fail("dlist_size disagrees with reference");
            if ((bool)dlist_empty(head) != want.empty()) return o.fail("dlist_empty disagrees");
            if (!dlist_is_correct(head)) return o.fail("dlist_is_correct false on a well-formed list");
            // entry iteration through the member-offset macros
            CItem *pos; std::vector<int> ent;
            guard = 0;
            dlist_for_each_entry(pos, head, lnk) { ent.push_back(pos->key); if (++guard > 10000) break; }
            if (ent != want) return o.fail("dlist_for_each_entry disagrees");
        }
    // a node in no ring (poisoned) is reachable from no list
    for (size_t i = 0; i < cn.size(); i++)
        if (!ref.in_ring((int)i))
            for (size_t j = 0; j < cn.size(); j++)
                if (ref.in_ring((int)j) && (cn[j]->lnk.next == &cn[i]->lnk || cn[j]->lnk.prev == &cn[i]->lnk))
                    return o.fail("removed node " + std::to_string(i) + " still reachable from " + std::to_string(j));
}
static void oracle_x(out &o)
{
    for (auto &ring : ref.rings)
        for (int hd : ring)
        {
            std::vector<int> want = ref.list(hd), fw, bw;
            igris::dlist_node *head = xnode(hd);
            if (!head) return o.fail("reference has a dead node in a ring");
            int guard = 0;
            for (auto *n = head->next; n != head && ++guard < 10000; n = n->next) fw.push_back(atoi(xptr(n).c_str()));
            guard = 0;
            for (auto *n = head->prev; n != head && ++guard < 10000; n = n->prev) bw.push_back(atoi(xptr(n).c_str()));
            std::reverse(bw.begin(), bw.end());
            if (fw != want) return o.fail("C++ dlist forward traversal from " + std::to_string(hd) + " = " + ids(fw) + ", reference " + ids(want));
            if (bw != want) return o.fail("C++ dlist backward traversal != reverse of reference");
            if (head->next->prev != head || head->prev->next != head) return o.fail("neighbours do not point back");
            if (head->is_linked() != !want.empty()) return o.fail("is_linked disagrees");
            if (hd >= xnitems)
            {
                XList *l = xl[hd - xnitems];
                if (l->size() != want.size() || l->empty() != want.empty() || !l->is_correct()) return o.fail("size/empty/is_correct of list disagree with reference");
                std::vector<int> keys, rkeys;
                bool all_items = true;
                for (int w : want) if (w >= xnitems) all_items = false; // another list head spliced in: keys undefined
                if (all_items)
                {
                    for (auto &it : *l) keys.push_back(it.key);
                    for (auto it = l->rbegin(); it != l->rend(); ++it) rkeys.push_back(it->key);
                    std::reverse(rkeys.begin(), rkeys.end());
                    if (keys != want || rkeys != want) return o.fail("iterator traversal disagrees with reference");
                }
            }
        }
}
static void oracle_s(out &o)
{
    for (auto &ring : ref.rings)
    {
        // only rings whose first element is a designated head are lists; walk from every element anyway
        for (int hd : ring)
        {
            std::vector<int> want = ref.list(hd), fw;
            struct slist_head *head = &sn[hd]->lnk, *it;
            int guard = 0;
            slist_for_each(it, head) { fw.push_back(atoi(sptr(it).c_str())); if (++guard > 10000) break; }
            if (fw != want) return o.fail("slist traversal from " + std::to_string(hd) + " = " + ids(fw) + ", reference " + ids(want));
            if (slist_size(head) != (int)want.size() || (bool)slist_empty(head) != want.empty()) return o.fail("slist_size/empty disagree");
            for (size_t k = 0; k < sn.size(); k++)
                if ((bool)slist_in(head, &sn[k]->lnk) != (std::find(want.begin(), want.end(), (int)k) != want.end()))
                    return o.fail("slist_in disagrees");
        }
    }
}
static void oracle_h(out &o)
{
    for (auto &kv : hlists)
    {
        std::vector<int> fw;
        struct hlist_node *p;
        int guard = 0;
        hlist_for_each(p, hh[kv.first - hn.size()]) { fw.push_back(atoi(hnid(p).c_str())); if (++guard > 10000) break; }
        if (fw != kv.second) return o.fail("hlist traversal of head " + std::to_string(kv.first) + " = " + ids(fw) + ", reference " + ids(kv.second));
        // every linked node's pprev points at the location that points at it
        for (int n : kv.second)
            if (*hn[n]->pprev != hn[n]) return o.fail("hlist pprev of " + std::to_string(n) + " does not point back");
    }
}

static void run_op(const std::vector<std::string> &w, const std::string &, out &o)
{
    const std::string &op = w[0];
    auto A = [&](size_t i) { return atoi(w[i].c_str()); };
    std::string val = "ok";
    if (op == "reset")
    {
        free_all();
        kind = w[1][0];
        int n = A(2);
        if (kind == 'c')
            for (int i = 0; i < n; i++)
            {
                CItem *p = (CItem *)malloc(sizeof(CItem));
                p->key = i;
                dlist_init(&p->lnk);
                cn.push_back(p);
                ref.single(i);
            }
        else if (kind == 'x')
        {
            xnitems = n;
            xn.assign(n, nullptr);
            for (int i = 0; i < A(3); i++) { xl.push_back(new XList()); ref.single(n + i); }
        }
        else if (kind == 's')
            for (int i = 0; i < n; i++)
            {
                SItem *p = (SItem *)malloc(sizeof(SItem));
                p->key = i;
                p->lnk.next = &p->lnk;
                sn.push_back(p);
                ref.single(i);
            }
        else if (kind == 'h')
        {
            for (int i = 0; i < n; i++) { auto *p = (struct hlist_node *)malloc(sizeof(struct hlist_node)); p->next = 0; p->pprev = 0; hn.push_back(p); }
            for (int i = 0; i < A(3); i++) { auto *p = (struct hlist_head *)malloc(sizeof(struct hlist_head)); p->first = 0; hh.push_back(p); hlists[n + i] = {}; }
        }
    }
    // ---------------- C dlist
    else if (kind == 'c')
    {
        int a = A(1), b = w.size() > 2 ? A(2) : 0;
        struct dlist_head *pa = &cn[a]->lnk, *pb = w.size() > 2 && b < (int)cn.size() ? &cn[b]->lnk : nullptr;
        if (op == "cinit") { dlist_init(pa); ref.single(a); }
        else if (op == "cadd_next") { dlist_add_next(pa, pb); ref.ins_after(a, b); o.tag("insert"); }
        else if (op == "cadd_prev") { dlist_add_prev(pa, pb); ref.ins_before(a, b); o.tag("insert"); }
        else if (op == "cdel") { if (ref.ring_size(a) == 1) o.tag("del-single"); dlist_del(pa); ref.remove(a); o.tag("remove"); }
        else if (op == "cdel_init") { if (ref.ring_size(a) == 1) o.tag("del-single"); dlist_del_init(pa); ref.single(a); o.tag("remove"); }
        else if (op == "cmove" || op == "cmove_tail")
        {
            if (a == b) o.tag("move-self");
            else if (ref.find(a) == ref.find(b)) o.tag("move-same-ring");
            if (a != b && (cn[a]->lnk.next == pb || cn[a]->lnk.prev == pb)) o.tag("move-adjacent");
            if (op == "cmove") dlist_move(pa, pb); else dlist_move_tail(pa, pb);
            // moving a node next to itself leaves it alone in its own ring
            if (a == b) ref.single(a);
            else if (op == "cmove") ref.ins_after(a, b);
            else ref.ins_before(a, b);
        }
        else if (op == "cinsert_instead") { dlist_insert_instead(pa, pb); ref.ins_before(a, b); ref.single(b); o.tag("replace"); }
        else if (op == "cmove_sorted")
        {
            CItem *added = cn[a];
            dlist_move_sorted(added, pb, lnk, ckey_less);
            int pos = b;
            for (int x : ref.list(b)) if (a < x) { pos = x; break; }
            ref.ins_before(a, pos);
            o.tag("sorted-insert");
        }
        else if (op == "csize") val = std::to_string(dlist_size(pa));
        else if (op == "csize_rev") val = std::to_string(dlist_size_reversed(pa));
        else if (op == "cempty") val = dlist_empty(pa) ? "1" : "0";
        else if (op == "ccorrect") val = dlist_is_correct(pa) ? "1" : "0";
        else if (op == "cin") val = dlist_in(pa, pb) ? "1" : "0";
        else if (op == "ccheck") val = std::to_string(dlist_check(pa, b));
        else if (op == "ccheck_rev") val = std::to_string(dlist_check_reversed(pa, b));
        else if (op == "clist") { std::vector<int> v; struct dlist_head *it; dlist_for_each(it, pa) v.push_back(cid(it)); val = ids(v); }
        else if (op == "clist_rev") { std::vector<int> v; struct dlist_head *it; dlist_for_each_reverse(it, pa) v.push_back(cid(it)); val = ids(v); }
        else val = "bad-op";
        oracle_c(o);
    }
    // ---------------- C++ dlist
    else if (kind == 'x')
    {
        int a = A(1), b = w.size() > 2 ? A(2) : 0;
        if (op == "xnew") { xn[a] = new XItem(); xn[a]->key = a; ref.single(a); }
        else if (op == "xdel") { if (ref.multi(a)) o.tag("destroy-linked"); delete xn[a]; xn[a] = nullptr; ref.remove(a); }
        else if (op == "xlnew") { xl[a - xnitems] = new XList(); ref.single(a); }
        else if (op == "xldel" || op == "xclear")
        {
            if (ref.multi(a)) o.tag("clear-nonempty");
            for (int x : ref.list(a)) ref.single(x);
            if (op == "xldel") { delete xl[a - xnitems]; xl[a - xnitems] = nullptr; ref.remove(a); }
            else xl[a - xnitems]->clear();
        }
        else if (op == "xunlink") { if (!ref.multi(a)) o.tag("unlink-unlinked"); xnode(a)->unlink(); ref.single(a); }
        else if (op == "xpop_front" || op == "xpop_back")
        {
            auto v = ref.list(a);
            if (v.empty()) o.tag("pop-empty");
            else ref.single(op == "xpop_front" ? v.front() : v.back());
            if (op == "xpop_front") xl[a - xnitems]->pop_front(); else xl[a - xnitems]->pop_back();
        }
        else if (op == "xmove_next" || op == "xmove_prev" || op == "xmove_front" || op == "xmove_back")
        {
            int node = a, target = b;
            bool after = op == "xmove_next" || op == "xmove_front";
            if (op == "xmove_front" || op == "xmove_back") { node = b; target = a; }
            if (node == target) o.tag("move-self");
            else if (ref.find(node) == ref.find(target)) o.tag("move-same-ring");
            if (node != target && (xnode(node)->next == xnode(target) || xnode(node)->prev == xnode(target))) o.tag("move-adjacent");
            if (op == "xmove_next") xnode(node)->move_next_than(xnode(target));
            else if (op == "xmove_prev") xnode(node)->move_prev_than(xnode(target));
            else if (op == "xmove_front") xl[a - xnitems]->move_front(*xn[b]);
            else xl[a - xnitems]->move_back(*xn[b]);
            if (node == target) ref.single(node);
            else if (after) ref.ins_after(node, target);
            else ref.ins_before(node, target);
        }
        else if (op == "xsplice")
        {
            auto src = ref.list(b);
            if (src.empty()) o.tag("splice-from-empty");
            if (ref.multi(a)) o.tag("splice-into-nonempty");
            xl[a - xnitems]->unlink_and_move_all_nodes_from_other(std::move(*xl[b - xnitems]));
            ref.single(a); // the destination head leaves its old ring (its nodes stay linked among themselves)
            if (a != b)
            {
                ref.single(b);
                int r = ref.find(a);
                for (int x : src) { ref.remove(x); }
                r = ref.find(a);
                ref.rings[r].insert(ref.rings[r].end(), src.begin(), src.end());
            }
        }
        else if (op == "xsize") val = std::to_string(xl[a - xnitems]->size());
        else if (op == "xempty") val = xl[a - xnitems]->empty() ? "1" : "0";
        else if (op == "xlinked") val = xnode(a)->is_linked() ? "1" : "0";
        else if (op == "xcorrect") val = xl[a - xnitems]->is_correct() ? "1" : "0";
        else if (op == "xiter") { std::vector<int> v; igris::dlist_node *h = xnode(a); for (auto *n = h->next; n != h; n = n->next) v.push_back(atoi(xptr(n).c_str())); val = ids(v); }
        else if (op == "xriter") { std::vector<int> v; igris::dlist_node *h = xnode(a); for (auto *n = h->prev; n != h; n = n->prev) v.push_back(atoi(xptr(n).c_str())); val = ids(v); }
        else val = "bad-op";
        oracle_x(o);
    }
    // ---------------- slist
    else if (kind == 's')
    {
        int a = A(1), b = w.size() > 2 ? A(2) : 0;
        if (op == "sinit") { slist_init(&sn[a]->lnk); ref.single(a); }
        else if (op == "sadd") { slist_add(&sn[a]->lnk, &sn[b]->lnk); ref.ins_after(a, b); o.tag("insert"); }
        else if (op == "spop")
        {
            auto v = ref.list(a);
            struct slist_head *r = slist_pop_first(&sn[a]->lnk);
            val = r ? sptr(r) : "null";
            if (v.empty()) { if (r) o.fail("slist_pop_first on empty list returned a node"); o.tag("pop-empty"); }
            else { if (!r || atoi(sptr(r).c_str()) != v.front()) o.fail("slist_pop_first returned the wrong node"); ref.remove(v.front()); o.tag("remove"); }
        }
        else if (op == "smove_front")
        {
            // igris::slist<T,m>::move_front on a list object whose head is private: build a
            // wrapper list on the stack is impossible (head inside); so model node b as the
            // head by running the same member code through a layout-compatible object
            SList *lst = reinterpret_cast<SList *>(&sn[b]->lnk);
            if (ref.find(a) == ref.find(b)) o.tag("move-linked");
            lst->move_front(*sn[a]);
            ref.ins_after(a, b);
        }
        else if (op == "ssize") val = std::to_string(slist_size(&sn[a]->lnk));
        else if (op == "sin") val = slist_in(&sn[a]->lnk, &sn[b]->lnk) ? "1" : "0";
        else if (op == "slist") { std::vector<int> v; struct slist_head *it; slist_for_each(it, &sn[a]->lnk) v.push_back(atoi(sptr(it).c_str())); val = ids(v); }
        else val = "bad-op";
        oracle_s(o);
    }
    // ---------------- hlist
    else if (kind == 'h')
    {
        int a = A(1);
        if (op == "hhead_init") { hlist_head_init(hh[a - hn.size()]); hlists[a] = {}; }
        else if (op == "hnode_init") hlist_node_init(hn[a]);
        else if (op == "hadd")
        {
            const std::string &loc = w[2];
            int t = atoi(loc.c_str() + 1);
            struct hlist_node **pp = loc[0] == 'H' ? &hh[t - hn.size()]->first : &hn[t]->next;
            hlist_add_next(hn[a], pp);
            if (loc[0] == 'H') hlists[t].insert(hlists[t].begin(), a);
            else
                for (auto &kv : hlists)
                {
                    auto it = std::find(kv.second.begin(), kv.second.end(), t);
                    if (it != kv.second.end()) { kv.second.insert(it + 1, a); break; }
                }
            o.tag("insert");
        }
        else if (op == "hdel")
        {
            hlist_del(hn[a]);
            bool was = false;
            for (auto &kv : hlists)
            {
                auto it = std::find(kv.second.begin(), kv.second.end(), a);
                if (it != kv.second.end()) { kv.second.erase(it); was = true; break; }
            }
            o.tag(was ? "remove" : "del-unlinked");
        }
        else if (op == "hlist") { std::vector<int> v; struct hlist_node *p; hlist_for_each(p, hh[a - hn.size()]) v.push_back(atoi(hnid(p).c_str())); val = ids(v); }
        else val = "bad-op";
        oracle_h(o);
    }
    o.result = val + " | " + dump();
}

// ------------------------------------------------------------------ gen
// The generator keeps its own reference so that it only emits operations whose
// preconditions hold (Linux-style contract: *_add wants an entry that is in no
// list; every other entry argument must be initialised/linked).
struct G
{
    rng &r;
    Ref ref;
    std::set<int> poisoned, dead;
    G(rng &r) : r(r) {}
};

static void emit(const std::string &s) { puts(s.c_str()); }

static void gen_c_case(rng &r, int n, int nops)
{
    G g(r);
    emit("reset c " + std::to_string(n));
    for (int i = 0; i < n; i++) g.ref.single(i);
    auto any = [&]() { return (int)r.below(n); };
    auto inring = [&]() { for (int t = 0; t < 50; t++) { int a = any(); if (g.ref.in_ring(a)) return a; } return -1; };
    auto free_node = [&]() { for (int t = 0; t < 50; t++) { int a = any(); if (!g.ref.multi(a)) return a; } return -1; };
    for (int k = 0; k < nops; k++)
    {
        int c = (int)r.below(100);
        if (c < 22)
        {
            int a = free_node(), b = inring();
            if (a < 0 || b < 0 || a == b) continue;
            bool nx = r.chance(50);
            emit(std::string(nx ? "cadd_next " : "cadd_prev ") + std::to_string(a) + " " + std::to_string(b));
            g.poisoned.erase(a);
            if (nx) g.ref.ins_after(a, b); else g.ref.ins_before(a, b);
        }
        else if (c < 30) { int a = inring(); if (a < 0) continue; emit("cdel " + std::to_string(a)); g.ref.remove(a); g.poisoned.insert(a); }
        else if (c < 40) { int a = inring(); if (a < 0) continue; emit("cdel_init " + std::to_string(a)); g.ref.single(a); }
        else if (c < 65)
        {
            int a = inring(), b = inring();
            if (a < 0 || b < 0) continue;
            int mode = (int)r.below(10);
            if (mode == 0) b = a;                                   // move next to itself
            else if (mode <= 3 && g.ref.multi(a))                  // current neighbour
            { auto v = g.ref.from(a); b = mode == 1 ? v[1] : v.back(); }
            bool tail = r.chance(50);
            emit(std::string(tail ? "cmove_tail " : "cmove ") + std::to_string(a) + " " + std::to_string(b));
            if (a == b) g.ref.single(a); else if (tail) g.ref.ins_before(a, b); else g.ref.ins_after(a, b);
        }
        else if (c < 70)
        {
            int a = free_node(), b = inring();
            if (a < 0 || b < 0 || a == b) continue;
            emit("cinsert_instead " + std::to_string(a) + " " + std::to_string(b));
            g.poisoned.erase(a);
            g.ref.ins_before(a, b); g.ref.single(b);
        }
        else if (c < 78)
        {
            int a = free_node(), b = inring();
            if (a < 0 || b < 0 || a == b) continue;
            emit("cmove_sorted " + std::to_string(a) + " " + std::to_string(b));
            g.poisoned.erase(a);
            int pos = b;
            for (int x : g.ref.list(b)) if (a < x) { pos = x; break; }
            g.ref.ins_before(a, pos);
        }
        else if (c < 81) { int a = free_node(); if (a < 0) continue; emit("cinit " + std::to_string(a)); g.poisoned.erase(a); g.ref.single(a); }
        else
        {
            int a = inring(), b = inring();
            if (a < 0) continue;
            static const char *q[] = {"csize", "csize_rev", "cempty", "ccorrect", "clist", "clist_rev"};
            int qi = (int)r.below(9);
            if (qi < 6) emit(std::string(q[qi]) + " " + std::to_string(a));
            else if (qi == 6) emit("cin " + std::to_string(any()) + " " + std::to_string(a));
            else emit(std::string(qi == 7 ? "ccheck " : "ccheck_rev ") + std::to_string(a) + " " + std::to_string((int)r.range(0, n + 2)));
            (void)b;
        }
    }
}

static void gen_x_case(rng &r, int n, int k, int nops)
{
    G g(r);
    emit("reset x " + std::to_string(n) + " " + std::to_string(k));
    std::set<int> live;
    for (int i = 0; i < k; i++) { g.ref.single(n + i); live.insert(n + i); }
    auto live_item = [&]() { for (int t = 0; t < 50; t++) { int a = (int)r.below(n); if (live.count(a)) return a; } return -1; };
    auto live_list = [&]() { for (int t = 0; t < 50; t++) { int a = n + (int)r.below(k); if (live.count(a)) return a; } return -1; };
    auto live_any = [&]() { return r.chance(35) ? live_list() : live_item(); };
    for (int q = 0; q < nops; q++)
    {
        int c = (int)r.below(100);
        if (c < 15) { int a = (int)r.below(n); if (live.count(a)) continue; emit("xnew " + std::to_string(a)); live.insert(a); g.ref.single(a); }
        else if (c < 22) { int a = live_item(); if (a < 0) continue; emit("xdel " + std::to_string(a)); live.erase(a); g.ref.remove(a); }
        else if (c < 25) { int a = n + (int)r.below(k); if (live.count(a)) continue; emit("xlnew " + std::to_string(a)); live.insert(a); g.ref.single(a); }
        else if (c < 29)
        {
            int a = live_list(); if (a < 0) continue;
            bool del = r.chance(50);
            emit(std::string(del ? "xldel " : "xclear ") + std::to_string(a));
            for (int x : g.ref.list(a)) g.ref.single(x);
            if (del) { live.erase(a); g.ref.remove(a); }
        }
        else if (c < 35) { int a = live_any(); if (a < 0) continue; emit("xunlink " + std::to_string(a)); g.ref.single(a); }
        else if (c < 42)
        {
            int a = live_list(); if (a < 0) continue;
            bool fr = r.chance(50);
            emit(std::string(fr ? "xpop_front " : "xpop_back ") + std::to_string(a));
            auto v = g.ref.list(a);
            if (!v.empty()) g.ref.single(fr ? v.front() : v.back());
        }
        else if (c < 72)
        {
            int a = live_item(), b = live_any();
            if (a < 0 || b < 0) continue;
            int mode = (int)r.below(10);
            if (mode == 0) b = a;
            else if (mode <= 3 && g.ref.multi(a)) { auto v = g.ref.from(a); b = mode == 1 ? v[1] : v.back(); }
            bool after = r.chance(50);
            if (b >= n && r.chance(50))
                emit(std::string(after ? "xmove_front " : "xmove_back ") + std::to_string(b) + " " + std::to_string(a));
            else
                emit(std::string(after ? "xmove_next " : "xmove_prev ") + std::to_string(a) + " " + std::to_string(b));
            if (a == b) g.ref.single(a); else if (after) g.ref.ins_after(a, b); else g.ref.ins_before(a, b);
        }
        else if (c < 78)
        {
            int a = live_list(), b = live_list();
            if (a < 0 || b < 0) continue;
            // the source must contain item nodes only (a spliced-in foreign head is not a list element)
            auto src = g.ref.list(b);
            bool ok = true;
            for (int x : src) if (x >= n) ok = false;
            if (!ok) continue;
            emit("xsplice " + std::to_string(a) + " " + std::to_string(b));
            g.ref.single(a);
            if (a != b)
            {
                g.ref.single(b);
                for (int x : src) g.ref.remove(x);
                int ri = g.ref.find(a);
                g.ref.rings[ri].insert(g.ref.rings[ri].end(), src.begin(), src.end());
            }
        }
        else
        {
            int a = live_list(); if (a < 0) continue;
            static const char *qn[] = {"xsize", "xempty", "xcorrect", "xiter", "xriter"};
            int qi = (int)r.below(6);
            if (qi < 5) emit(std::string(qn[qi]) + " " + std::to_string(a));
            else { int b = live_any(); if (b >= 0) emit("xlinked " + std::to_string(b)); }
        }
    }
}

static void gen_s_case(rng &r, int n, int nops)
{
    G g(r);
    emit("reset s " + std::to_string(n));
    for (int i = 0; i < n; i++) g.ref.single(i);
    // nodes 0 and 1 are list heads; a node that was popped keeps a stale next
    // pointer and counts as "in no list" (ring of its own in the reference only
    // after sinit)
    std::set<int> stale;
    for (int q = 0; q < nops; q++)
    {
        int c = (int)r.below(100);
        int head = (int)r.below(2);
        if (c < 40)
        {
            int a = 2 + (int)r.below(n - 2);
            if (g.ref.multi(a)) continue;
            emit("sadd " + std::to_string(a) + " " + std::to_string(head));
            stale.erase(a);
            g.ref.ins_after(a, head);
        }
        else if (c < 60)
        {
            emit("spop " + std::to_string(head));
            auto v = g.ref.list(head);
            if (!v.empty()) { g.ref.remove(v.front()); stale.insert(v.front()); }
        }
        else if (c < 75)
        {
            // move_front: a node of THIS list (any position) or a node in no list
            int a = 2 + (int)r.below(n - 2);
            if (g.ref.multi(a) && g.ref.find(a) != g.ref.find(head)) continue;
            emit("smove_front " + std::to_string(a) + " " + std::to_string(head));
            stale.erase(a);
            g.ref.ins_after(a, head);
        }
        else
        {
            int qi = (int)r.below(3);
            if (qi == 0) emit("ssize " + std::to_string(head));
            else if (qi == 1) emit("slist " + std::to_string(head));
            else emit("sin " + std::to_string(head) + " " + std::to_string(2 + (int)r.below(n - 2)));
        }
    }
}

static void gen_h_case(rng &r, int n, int k, int nops)
{
    emit("reset h " + std::to_string(n) + " " + std::to_string(k));
    std::map<int, std::vector<int>> L;
    std::set<int> linked;
    for (int i = 0; i < k; i++) L[n + i] = {};
    for (int q = 0; q < nops; q++)
    {
        int c = (int)r.below(100);
        if (c < 50)
        {
            int a = (int)r.below(n);
            if (linked.count(a)) continue;
            int h = n + (int)r.below(k);
            // a node that was deleted keeps a stale pprev: hlist_node_init before re-adding is not required by hlist_add_next
            if (L[h].empty() || r.chance(40)) { emit("hadd " + std::to_string(a) + " H" + std::to_string(h)); L[h].insert(L[h].begin(), a); }
            else
            {
                size_t pos = r.below(L[h].size());
                emit("hadd " + std::to_string(a) + " N" + std::to_string(L[h][pos]));
                L[h].insert(L[h].begin() + pos + 1, a);
            }
            linked.insert(a);
        }
        else if (c < 80)
        {
            // hlist_del of a linked node, or of a node that was never linked (pprev == 0: no-op)
            int a = (int)r.below(n);
            bool never = true;
            if (linked.count(a))
            {
                never = false;
                for (auto &kv : L) { auto it = std::find(kv.second.begin(), kv.second.end(), a); if (it != kv.second.end()) { kv.second.erase(it); break; } }
                linked.erase(a);
                emit("hdel " + std::to_string(a));
                // after deletion pprev is stale: make the node "never linked" again
                emit("hnode_init " + std::to_string(a));
            }
            else if (r.chance(30)) emit("hdel " + std::to_string(a)); // pprev == 0: must be a no-op
            (void)never;
        }
        else emit("hlist " + std::to_string(n + (int)r.below(k)));
    }
}

// every op sequence of a given depth over 3 nodes (0 = head) for the C dlist
static void gen_c_exhaustive(int depth)
{
    // op alphabet on nodes {0,1,2}: add_next/add_prev x (lnk,head), del_init, move, move_tail
    struct Op { const char *name; int a, b; };
    std::vector<Op> ops;
    for (int a = 0; a < 3; a++)
    {
        ops.push_back({"cdel_init", a, -1});
        for (int b = 0; b < 3; b++)
        {
            ops.push_back({"cmove", a, b});
            ops.push_back({"cmove_tail", a, b});
            if (a != b) { ops.push_back({"cadd_next", a, b}); ops.push_back({"cadd_prev", a, b}); }
        }
    }
    std::vector<int> idx(depth, 0);
    while (true)
    {
        // validity: adds need an unlinked entry
        Ref ref;
        for (int i = 0; i < 3; i++) ref.single(i);
        std::vector<std::string> lines;
        bool ok = true;
        for (int d = 0; d < depth && ok; d++)
        {
            const Op &o = ops[idx[d]];
            std::string nm = o.name;
            if (nm == "cadd_next" || nm == "cadd_prev")
            {
                if (ref.multi(o.a)) { ok = false; break; }
                if (nm == "cadd_next") ref.ins_after(o.a, o.b); else ref.ins_before(o.a, o.b);
            }
            else if (nm == "cdel_init") ref.single(o.a);
            else { if (o.a == o.b) ref.single(o.a); else if (nm == "cmove") ref.ins_after(o.a, o.b); else ref.ins_before(o.a, o.b); }
            lines.push_back(nm + " " + std::to_string(o.a) + (o.b >= 0 ? " " + std::to_string(o.b) : ""));
        }
        if (ok)
        {
            emit("reset c 3");
            for (auto &l : lines) emit(l);
            emit("clist 0");
        }
        int d = depth - 1;
        while (d >= 0 && ++idx[d] == (int)ops.size()) { idx[d] = 0; d--; }
        if (d < 0) break;
    }
}

static void gen(rng &r, const std::string &tier)
{
    bool th = tier == "thorough";
    gen_c_exhaustive(th ? 4 : 3);
    int cases = th ? 600 : 80;
    for (int i = 0; i < cases; i++) gen_c_case(r, (int)r.range(2, 12), th ? 200 : 120);
    for (int i = 0; i < cases; i++) gen_x_case(r, (int)r.range(1, 10), (int)r.range(1, 3), th ? 200 : 120);
    for (int i = 0; i < cases / 2; i++) gen_s_case(r, (int)r.range(3, 9), 80);
    for (int i = 0; i < cases / 2; i++) gen_h_case(r, (int)r.range(1, 8), (int)r.range(1, 3), 80);
}

int main(int argc, char **argv)
{
    int rc = main_(argc, argv, gen, run_op);
    free_all();
    return rc;
}
